package main

import (
	"encoding/json"
	"fmt"
	"sort"
	"strconv"
	"strings"

	sgbucket "github.com/couchbase/sg-bucket"
	"github.com/couchbaselabs/rosmar"
)

// The map-function family of C12. Each has a hand-written twin in the Lean model (Rosmar/View.lean, mapTwin) and in the
// Python oracle (lib/viewspec.py), same numbering.
var mapFamily = map[int]string{
	0: `function(doc, meta) { emit(meta.id, null); }`,
	1: `function(doc, meta) { if (doc.a !== undefined) emit(doc.a, doc.b === undefined ? null : doc.b); }`,
	2: `function(doc, meta) { if (Array.isArray(doc.tags)) { for (var i = 0; i < doc.tags.length; i++) { emit([doc.tags[i], i], 1); } } }`,
	3: `function(doc, meta) { if (meta.xattrs && meta.xattrs._sync !== undefined) emit(meta.id, meta.xattrs._sync); }`,
}

// putddoc <coll> <ddoc> <view>=<mapId>:<reduce> ...
func (w *World) putDDoc(c *rosmar.Collection, l Line) string {
	dd := sgbucket.DesignDoc{Language: "javascript", Views: sgbucket.ViewMap{}}
	for _, a := range l.Args {
		if !strings.HasPrefix(a[0], "v.") {
			continue
		}
		parts := strings.SplitN(a[1], ":", 2)
		m, _ := strconv.Atoi(parts[0])
		red := ""
		if len(parts) > 1 {
			red = parts[1]
		}
		dd.Views[a[0][2:]] = sgbucket.ViewDef{Map: mapFamily[m], Reduce: red}
	}
	return "r=" + errClass(c.PutDDoc(ctx, l.Pos[1], &dd))
}

func (w *World) delDDoc(c *rosmar.Collection, l Line) string {
	return "r=" + errClass(c.DeleteDDoc(l.Pos[1]))
}

// view <coll> <ddoc> <view> [key= startkey= endkey= incl=0 keys=[..] desc=1 limit=n reduce=0 group=1 glevel=n stale=ok]
func (w *World) view(c *rosmar.Collection, l Line) string {
	params := map[string]interface{}{}
	jsonArg := func(name, param string) {
		if s := l.str(name, ""); s != "" {
			var v interface{}
			if err := json.Unmarshal([]byte(s), &v); err == nil {
				params[param] = v
			}
		}
	}
	jsonArg("key", "key")
	jsonArg("startkey", "startkey")
	jsonArg("endkey", "endkey")
	jsonArg("keys", "keys")
	if l.str("incl", "") == "0" {
		params["inclusive_end"] = false
	}
	if l.str("desc", "") == "1" {
		params["descending"] = true
	}
	if s := l.str("limit", ""); s != "" {
		n, _ := strconv.Atoi(s)
		params["limit"] = n
	}
	if l.str("reduce", "") == "0" {
		params["reduce"] = false
	}
	if l.str("group", "") == "1" {
		params["group"] = true
	}
	if s := l.str("glevel", ""); s != "" {
		n, _ := strconv.Atoi(s)
		params["group_level"] = n
	}
	if l.str("stale", "") == "ok" {
		params["stale"] = "ok"
	} else {
		params["stale"] = false
	}
	var res sgbucket.ViewResult
	var err error
	if l.str("api", "") == "query" {
		var it sgbucket.QueryResultIterator
		it, err = c.ViewQuery(ctx, l.Pos[1], l.Pos[2], params)
		if err == nil {
			var row sgbucket.ViewRow
			for it.Next(ctx, &row) {
				r := row
				res.Rows = append(res.Rows, &r)
				row = sgbucket.ViewRow{}
			}
			err = it.Close()
		}
	} else {
		res, err = c.View(ctx, l.Pos[1], l.Pos[2], params)
	}
	if err != nil {
		return "r=" + errClass(err)
	}
	rows := make([]string, 0, len(res.Rows))
	for _, r := range res.Rows {
		k, _ := json.Marshal(r.Key)
		v, _ := json.Marshal(r.Value)
		rows = append(rows, r.ID+"|"+string(k)+"|"+string(v))
	}
	return fmt.Sprintf("r=ok n=%d rows=%s", len(rows), strings.Join(rows, ";"))
}

// ddocs <coll>: the design documents and views that exist
func (w *World) ddocs(c *rosmar.Collection) string {
	dds, err := c.GetDDocs()
	if err != nil {
		return "r=" + errClass(err)
	}
	var out []string
	for name, dd := range dds {
		var vs []string
		for vn, v := range dd.Views {
			m := -1
			for id, src := range mapFamily {
				if src == v.Map {
					m = id
				}
			}
			vs = append(vs, fmt.Sprintf("%s=%d:%s", vn, m, v.Reduce))
		}
		sort.Strings(vs)
		out = append(out, name+"("+strings.Join(vs, ",")+")")
	}
	sort.Strings(out)
	return "r=ok dd=" + strings.Join(out, ",")
}
