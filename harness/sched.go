package main

// schedHook is the entry point of the schedule controller (see sched mode); a no-op for sequential runs.
var schedHookFn func(point string, args ...any)

func schedHook(point string, args ...any) {
	if f := schedHookFn; f != nil {
		f(point, args...)
	}
}
