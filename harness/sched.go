package main

import (
	"bufio"
	"bytes"
	"encoding/json"
	"fmt"
	"os"
	"runtime"
	"strconv"
	"strings"
	"sync"
	"time"
)

// Schedule controller: goroutines started by `spawn` are parked at instrumentation points (verifPoint) and released
// in a scripted order, so that a chosen interleaving of the implementation's atomic actions is executed deterministically.

var schedHookFn func(point string, args ...any)

func schedHook(point string, args ...any) {
	if f := schedHookFn; f != nil {
		f(point, args...)
	}
}

func goid() int64 {
	var buf [64]byte
	n := runtime.Stack(buf[:], false)
	f := bytes.Fields(buf[:n])
	if len(f) < 2 {
		return -1
	}
	id, _ := strconv.ParseInt(string(f[1]), 10, 64)
	return id
}

type parkSpec struct {
	point string
	nth   int
	seen  int
}

type thread struct {
	name     string
	parks    []*parkSpec
	parkedAt string
	parked   chan struct{} // signalled when the thread parks
	resume   chan struct{}
	done     chan struct{}
	result   string
}

type controller struct {
	mu      sync.Mutex
	byGid   map[int64]*thread
	threads map[string]*thread
	// pseudo-threads for goroutines the implementation starts itself (timer, feed): claimed by point name
	claims map[string]*thread
	trace  []string
}

func newController() *controller {
	c := &controller{byGid: map[int64]*thread{}, threads: map[string]*thread{}, claims: map[string]*thread{}}
	schedHookFn = c.hook
	return c
}

func (c *controller) get(name string) *thread {
	c.mu.Lock()
	defer c.mu.Unlock()
	t := c.threads[name]
	if t == nil {
		t = &thread{name: name, parked: make(chan struct{}, 16), resume: make(chan struct{}, 16), done: make(chan struct{})}
		c.threads[name] = t
	}
	return t
}

func (c *controller) hook(point string, args ...any) {
	g := goid()
	c.mu.Lock()
	t := c.byGid[g]
	if t == nil {
		// a goroutine of the implementation's own (expiry timer, feed): a pseudo-thread may have claimed this point
		if ct := c.claims[point]; ct != nil {
			t = ct
		}
	}
	if t == nil {
		c.mu.Unlock()
		return
	}
	var hit *parkSpec
	for _, p := range t.parks {
		if p.point == point {
			p.seen++
			if p.seen == p.nth {
				hit = p
			}
		}
	}
	if hit == nil {
		c.mu.Unlock()
		return
	}
	t.parkedAt = point
	c.trace = append(c.trace, t.name+"@"+point)
	c.mu.Unlock()
	t.parked <- struct{}{}
	<-t.resume
	c.mu.Lock()
	t.parkedAt = ""
	c.mu.Unlock()
}

type schedStep struct {
	Do     string `json:"do"`     // run | park | claim | spawn | await | release | join | sleep
	Thread string `json:"thread"` // for park/claim/spawn/await/release/join
	Point  string `json:"point"`
	Nth    int    `json:"nth"`
	Line   string `json:"line"` // op line for run/spawn
	Ms     int    `json:"ms"`
}

type schedScenario struct {
	Name  string      `json:"name"`
	Kind  string      `json:"kind"` // mem | disk | reg
	Steps []schedStep `json:"steps"`
}

// schedMode runs scenarios read (one JSON object per line) from -in, printing one JSON result per scenario.
func schedMode(args []string) int {
	in, out := "", ""
	for i := 0; i+1 < len(args); i += 2 {
		switch args[i] {
		case "-in":
			in = args[i+1]
		case "-out":
			out = args[i+1]
		}
	}
	f, err := os.Open(in)
	if err != nil {
		fmt.Fprintln(os.Stderr, err)
		return 2
	}
	defer f.Close()
	of := os.Stdout
	if out != "" {
		of, err = os.Create(out)
		if err != nil {
			fmt.Fprintln(os.Stderr, err)
			return 2
		}
		defer of.Close()
	}
	w := bufio.NewWriter(of)
	defer w.Flush()
	sc := bufio.NewScanner(f)
	sc.Buffer(make([]byte, 1<<20), 1<<26)
	for sc.Scan() {
		line := strings.TrimSpace(sc.Text())
		if line == "" {
			continue
		}
		var s schedScenario
		if err := json.Unmarshal([]byte(line), &s); err != nil {
			fmt.Fprintln(os.Stderr, "bad scenario:", err)
			return 2
		}
		res := runScenario(s)
		b, _ := json.Marshal(res)
		w.Write(b)
		w.WriteByte('\n')
		w.Flush()
		if res["stuck"] == true {
			// a deadlocked implementation cannot be torn down: leave the process
			return 3
		}
	}
	return 0
}

func runScenario(s schedScenario) map[string]any {
	ctl := newController()
	defer func() { schedHookFn = nil }()
	var execLine func(l Line) string
	var closeWorld func()
	if s.Kind == "reg" {
		rw := newRegWorld()
		execLine = rw.exec
		closeWorld = rw.close
	} else {
		kw, err := newWorld(s.Kind)
		if err != nil {
			return map[string]any{"name": s.Name, "error": err.Error()}
		}
		execLine = kw.exec
		closeWorld = kw.close
	}
	results := []map[string]string{}
	stuck := false
	wait := func(ch chan struct{}, d time.Duration) bool {
		select {
		case <-ch:
			return true
		case <-time.After(d):
			return false
		}
	}
	for i, st := range s.Steps {
		switch st.Do {
		case "run":
			l, _ := parseLine(st.Line)
			ch := make(chan string, 1)
			go func() { ch <- execLine(l) }()
			select {
			case r := <-ch:
				results = append(results, map[string]string{"step": strconv.Itoa(i), "line": st.Line, "result": r})
			case <-time.After(10 * time.Second):
				results = append(results, map[string]string{"step": strconv.Itoa(i), "line": st.Line, "result": "r=hang"})
				stuck = true
			}
		case "park":
			t := ctl.get(st.Thread)
			n := st.Nth
			if n == 0 {
				n = 1
			}
			ctl.mu.Lock()
			t.parks = append(t.parks, &parkSpec{point: st.Point, nth: n})
			ctl.mu.Unlock()
		case "claim":
			t := ctl.get(st.Thread)
			ctl.mu.Lock()
			ctl.claims[st.Point] = t
			ctl.mu.Unlock()
		case "spawn":
			t := ctl.get(st.Thread)
			l, _ := parseLine(st.Line)
			started := make(chan struct{})
			go func() {
				ctl.mu.Lock()
				ctl.byGid[goid()] = t
				ctl.mu.Unlock()
				close(started)
				t.result = execLine(l)
				close(t.done)
			}()
			<-started
		case "await":
			t := ctl.get(st.Thread)
			select {
			case <-t.parked:
			case <-t.done:
				// the thread finished without passing the point (its call took another path): not an error of the schedule -
				// the remaining steps run and the outcome is judged as usual
				results = append(results, map[string]string{"step": strconv.Itoa(i), "thread": st.Thread, "result": "not-parked:" + st.Point})
			case <-time.After(5 * time.Second):
				results = append(results, map[string]string{"step": strconv.Itoa(i), "thread": st.Thread, "result": "await-timeout:" + st.Point})
			}
		case "release":
			t := ctl.get(st.Thread)
			t.resume <- struct{}{}
		case "join":
			t := ctl.get(st.Thread)
			if wait(t.done, 10*time.Second) {
				results = append(results, map[string]string{"step": strconv.Itoa(i), "thread": st.Thread, "result": t.result})
			} else {
				results = append(results, map[string]string{"step": strconv.Itoa(i), "thread": st.Thread, "result": "r=hang"})
				stuck = true
			}
		case "sleep":
			time.Sleep(time.Duration(st.Ms) * time.Millisecond)
		}
		if stuck {
			break
		}
	}
	ctl.mu.Lock()
	trace := append([]string(nil), ctl.trace...)
	ctl.mu.Unlock()
	out := map[string]any{"name": s.Name, "results": results, "trace": trace, "stuck": stuck}
	if stuck {
		buf := make([]byte, 1<<16)
		n := runtime.Stack(buf, true)
		out["goroutines"] = string(buf[:n])
		return out
	}
	// release anything still parked so that the world can be torn down
	ctl.mu.Lock()
	for _, t := range ctl.threads {
		for len(t.parks) > 0 {
			t.parks = nil
		}
		select {
		case t.resume <- struct{}{}:
		default:
		}
	}
	ctl.mu.Unlock()
	done := make(chan struct{})
	go func() { closeWorld(); close(done) }()
	if !wait(done, 10*time.Second) {
		out["stuck"] = true
		out["teardown"] = "hang"
	}
	return out
}

func init() { extraModes["sched"] = schedMode }
