package main

import (
	"fmt"
	"sort"
	"strconv"
	"strings"
)

// Line is one concrete protocol line: op, positional words, then k=v arguments (in order).
type Line struct {
	Op   string
	Pos  []string
	Args [][2]string
}

func parseLine(s string) (Line, error) {
	s = strings.TrimRight(s, "\r\n")
	toks := strings.Split(s, " ")
	var l Line
	if len(toks) == 0 || toks[0] == "" {
		return l, fmt.Errorf("empty line")
	}
	l.Op = toks[0]
	for _, t := range toks[1:] {
		if t == "" {
			continue
		}
		if i := strings.IndexByte(t, '='); i >= 0 {
			l.Args = append(l.Args, [2]string{t[:i], t[i+1:]})
		} else {
			l.Pos = append(l.Pos, t)
		}
	}
	return l, nil
}

func (l Line) String() string {
	var sb strings.Builder
	sb.WriteString(l.Op)
	for _, p := range l.Pos {
		sb.WriteByte(' ')
		sb.WriteString(p)
	}
	for _, a := range l.Args {
		sb.WriteByte(' ')
		sb.WriteString(a[0])
		sb.WriteByte('=')
		sb.WriteString(a[1])
	}
	return sb.String()
}

func (l Line) get(k string) (string, bool) {
	for _, a := range l.Args {
		if a[0] == k {
			return a[1], true
		}
	}
	return "", false
}

func (l Line) str(k, def string) string {
	if v, ok := l.get(k); ok {
		return v
	}
	return def
}

func (l Line) u64(k string, def uint64) uint64 {
	if v, ok := l.get(k); ok {
		n, err := strconv.ParseUint(v, 10, 64)
		if err != nil {
			panic(fmt.Sprintf("bad number %s=%s", k, v))
		}
		return n
	}
	return def
}

func (l Line) flag(k string) bool { return l.u64(k, 0) != 0 }

// bytesArg returns nil when the key is absent, else the (possibly empty) bytes.
func (l Line) bytesArg(k string) []byte {
	if v, ok := l.get(k); ok {
		return []byte(v)
	}
	return nil
}

// prefixed returns the arguments whose key starts with prefix (e.g. "x."), prefix stripped, in line order.
func (l Line) prefixed(prefix string) [][2]string {
	var out [][2]string
	for _, a := range l.Args {
		if strings.HasPrefix(a[0], prefix) {
			out = append(out, [2]string{a[0][len(prefix):], a[1]})
		}
	}
	return out
}

func (l *Line) add(k, v string) { l.Args = append(l.Args, [2]string{k, v}) }

// optBytes prints a possibly-nil byte slice: "~" for nil, "=" + text otherwise.
func optBytes(b []byte) string {
	if b == nil {
		return "~"
	}
	return "=" + string(b)
}

func sortedKeys[V any](m map[string]V) []string {
	keys := make([]string, 0, len(m))
	for k := range m {
		keys = append(keys, k)
	}
	sort.Strings(keys)
	return keys
}

// fmtMap prints a name -> bytes map canonically: {a=1,b=2}; nil map prints "~".
func fmtMap(m map[string][]byte) string {
	if m == nil {
		return "~"
	}
	var sb strings.Builder
	sb.WriteByte('{')
	for i, k := range sortedKeys(m) {
		if i > 0 {
			sb.WriteByte(',')
		}
		sb.WriteString(k)
		sb.WriteByte('=')
		sb.Write(m[k])
	}
	sb.WriteByte('}')
	return sb.String()
}
