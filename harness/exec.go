package main

import (
	"context"
	"encoding/json"
	"errors"
	"fmt"
	"os"
	"path/filepath"
	"sort"
	"strconv"
	"strings"
	"sync"
	"sync/atomic"
	"time"

	sgbucket "github.com/couchbase/sg-bucket"
	"github.com/couchbaselabs/rosmar"
)

var ctx = context.Background()

// World is one program's execution environment on the real implementation.
type World struct {
	kind    string // mem | disk
	name    string
	url     string
	dir     string
	handles map[string]*rosmar.Bucket // h0, h1, ...
	colls   map[string]*rosmar.Collection
	collVia map[string]string // collection label -> handle label used to open it
	scopes  map[string][2]string
	feeds   map[string]*feedRec
	physClk atomic.Uint64
	nowSecs atomic.Uint32
	posts   sync.Map // collection id (uint32) -> *atomic.Int64 count of post.before
	mu      sync.Mutex
}

type feedRec struct {
	id         string
	coll       string
	colls      []string // a bucket-level feed over several collections (coll is then the first of them)
	mu         sync.Mutex
	events     []string
	delivered  int64 // live events delivered (after end of backfill / from start)
	inBackfill bool
	sawEnd     bool
	wantBF     bool
	basePosts  int64
	collID     uint32
	term       chan bool
	done       chan struct{}
	dump       bool
	printed    int
	afterDone  int
	doneClosed atomic.Bool
	starved    bool        // a drain of this feed already timed out: later drains do not wait as long again
	termClosed atomic.Bool // the harness closed the terminator
	afterTerm  int         // callbacks that started after the terminator was closed
}

var progCounter atomic.Int64

func tmpRoot() string {
	if d := os.Getenv("VERIF_TMP"); d != "" {
		return d
	}
	return "/verif/.work"
}

func newWorld(kind string) (*World, error) { return newWorldAt(kind, "", "", false) }

// newWorldAt creates (or, with reopen, reopens in this fresh process) the bucket of a program at a given directory.
func newWorldAt(kind, dir, name string, reopen bool) (*World, error) {
	w := &World{kind: kind, handles: map[string]*rosmar.Bucket{}, colls: map[string]*rosmar.Collection{},
		collVia: map[string]string{}, scopes: map[string][2]string{}, feeds: map[string]*feedRec{}}
	n := progCounter.Add(1)
	w.name = fmt.Sprintf("p%d_%d", os.Getpid(), n)
	if name != "" {
		w.name = name
	}
	if kind == "disk" {
		w.dir = filepath.Join(tmpRoot(), "buckets", w.name)
		if dir != "" {
			w.dir = dir
		}
		if err := os.MkdirAll(filepath.Dir(w.dir), 0o755); err != nil {
			return nil, err
		}
		w.url = "rosmar://" + w.dir
	} else {
		w.url = rosmar.InMemoryURL
	}
	w.physClk.Store(1 << 20)
	w.nowSecs.Store(1700000000)
	rosmar.VerifSetClock(func() uint64 { return w.physClk.Load() })
	rosmar.VerifSetNow(func() uint32 { return w.nowSecs.Load() })
	rosmar.VerifSetHook(w.hook)
	mode := rosmar.CreateNew
	if reopen {
		mode = rosmar.ReOpenExisting
		if os.Getenv("VERIF_REOPEN_MODE") == "open" {
			mode = rosmar.CreateOrOpen
		}
	}
	b, err := rosmar.OpenBucket(w.url, w.name, rosmar.OpenMode(mode))
	if err != nil {
		return nil, err
	}
	w.handles["h0"] = b
	if reopen {
		rosmar.VerifStopExpiryTimer(b)
	} else {
		rosmar.VerifResetHLC(0)
	}
	w.scopes["c0"] = [2]string{"_default", "_default"}
	w.scopes["c1"] = [2]string{"s1", "a"}
	w.scopes["c2"] = [2]string{"s1", "b"}
	w.scopes["c3"] = [2]string{"s1", "c"} // not created until a program asks for it (mkcoll)
	w.scopes["c4"] = [2]string{"s2", "a"} // same collection name as c1, in another scope
	w.scopes["c5"] = [2]string{"s1", "A"} // c1's name in another case
	for _, c := range []string{"c0", "c1", "c2"} {
		if _, err := w.openColl(c, "h0"); err != nil {
			return nil, err
		}
	}
	return w, nil
}

func (w *World) hook(point string, args ...any) {
	if point == "post.before" && len(args) >= 1 {
		if id, ok := args[0].(uint32); ok {
			v, _ := w.posts.LoadOrStore(id, new(atomic.Int64))
			v.(*atomic.Int64).Add(1)
		}
	}
	schedHook(point, args...)
}

func (w *World) openColl(label, handle string) (*rosmar.Collection, error) {
	b := w.handles[handle]
	if b == nil {
		return nil, fmt.Errorf("no handle %s", handle)
	}
	sc := w.scopes[label]
	var ds sgbucket.DataStore
	var err error
	if label == "c0" {
		ds = b.DefaultDataStore()
		if ds == nil {
			return nil, fmt.Errorf("DefaultDataStore returned nil")
		}
	} else {
		ds, err = b.NamedDataStore(sgbucket.DataStoreNameImpl{Scope: sc[0], Collection: sc[1]})
		if err != nil {
			return nil, err
		}
	}
	c := ds.(*rosmar.Collection)
	w.colls[label+"@"+handle] = c
	if _, ok := w.colls[label]; !ok || handle == "h0" {
		w.colls[label] = c
		w.collVia[label] = handle
	}
	return c, nil
}

func (w *World) close() {
	rosmar.VerifSetHook(nil)
	for _, f := range w.feeds {
		if f.term != nil {
			safeCloseBool(f.term)
		}
	}
	if b := w.handles["h0"]; b != nil {
		func() {
			defer func() { _ = recover() }()
			_ = b.CloseAndDelete(ctx)
		}()
	}
	for _, b := range w.handles {
		func() {
			defer func() { _ = recover() }()
			b.Close(ctx)
		}()
	}
	if w.dir != "" {
		_ = os.RemoveAll(w.dir)
	}
	rosmar.VerifSetClock(nil)
	rosmar.VerifSetNow(nil)
}

func safeCloseBool(c chan bool) {
	defer func() { _ = recover() }()
	close(c)
}

// errClass maps an error to the small enum shared with the model.
func errClass(err error) string {
	if err == nil {
		return "ok"
	}
	var missing sgbucket.MissingError
	var casErr sgbucket.CasMismatchErr
	var tooBig sgbucket.DocTooBigErr
	var xm sgbucket.XattrMissingError
	var unimpl *rosmar.ErrUnimplemented
	switch {
	case errors.As(err, &missing):
		return "missing"
	case errors.As(err, &casErr):
		return "casmismatch"
	case errors.As(err, &tooBig):
		return "toobig"
	case errors.As(err, &xm):
		return "xattrmissing"
	case errors.As(err, &unimpl):
		return "unimplemented"
	case errors.Is(err, sgbucket.ErrKeyExists):
		return "keyexists"
	case errors.Is(err, sgbucket.ErrPathNotFound):
		return "pathnotfound"
	case errors.Is(err, sgbucket.ErrPathExists):
		return "pathexists"
	case errors.Is(err, sgbucket.ErrPathMismatch):
		return "pathmismatch"
	case errors.Is(err, sgbucket.ErrNeedXattrs):
		return "needxattrs"
	case errors.Is(err, sgbucket.ErrNeedBody):
		return "needbody"
	case errors.Is(err, sgbucket.ErrNilXattrValue):
		return "nilxattr"
	case errors.Is(err, sgbucket.ErrDeleteXattrOnDocumentInsert):
		return "delxattroninsert"
	case errors.Is(err, sgbucket.ErrUpsertAndDeleteSameXattr):
		return "upsertanddelete"
	case errors.Is(err, sgbucket.ErrDeleteXattrOnTombstone):
		return "delxattrontombstone"
	case errors.Is(err, rosmar.ErrBucketClosed):
		return "closed"
	}
	s := err.Error()
	switch {
	case strings.Contains(s, "rosmar does not support Xattr key"):
		return "badxattrkey"
	case strings.Contains(s, "unparseable xattr"):
		return "badxattrjson"
	case strings.Contains(s, "invalid subdoc key"):
		return "badpath"
	case strings.Contains(s, "Unable to convert xattr to map"):
		return "macronotmap"
	case strings.Contains(s, "Unable to set macro expansion"):
		return "macropath"
	case strings.Contains(s, "database is closed"):
		return "dbclosed"
	case strings.Contains(s, "raw value must be []byte"):
		return "rawnotbytes"
	case strings.Contains(s, "invalid character") || strings.Contains(s, "cannot unmarshal") || strings.Contains(s, "unexpected end of JSON"):
		return "badjson"
	}
	return "other:" + strings.ReplaceAll(s, " ", "_")
}

func casMismatchActual(err error) string {
	var casErr sgbucket.CasMismatchErr
	if errors.As(err, &casErr) {
		return fmt.Sprintf(" actual=%d", casErr.Actual)
	}
	return ""
}

func xattrArgs(l Line) map[string][]byte {
	xs := l.prefixed("x.")
	nils := l.prefixed("xnil.")
	if len(xs) == 0 && len(nils) == 0 {
		if l.flag("xempty") {
			return map[string][]byte{}
		}
		return nil
	}
	m := map[string][]byte{}
	for _, x := range xs {
		m[x[0]] = []byte(x[1])
	}
	for _, x := range nils {
		m[x[0]] = nil
	}
	return m
}

func delArgs(l Line) []string {
	ds := l.prefixed("d.")
	if len(ds) == 0 {
		if l.flag("dempty") {
			return []string{}
		}
		return nil
	}
	var out []string
	for _, d := range ds {
		out = append(out, d[0])
	}
	return out
}

func mutateOpts(l Line) *sgbucket.MutateInOptions {
	ms := l.prefixed("m.")
	pe := l.flag("pe")
	if len(ms) == 0 && !pe && !l.flag("mopts") {
		return nil
	}
	o := &sgbucket.MutateInOptions{PreserveExpiry: pe}
	for _, m := range ms {
		t := sgbucket.MacroCas
		if m[1] == "crc" {
			t = sgbucket.MacroCrc32c
		}
		o.MacroExpansion = append(o.MacroExpansion, sgbucket.NewMacroExpansionSpec(m[0], t))
	}
	return o
}

// exec runs one protocol line against the implementation and returns its canonical result text.
var traceHLC = os.Getenv("VERIF_TRACE_HLC") == "1"

func (w *World) exec(l Line) (res string) {
	// (metamorphic runs) `@hlc=N` puts the process clock where it stood at this point of another run; with VERIF_TRACE_HLC=1 every
	// result line reports where the clock stood before the operation
	if v, ok := l.get("@hlc"); ok {
		if n, err := strconv.ParseUint(v, 10, 64); err == nil {
			rosmar.VerifResetHLC(n)
		}
	}
	if traceHLC {
		before := rosmar.VerifHLCHighest()
		defer func() { res += fmt.Sprintf(" @hlc=%d", before) }()
	}
	defer func() {
		if strings.Contains(res, "FOREIGN_KEY_constraint_failed") {
			res = "r=dropped" // a write through the object of a dropped collection
		}
	}()
	defer func() {
		if r := recover(); r != nil {
			msg := fmt.Sprint(r)
			cls := "other"
			switch {
			case strings.Contains(msg, "isn't absolute"):
				cls = "expnotabsolute"
			case strings.Contains(msg, "missing revSeqNo"):
				cls = "norevseqno"
			case strings.Contains(msg, "nil map"):
				cls = "nilmap"
			case strings.Contains(msg, "Error expiring docs"):
				cls = "expiryerror"
			}
			res = "r=panic:" + cls
			if cls == "other" {
				res += ":" + strings.ReplaceAll(msg, " ", "_")
			}
		}
	}()
	var c *rosmar.Collection
	key := ""
	if len(l.Pos) >= 1 {
		lab := l.Pos[0]
		if h, ok := l.get("via"); ok {
			lab = lab + "@" + h
		}
		c = w.colls[lab]
	}
	if len(l.Pos) >= 2 {
		key = l.Pos[1]
	}
	needColl := func() {
		if c == nil {
			panic("harness: unknown collection in " + l.String())
		}
	}
	exp := uint32(l.u64("exp", 0))
	if r, ok := w.lifeExec(l); ok {
		return r
	}
	switch l.Op {
	case "clock":
		w.physClk.Store(l.u64("t", 0))
		return "r=ok"
	case "now":
		w.nowSecs.Store(uint32(l.u64("s", 0)))
		return "r=ok"
	case "add":
		needColl()
		var added bool
		var err error
		if l.flag("json") {
			added, err = c.Add(key, exp, l.bytesArg("v"))
		} else {
			added, err = c.AddRaw(key, exp, l.bytesArg("v"))
		}
		return fmt.Sprintf("r=%s added=%v", errClass(err), added)
	case "set":
		needColl()
		var opts *sgbucket.UpsertOptions
		if l.flag("pe") {
			opts = &sgbucket.UpsertOptions{PreserveExpiry: true}
		}
		var err error
		if l.flag("raw") {
			err = c.SetRaw(key, exp, opts, l.bytesArg("v"))
		} else {
			err = c.Set(key, exp, opts, l.bytesArg("v"))
		}
		return "r=" + errClass(err)
	case "wcas":
		needColl()
		var val any
		if b := l.bytesArg("v"); b != nil {
			val = b
		}
		cas, err := c.WriteCas(key, exp, l.u64("cas", 0), val, sgbucket.WriteOptions(l.u64("opt", 0)))
		return fmt.Sprintf("r=%s cas=%d%s", errClass(err), cas, casMismatchActual(err))
	case "remove":
		needColl()
		cas, err := c.Remove(key, l.u64("cas", 0))
		return fmt.Sprintf("r=%s cas=%d%s", errClass(err), cas, casMismatchActual(err))
	case "delete":
		needColl()
		return "r=" + errClass(c.Delete(key))
	case "touch":
		needColl()
		cas, err := c.Touch(key, exp)
		return fmt.Sprintf("r=%s cas=%d", errClass(err), cas)
	case "gat":
		needColl()
		v, cas, err := c.GetAndTouchRaw(key, exp)
		return fmt.Sprintf("r=%s cas=%d v%s", errClass(err), cas, optBytes(v))
	case "incr":
		needColl()
		n, err := c.Incr(key, l.u64("amt", 0), l.u64("def", 0), exp)
		if err != nil {
			n = 0
		}
		return fmt.Sprintf("r=%s n=%d", errClass(err), n)
	case "setx":
		needColl()
		cas, err := c.SetXattrs(ctx, key, xattrArgs(l))
		return fmt.Sprintf("r=%s cas=%d", errClass(err), cas)
	case "rmx":
		needColl()
		err := c.RemoveXattrs(ctx, key, delArgs(l), l.u64("cas", 0))
		return fmt.Sprintf("r=%s%s", errClass(err), casMismatchActual(err))
	case "updx":
		needColl()
		cas, err := c.UpdateXattrs(ctx, key, exp, l.u64("cas", 0), xattrArgs(l), mutateOpts(l))
		return fmt.Sprintf("r=%s cas=%d%s", errClass(err), cas, casMismatchActual(err))
	case "wwx":
		needColl()
		cas, err := c.WriteWithXattrs(ctx, key, exp, l.u64("cas", 0), l.bytesArg("v"), xattrArgs(l), delArgs(l), mutateOpts(l))
		return fmt.Sprintf("r=%s cas=%d%s", errClass(err), cas, casMismatchActual(err))
	case "wtx":
		needColl()
		cas, err := c.WriteTombstoneWithXattrs(ctx, key, exp, l.u64("cas", 0), xattrArgs(l), delArgs(l), l.flag("delbody"), mutateOpts(l))
		return fmt.Sprintf("r=%s cas=%d%s", errClass(err), cas, casMismatchActual(err))
	case "wrx":
		needColl()
		cas, err := c.WriteResurrectionWithXattrs(ctx, key, exp, l.bytesArg("v"), xattrArgs(l), mutateOpts(l))
		return fmt.Sprintf("r=%s cas=%d%s", errClass(err), cas, casMismatchActual(err))
	case "uxdb":
		needColl()
		var xv any
		if b := l.bytesArg("xv"); b != nil {
			xv = b
		}
		cas, err := c.UpdateXattrDeleteBody(ctx, key, l.str("xk", ""), exp, l.u64("cas", 0), xv, mutateOpts(l))
		return fmt.Sprintf("r=%s cas=%d%s", errClass(err), cas, casMismatchActual(err))
	case "delx":
		needColl()
		return "r=" + errClass(c.DeleteWithXattrs(ctx, key, delArgs(l)))
	case "dsp":
		needColl()
		return "r=" + errClass(c.DeleteSubDocPaths(ctx, key, delArgs(l)...))
	case "swm":
		needColl()
		err := c.SetWithMeta(ctx, key, l.u64("old", 0), l.u64("new", 0), exp, l.bytesArg("x"), l.bytesArg("v"), sgbucket.FeedDataType(l.u64("dt", 0)))
		return fmt.Sprintf("r=%s%s", errClass(err), casMismatchActual(err))
	case "dwm":
		needColl()
		err := c.DeleteWithMeta(ctx, key, l.u64("old", 0), l.u64("new", 0), exp, l.bytesArg("x"))
		return fmt.Sprintf("r=%s%s", errClass(err), casMismatchActual(err))
	case "purge":
		b := w.handles[l.str("via", "h0")]
		n, err := b.PurgeTombstones()
		return fmt.Sprintf("r=%s n=%d", errClass(err), n)
	case "wsd":
		needColl()
		cas, err := c.WriteSubDoc(ctx, key, l.str("path", ""), l.u64("cas", 0), l.bytesArg("v"))
		return fmt.Sprintf("r=%s cas=%d%s", errClass(err), cas, casMismatchActual(err))
	case "sdi":
		needColl()
		var val any
		if b := l.bytesArg("v"); b != nil {
			if err := json.Unmarshal(b, &val); err != nil {
				return "r=harness-badjson"
			}
		}
		err := c.SubdocInsert(ctx, key, l.str("path", ""), l.u64("cas", 0), val)
		return fmt.Sprintf("r=%s%s", errClass(err), casMismatchActual(err))
	case "gsd":
		needColl()
		v, cas, err := c.GetSubDocRaw(ctx, key, l.str("path", ""))
		if err != nil {
			v = nil
			cas = 0
		}
		return fmt.Sprintf("r=%s cas=%d v%s", errClass(err), cas, optBytes(v))
	case "rb":
		needColl()
		return w.readback(c, key, l.str("n", ""))
	case "query":
		needColl()
		return w.query(c, int(l.u64("q", 1)), l.str("adhoc", "1") != "0")
	case "putddoc":
		needColl()
		return w.putDDoc(c, l)
	case "delddoc":
		needColl()
		return w.delDDoc(c, l)
	case "view":
		needColl()
		return w.view(c, l)
	case "ddocs":
		needColl()
		return w.ddocs(c)
	case "draw":
		return fmt.Sprintf("r=ok cas=%d", rosmar.VerifHLCNow())
	case "restart":
		return w.restart(l.u64("hlc", 0), l.str("mode", ""))
	case "reopenmem":
		return w.reopenMem()
	case "lastcas":
		needColl()
		b, cc, err := rosmar.VerifLastCas(c)
		return fmt.Sprintf("r=%s bucket=%d coll=%d hlc=%d", errClass(err), b, cc, rosmar.VerifHLCHighest())
	case "keys":
		needColl()
		ks, err := rosmar.VerifKeys(c)
		return fmt.Sprintf("r=%s keys=%s", errClass(err), strings.Join(ks, ","))
	case "feed":
		return w.startFeed(l)
	case "drain":
		return w.drain(l)
	case "mfeed":
		return w.startMultiFeed(l)
	case "feedstat":
		f := w.feeds[l.Pos[0]]
		if f == nil {
			return "r=harness-nofeed"
		}
		time.Sleep(50 * time.Millisecond)
		f.mu.Lock()
		defer f.mu.Unlock()
		return fmt.Sprintf("r=ok events=%d afterterm=%d afterdone=%d done=%v", len(f.events), f.afterTerm, f.afterDone, f.doneClosed.Load())
	case "stopfeed":
		return w.stopFeed(l)
	case "expstate":
		next, _ := rosmar.VerifExpiryState(w.handles["h0"])
		return fmt.Sprintf("r=ok next=%d", next)
	case "fire":
		rosmar.VerifFireExpiry(w.handles["h0"])
		next, _ := rosmar.VerifExpiryState(w.handles["h0"])
		return fmt.Sprintf("r=ok next=%d", next)
	case "dropcoll":
		b := w.handles[l.str("via", "h0")]
		if b == nil {
			return "r=harness-nohandle"
		}
		sc := w.scopes[l.Pos[0]]
		err := b.DropDataStore(sgbucket.DataStoreNameImpl{Scope: sc[0], Collection: sc[1]})
		return "r=" + errClass(err)
	case "mkcoll":
		// (re)create / reopen a collection through a handle
		cc, err := w.openColl(l.Pos[0], l.str("via", "h0"))
		if err != nil {
			return "r=" + errClass(err)
		}
		return fmt.Sprintf("r=ok id=%d", rosmar.VerifCollectionRowID(cc))
	case "update":
		needColl()
		return w.execUpdate(c, key, exp, l)
	case "wuwx":
		needColl()
		return w.execWuwx(c, key, exp, l)
	}
	return "r=harness-unknown-op"
}

func errClassVal(err error, ok string) string {
	if err != nil {
		return errClass(err)
	}
	return ok
}

// readback prints the raw row and what every public read returns for the key.
func (w *World) readback(c *rosmar.Collection, key string, names string) string {
	var sb strings.Builder
	r, err := rosmar.VerifRawRow(c, key)
	if err != nil {
		fmt.Fprintf(&sb, "row=err:%s", errClass(err))
	} else if !r.Found {
		sb.WriteString("row=0")
	} else {
		v, x := "~", "~"
		if !r.ValueNull {
			v = "=" + string(r.Value)
		}
		if !r.XattrsNil {
			x = "=" + string(r.Xattrs)
		}
		j := 0
		if r.IsJSON {
			j = 1
		}
		fmt.Fprintf(&sb, "row=1 v%s cas=%d exp=%d json=%d x%s tomb=%d rev=%d", v, r.Cas, r.Exp, j, x, r.Tombstone, r.RevSeqNo)
	}
	val, cas, err := c.GetRaw(key)
	fmt.Fprintf(&sb, " | gr=%s:%s:%d", errClass(err), optBytes(val), cas)
	var out []byte
	cas, err = c.Get(key, &out)
	fmt.Fprintf(&sb, " g=%s:%s:%d", errClass(err), optBytes(out), cas)
	ex, err := c.Exists(key)
	fmt.Fprintf(&sb, " ex=%s:%v", errClass(err), ex)
	e, err := c.GetExpiry(ctx, key)
	fmt.Fprintf(&sb, " ge=%s:%d", errClass(err), e)
	var xn []string
	if names != "" {
		xn = strings.Split(names, ",")
	}
	body, xattrs, cas, err := c.GetWithXattrs(ctx, key, xn)
	fmt.Fprintf(&sb, " gwx=%s:%s:%d:%s", errClass(err), optBytes(body), cas, fmtMap(xattrs))
	xm, cas, err := c.GetXattrs(ctx, key, xn)
	fmt.Fprintf(&sb, " gx=%s:%d:%s", errClass(err), cas, fmtMap(xm))
	return sb.String()
}

//////// feeds

func fmtEvent(e sgbucket.FeedEvent) string {
	switch e.Opcode {
	case sgbucket.FeedOpBeginBackfill:
		return "ev:begin"
	case sgbucket.FeedOpEndBackfill:
		return "ev:end"
	}
	op := "mut"
	if e.Opcode == sgbucket.FeedOpDeletion {
		op = "del"
	} else if e.Opcode != sgbucket.FeedOpMutation {
		op = fmt.Sprintf("op%d", e.Opcode)
	}
	val := e.Value
	xs := "~"
	if e.DataType&sgbucket.FeedDataTypeXattr != 0 {
		body, xattrs, err := sgbucket.DecodeValueWithAllXattrs(e.Value)
		if err != nil {
			xs = "decode-error"
		} else {
			val = body
			if len(body) == 0 {
				val = nil // the framing cannot distinguish an absent body from an empty one
			}
			xs = fmtMap(xattrs)
			if xattrs == nil {
				xs = "{}"
			}
		}
	}
	return fmt.Sprintf("ev:{k=%s;op=%s;dt=%d;v%s;x=%s;cas=%d;exp=%d;rev=%d;coll=%d}", e.Key, op, e.DataType, optBytes(val), xs, e.Cas, e.Expiry, e.RevNo, e.CollectionID)
}

func (w *World) postCount(collID uint32) int64 {
	v, _ := w.posts.LoadOrStore(collID, new(atomic.Int64))
	return v.(*atomic.Int64).Load()
}

func (w *World) startFeed(l Line) string {
	id := l.Pos[0]
	lab := l.Pos[1]
	handle := l.str("via", "h0")
	c := w.colls[lab+"@"+handle]
	if c == nil {
		c = w.colls[lab]
	}
	if c == nil {
		return "r=harness-nocoll"
	}
	f := &feedRec{id: id, coll: lab, term: make(chan bool), done: make(chan struct{}), dump: l.flag("dump")}
	args := sgbucket.FeedArguments{ID: id, Dump: f.dump, KeysOnly: l.flag("keysonly"), Terminator: f.term, DoneChan: f.done,
		CheckpointPrefix: l.str("prefix", "")}
	switch bf := l.str("bf", "none"); bf {
	case "none":
		args.Backfill = sgbucket.FeedNoBackfill
	case "resume":
		args.Backfill = sgbucket.FeedResume
		f.wantBF = true
	default:
		n, _ := strconv.ParseUint(bf, 10, 64)
		args.Backfill = n
		f.wantBF = true
	}
	w.mu.Lock()
	w.feeds[id] = f
	w.mu.Unlock()
	f.collID = c.GetCollectionID()
	cb := func(e sgbucket.FeedEvent) bool {
		f.mu.Lock()
		defer f.mu.Unlock()
		if f.doneClosed.Load() {
			f.afterDone++
		}
		if f.termClosed.Load() {
			f.afterTerm++
		}
		f.events = append(f.events, fmtEvent(e))
		switch e.Opcode {
		case sgbucket.FeedOpBeginBackfill:
			f.inBackfill = true
		case sgbucket.FeedOpEndBackfill:
			f.inBackfill = false
			f.sawEnd = true
		default:
			if !f.inBackfill {
				f.delivered++
			}
		}
		return true
	}
	err := c.StartDCPFeed(ctx, args, cb, nil)
	f.basePosts = w.postCount(f.collID) // sequential harness: nothing was posted while the feed registered
	if f.dump && err == nil {
		// a dump runs to its end on its own goroutine (and may write its checkpoint): let it finish inside this call
		select {
		case <-f.done:
		case <-time.After(5 * time.Second):
			return "r=timeout"
		}
	}
	go func() {
		<-f.done
		f.doneClosed.Store(true)
	}()
	return "r=" + errClass(err)
}

// startMultiFeed starts a bucket-level feed over several collections (Bucket.StartDCPFeed with Scopes): one terminator, one done
// channel that closes when every per-collection feed has ended.
func (w *World) startMultiFeed(l Line) string {
	id := l.Pos[0]
	labs := strings.Split(l.Pos[1], ",")
	b := w.handles[l.str("via", "h0")]
	if b == nil {
		return "r=harness-nohandle"
	}
	f := &feedRec{id: id, coll: labs[0], colls: labs, term: make(chan bool), done: make(chan struct{})}
	scopes := map[string][]string{}
	for _, lab := range labs {
		sc := w.scopes[lab]
		scopes[sc[0]] = append(scopes[sc[0]], sc[1])
	}
	args := sgbucket.FeedArguments{ID: id, Backfill: sgbucket.FeedNoBackfill, Terminator: f.term, DoneChan: f.done, Scopes: scopes}
	w.mu.Lock()
	w.feeds[id] = f
	w.mu.Unlock()
	cb := func(e sgbucket.FeedEvent) bool {
		f.mu.Lock()
		defer f.mu.Unlock()
		if f.doneClosed.Load() {
			f.afterDone++
		}
		if f.termClosed.Load() {
			f.afterTerm++
		}
		f.events = append(f.events, fmtEvent(e))
		f.delivered++
		return true
	}
	err := b.StartDCPFeed(ctx, args, cb, nil)
	go func() {
		<-f.done
		f.doneClosed.Store(true)
	}()
	return "r=" + errClass(err)
}

func (f *feedRec) onColl(lab string) bool {
	if len(f.colls) == 0 {
		return f.coll == lab
	}
	for _, c := range f.colls {
		if c == lab {
			return true
		}
	}
	return false
}

// drain waits until the feed has delivered everything posted so far, then prints the events received since the last drain.
func (w *World) drain(l Line) string {
	f := w.feeds[l.Pos[0]]
	if f == nil {
		return "r=harness-nofeed"
	}
	deadline := time.Now().Add(3 * time.Second)
	if f.starved {
		deadline = time.Now().Add(100 * time.Millisecond)
	}
	status := "ok"
	if f.dump {
		select {
		case <-f.done:
		case <-time.After(3 * time.Second):
			status = "timeout"
		}
	} else {
		// every event posted on the feed's collection since it registered is pushed to its queue before the posting
		// call returns; wait until that many live events have been delivered (a feed that is starved times out).
		for {
			want := w.postCount(f.collID) - f.basePosts
			f.mu.Lock()
			got := f.delivered
			bfDone := !f.wantBF || f.sawEnd
			f.mu.Unlock()
			if bfDone && got >= want {
				break
			}
			if time.Now().After(deadline) {
				status = "timeout"
				f.starved = true
				break
			}
			time.Sleep(100 * time.Microsecond)
		}
	}
	f.mu.Lock()
	evs := append([]string(nil), f.events[f.printed:]...)
	f.printed = len(f.events)
	f.mu.Unlock()
	return fmt.Sprintf("r=%s n=%d %s", status, len(evs), strings.Join(evs, " "))
}

func (w *World) stopFeed(l Line) string {
	f := w.feeds[l.Pos[0]]
	if f == nil {
		return "r=harness-nofeed"
	}
	f.termClosed.Store(true)
	safeCloseBool(f.term)
	select {
	case <-f.done:
		return "r=ok"
	case <-time.After(3 * time.Second):
		return "r=timeout"
	}
}

//////// compound calls with scripted callbacks

// A callback script is a ';'-separated list of steps, one per invocation (the last one repeats):
//
//	set:<body>  del  cancel  err  retry  exp:<n>:<body>
func (w *World) execUpdate(c *rosmar.Collection, key string, exp uint32, l Line) string {
	steps := strings.Split(l.str("cb", "cancel"), ";")
	i := 0
	var seen []string
	cb := func(current []byte) (updated []byte, expiry *uint32, del bool, err error) {
		step := steps[len(steps)-1]
		if i < len(steps) {
			step = steps[i]
		}
		i++
		seen = append(seen, optBytes(current))
		if i > 20 {
			return nil, nil, false, errors.New("harness: too many retries")
		}
		switch {
		case strings.HasPrefix(step, "set:"):
			return []byte(step[4:]), nil, false, nil
		case step == "del":
			return nil, nil, true, nil
		case strings.HasPrefix(step, "setifnil:"):
			if current == nil {
				return []byte(step[9:]), nil, false, nil
			}
			return nil, nil, false, nil
		case strings.HasPrefix(step, "delif:"):
			if string(current) == step[6:] {
				return nil, nil, true, nil
			}
			return nil, nil, false, nil
		case step == "cancel":
			return nil, nil, false, nil
		case step == "err":
			return nil, nil, false, errors.New("callback error")
		case step == "retry":
			return nil, nil, false, sgbucket.ErrCasFailureShouldRetry
		case strings.HasPrefix(step, "exp:"):
			parts := strings.SplitN(step[4:], ":", 2)
			n, _ := strconv.ParseUint(parts[0], 10, 32)
			e := uint32(n)
			if len(parts) == 2 && parts[1] != "" {
				return []byte(parts[1]), &e, false, nil
			}
			return nil, &e, false, nil
		}
		return nil, nil, false, errors.New("harness: bad step " + step)
	}
	cas, err := c.Update(key, exp, cb)
	cls := errClass(err)
	if err != nil && err.Error() == "callback error" {
		cls = "cberr"
	}
	return fmt.Sprintf("r=%s cas=%d calls=%d seen=%s", cls, cas, i, strings.Join(seen, ","))
}

func (w *World) execWuwx(c *rosmar.Collection, key string, exp uint32, l Line) string {
	// cb steps: doc:<body>  tomb  (xattrs/deletes/macros come from the line's x./d./m. arguments)  err  retry
	steps := strings.Split(l.str("cb", "err"), ";")
	i := 0
	var seen []string
	var names []string
	if n := l.str("n", ""); n != "" {
		names = strings.Split(n, ",")
	}
	cb := func(doc []byte, xattrs map[string][]byte, cas uint64) (sgbucket.UpdatedDoc, error) {
		step := steps[len(steps)-1]
		if i < len(steps) {
			step = steps[i]
		}
		i++
		seen = append(seen, fmt.Sprintf("%s/%s/%d", optBytes(doc), fmtMap(xattrs), cas))
		var u sgbucket.UpdatedDoc
		if i > 20 {
			return u, errors.New("harness: too many retries")
		}
		u.Xattrs = xattrArgs(l)
		u.XattrsToDelete = delArgs(l)
		if mo := mutateOpts(l); mo != nil {
			u.Spec = mo.MacroExpansion
		}
		if e, ok := l.get("cbexp"); ok {
			n, _ := strconv.ParseUint(e, 10, 32)
			ee := uint32(n)
			u.Expiry = &ee
		}
		switch {
		case strings.HasPrefix(step, "doc:"):
			u.Doc = []byte(step[4:])
		case step == "xonly":
		case step == "tomb":
			u.IsTombstone = true
		case step == "err":
			return u, errors.New("callback error")
		case step == "retry":
			return u, sgbucket.ErrCasFailureShouldRetry
		default:
			return u, errors.New("harness: bad step " + step)
		}
		return u, nil
	}
	opts := &sgbucket.MutateInOptions{PreserveExpiry: l.flag("pe")}
	cas, err := c.WriteUpdateWithXattrs(ctx, key, names, exp, nil, opts, cb)
	cls := errClass(err)
	if err != nil && err.Error() == "callback error" {
		cls = "cberr"
	}
	return fmt.Sprintf("r=%s cas=%d calls=%d seen=%s", cls, cas, i, strings.Join(seen, ","))
}

var _ = sort.Strings

// restart closes every handle of the (on-disk) bucket, lets the process-global clock forget what it handed out
// (a new process starts at `hlc`), and reopens the bucket.
func (w *World) restart(hlc uint64, openMode string) string {
	if w.kind != "disk" {
		return "r=harness-restart-needs-disk"
	}
	for _, f := range w.feeds {
		if f.term != nil {
			safeCloseBool(f.term)
		}
	}
	for _, b := range w.handles {
		b.Close(ctx)
	}
	w.handles = map[string]*rosmar.Bucket{}
	w.colls = map[string]*rosmar.Collection{}
	w.feeds = map[string]*feedRec{}
	rosmar.VerifResetHLC(hlc)
	mode := rosmar.ReOpenExisting
	if openMode == "open" {
		mode = rosmar.CreateOrOpen // an existing bucket must come back the same whichever of the two modes reopens it
	}
	b, err := rosmar.OpenBucket(w.url, w.name, rosmar.OpenMode(mode))
	if err != nil {
		return "r=" + errClass(err)
	}
	w.handles["h0"] = b
	rosmar.VerifStopExpiryTimer(b)
	for _, c := range []string{"c0", "c1", "c2"} {
		if _, err := w.openColl(c, "h0"); err != nil {
			return "r=" + errClass(err)
		}
	}
	next, _ := rosmar.VerifExpiryState(b)
	return fmt.Sprintf("r=ok hlc=%d next=%d", rosmar.VerifHLCHighest(), next)
}

// reopenMem closes every handle of an in-memory bucket (which keeps its store, its feeds and its expiry manager) and opens it again by name.
func (w *World) reopenMem() string {
	if w.kind == "disk" {
		return "r=harness-reopenmem-needs-mem"
	}
	for _, b := range w.handles {
		b.Close(ctx)
	}
	w.handles = map[string]*rosmar.Bucket{}
	w.colls = map[string]*rosmar.Collection{}
	b, err := rosmar.OpenBucket(w.url, w.name, rosmar.CreateOrOpen)
	if err != nil {
		return "r=" + errClass(err)
	}
	w.handles["h0"] = b
	rosmar.VerifStopExpiryTimer(b)
	for _, c := range []string{"c0", "c1", "c2"} {
		if _, err := w.openColl(c, "h0"); err != nil {
			return "r=" + errClass(err)
		}
	}
	next, _ := rosmar.VerifExpiryState(b)
	return fmt.Sprintf("r=ok next=%d", next)
}

// The query family of C19: id / body property / xattr property projections and filters, over $_keyspace.
var queryFamily = map[int]string{
	1: `SELECT json_quote(id) AS id FROM $_keyspace ORDER BY id`,
	2: `SELECT count(*) AS n FROM $_keyspace`,
	3: `SELECT json_quote(id) AS id, body AS doc FROM $_keyspace WHERE json_valid(body) ORDER BY id`,
	4: `SELECT json_quote(id) AS id FROM $_keyspace WHERE xattrs IS NOT NULL ORDER BY id`,
	5: `SELECT json_quote(id) AS id, xattrs->'$._sync' AS s FROM $_keyspace WHERE xattrs->'$._sync' IS NOT NULL ORDER BY id`,
	6: `SELECT json_quote(id) AS id FROM $_keyspace WHERE json_valid(body) AND body->>'$.a' >= 50 ORDER BY id`,
}

func (w *World) query(c *rosmar.Collection, q int, adhoc bool) string {
	it, err := c.Query(sgbucket.SQLiteLanguage, queryFamily[q], nil, sgbucket.RequestPlus, adhoc)
	if err != nil {
		return "r=" + errClass(err)
	}
	var rows []string
	for {
		b := it.NextBytes()
		if b == nil {
			break
		}
		rows = append(rows, string(b))
		if len(rows) > 10000 {
			break
		}
	}
	again := it.NextBytes() // an exhausted iterator stays exhausted
	err = it.Close()
	return fmt.Sprintf("r=%s n=%d again=%v rows=%s", errClass(err), len(rows), again != nil, strings.Join(rows, ";"))
}
