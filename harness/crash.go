package main

import (
	"bufio"
	"fmt"
	"os"
	"strconv"
	"strings"
	"sync/atomic"
	"syscall"

	"github.com/couchbaselabs/rosmar"
)

// crashchild -ops FILE -dir DIR -name NAME -killat N
// Runs the op lines on a fresh on-disk bucket in DIR, acknowledging each completed line on stdout ("ack <i> <result>").
// At the N-th instrumentation point reached after set-up the process kills itself with SIGKILL (N = 0: never; it then
// prints "points <total>").
func crashChildMode(args []string) int {
	opts := map[string]string{}
	for i := 0; i+1 < len(args); i += 2 {
		opts[strings.TrimPrefix(args[i], "-")] = args[i+1]
	}
	killAt, _ := strconv.ParseInt(opts["killat"], 10, 64)
	w, err := newWorldAt("disk", opts["dir"], opts["name"], false)
	if err != nil {
		fmt.Println("error", err)
		return 2
	}
	uuid, _ := w.handles["h0"].UUID()
	out := bufio.NewWriter(os.Stdout)
	fmt.Fprintf(out, "uuid %s\n", uuid)
	out.Flush()
	var points atomic.Int64
	var where atomic.Value
	rosmar.VerifSetHook(func(point string, a ...any) {
		if point == "feed.deliver" {
			return
		}
		n := points.Add(1)
		if killAt > 0 && n == killAt {
			where.Store(point)
			fmt.Fprintf(os.Stderr, "killed at %s\n", point)
			_ = syscall.Kill(os.Getpid(), syscall.SIGKILL)
			select {}
		}
	})
	f, err := os.Open(opts["ops"])
	if err != nil {
		fmt.Println("error", err)
		return 2
	}
	sc := bufio.NewScanner(f)
	sc.Buffer(make([]byte, 1<<20), 1<<26)
	i := 0
	for sc.Scan() {
		line := strings.TrimSpace(sc.Text())
		if line == "" || strings.HasPrefix(line, "begin") || line == "end" {
			continue
		}
		l, _ := parseLine(line)
		before := points.Load()
		res := w.exec(l)
		fmt.Fprintf(out, "ack %d %d %s\n", i, points.Load()-before, res)
		out.Flush()
		i++
	}
	fmt.Fprintf(out, "points %d\n", points.Load())
	out.Flush()
	// leave without closing anything: the parent inspects the files
	os.Exit(0)
	return 0
}

// reopen -dir DIR -name NAME -ops FILE : a fresh process reopens the bucket and runs the observation lines.
func reopenMode(args []string) int {
	opts := map[string]string{}
	for i := 0; i+1 < len(args); i += 2 {
		opts[strings.TrimPrefix(args[i], "-")] = args[i+1]
	}
	w, err := newWorldAt("disk", opts["dir"], opts["name"], true)
	if err != nil {
		fmt.Println("r=reopen-failed:" + strings.ReplaceAll(err.Error(), " ", "_"))
		return 0
	}
	uuid, _ := w.handles["h0"].UUID()
	fmt.Printf("uuid %s\n", uuid)
	next, _ := rosmar.VerifExpiryState(w.handles["h0"])
	fmt.Printf("r=ok hlc=%d next=%d\n", rosmar.VerifHLCHighest(), next)
	for _, c := range []string{"c0", "c1", "c2"} {
		fmt.Printf("collid %s %d\n", c, rosmar.VerifCollectionRowID(w.colls[c]))
	}
	f, err := os.Open(opts["ops"])
	if err != nil {
		fmt.Println("error", err)
		return 2
	}
	sc := bufio.NewScanner(f)
	sc.Buffer(make([]byte, 1<<20), 1<<26)
	for sc.Scan() {
		line := strings.TrimSpace(sc.Text())
		if line == "" {
			continue
		}
		l, _ := parseLine(line)
		fmt.Println(w.exec(l))
	}
	w.handles["h0"].Close(ctx)
	return 0
}

func init() {
	extraModes["crashchild"] = crashChildMode
	extraModes["reopen"] = reopenMode
}
