package main

import (
	"fmt"
	"strings"

	"github.com/couchbaselabs/rosmar"
)

// splitmix64: every random choice of a run derives from one state.
type Rng struct{ s uint64 }

func (r *Rng) next() uint64 {
	r.s += 0x9E3779B97F4A7C15
	z := r.s
	z = (z ^ (z >> 30)) * 0xBF58476D1CE4E5B9
	z = (z ^ (z >> 27)) * 0x94D049BB133111EB
	return z ^ (z >> 31)
}
func (r *Rng) intn(n int) int      { return int(r.next() % uint64(n)) }
func (r *Rng) chance(pct int) bool { return r.intn(100) < pct }
func pick[T any](r *Rng, xs []T) T { return xs[r.intn(len(xs))] }

// weighted picks an index by weight.
func (r *Rng) weighted(ws []int) int {
	t := 0
	for _, w := range ws {
		t += w
	}
	n := r.intn(t)
	for i, w := range ws {
		if n < w {
			return i
		}
		n -= w
	}
	return len(ws) - 1
}

type Gen struct {
	r        *Rng
	w        *World
	profile  string
	phys     uint64
	now      uint64
	oldCas   map[string][]uint64 // coll/key -> CAS values the key had
	stats    map[string]int
	colls    []string
	keys     []string
	liveFeed []string
	emit     func(l Line) string // executes and records; returns result
	metaCas  uint64
	viewBodies bool
	force    int // when >= 0: the entry point oneOp must choose next (index into its weights)
}

var xattrNames = []string{"_sync", "_sys", "usr", "u2"}

const rbNames = "_sync,_sys,usr,u2,$document,$document.revid"

func (g *Gen) jsonBody() string {
	if g.viewBodies {
		n := g.r.intn(4)
		switch g.r.intn(11) {
		case 0, 1:
			return fmt.Sprintf(`{"a":%d}`, n)
		case 2:
			return fmt.Sprintf(`{"a":"s%d","b":%d}`, n, g.r.intn(50))
		case 3:
			return fmt.Sprintf(`{"a":[%d,"x"],"b":{"z":1,"y":%d}}`, n, n)
		case 4:
			return `{"a":null}`
		case 5:
			return fmt.Sprintf(`{"a":true,"tags":["t%d","t%d"]}`, n, g.r.intn(3))
		case 6:
			return fmt.Sprintf(`{"tags":["t0","t%d","t2"],"b":"v"}`, n)
		case 7:
			return fmt.Sprintf(`{"a":{"q":%d,"p":"z"}}`, n)
		case 8:
			return fmt.Sprintf(`{"b":%d}`, n)
		case 9:
			return fmt.Sprintf(`{"a":-%d,"b":[1,{"k":"v"}]}`, n+1)
		}
		return fmt.Sprintf(`{"a":false,"tags":[]}`)
	}
	switch g.r.intn(5) {
	case 0:
		return fmt.Sprintf(`{"a":%d}`, g.r.intn(100))
	case 1:
		return fmt.Sprintf(`{"a":%d,"b":"s%d"}`, g.r.intn(100), g.r.intn(10))
	case 2:
		return fmt.Sprintf(`{"n":{"x":%d,"y":{"z":%d}},"t":true}`, g.r.intn(100), g.r.intn(10))
	case 3:
		return fmt.Sprintf(`{"arr":[%d,2],"a":null}`, g.r.intn(100))
	}
	return `{}`
}

func (g *Gen) rawBody() string {
	switch g.r.intn(5) {
	case 0:
		return fmt.Sprintf("raw%d", g.r.intn(100))
	case 1:
		return fmt.Sprintf("%d", g.r.intn(1000))
	case 2:
		return fmt.Sprintf(`{"looks":%d}`, g.r.intn(10))
	case 3:
		return ""
	}
	return fmt.Sprintf(`"str%d"`, g.r.intn(10))
}

func (g *Gen) anyBody() string {
	if g.r.chance(70) {
		return g.jsonBody()
	}
	return g.rawBody()
}

func (g *Gen) exp() uint64 {
	switch g.r.weighted([]int{60, 15, 15, 5, 5}) {
	case 0:
		return 0
	case 1:
		return uint64(100 + g.r.intn(900))
	case 2:
		return 1800000000 + uint64(g.r.intn(1000))
	case 3:
		return 2592000 // largest relative expiry
	}
	return 4000000000
}

func (g *Gen) curRow(c, k string) rosmar.VerifRow {
	r, _ := rosmar.VerifRawRow(g.w.colls[c], k)
	return r
}

func (g *Gen) casArg(c, k string) uint64 {
	cur := g.curRow(c, k).Cas
	switch g.r.weighted([]int{25, 50, 15, 10}) {
	case 0:
		g.stats["cas:zero"]++
		return 0
	case 1:
		g.stats["cas:cur"]++
		return cur
	case 2:
		g.stats["cas:stale"]++
		if olds := g.oldCas[c+"/"+k]; len(olds) > 0 {
			return pick(g.r, olds)
		}
		if cur > 1 {
			return cur - 1
		}
		return 7
	}
	g.stats["cas:never"]++
	return cur + 12345
}

// withMetaCas picks the CAS a WithMeta write carries: usually far above everything (another cluster's clock), sometimes between the
// collection's own high-water mark and the bucket's (i.e. below CAS values other collections have already been given).
func (g *Gen) withMetaCas(c string) uint64 {
	if g.viewBodies && g.r.chance(35) {
		if coll := g.w.colls[c]; coll != nil {
			if bucketCas, collCas, err := rosmar.VerifLastCas(coll); err == nil && bucketCas > collCas+2 {
				return collCas + 1 + uint64(g.r.intn(int(bucketCas-collCas-1)))
			}
		}
	}
	g.metaCas += uint64(1 + g.r.intn(1000))
	return g.metaCas
}

// obsKeys: the keys read back when "everything" is read back - the program's keys and the dedicated counter.
func (g *Gen) obsKeys() []string { return append(append([]string{}, g.keys...), "cnt") }

func (g *Gen) xattrVal() string {
	switch g.r.intn(5) {
	case 0:
		return fmt.Sprintf(`{"r":%d}`, g.r.intn(100))
	case 1:
		return fmt.Sprintf(`{"c":"x","d":{"e":%d}}`, g.r.intn(100))
	case 2:
		return fmt.Sprintf(`"s%d"`, g.r.intn(10))
	case 3:
		return fmt.Sprintf(`%d`, g.r.intn(100))
	}
	return fmt.Sprintf(`{"b":%d,"a":[1,{"q":%d}]}`, g.r.intn(10), g.r.intn(10))
}

// addXattrs appends 1..n xattr settings (distinct names) to the line and returns the names used.
func (g *Gen) addXattrs(l *Line, min, max int) []string {
	n := min
	if max > min {
		n += g.r.intn(max - min + 1)
	}
	perm := g.r.perm(len(xattrNames))
	var used []string
	for i := 0; i < n && i < len(perm); i++ {
		name := xattrNames[perm[i]]
		l.add("x."+name, g.xattrVal())
		used = append(used, name)
	}
	return used
}

func (r *Rng) perm(n int) []int {
	p := make([]int, n)
	for i := range p {
		p[i] = i
	}
	for i := n - 1; i > 0; i-- {
		j := r.intn(i + 1)
		p[i], p[j] = p[j], p[i]
	}
	return p
}

func (g *Gen) addDeletes(l *Line, exclude []string, max int) {
	n := g.r.intn(max + 1)
	perm := g.r.perm(len(xattrNames))
	cnt := 0
	for _, pi := range perm {
		if cnt >= n {
			break
		}
		name := xattrNames[pi]
		skip := false
		for _, e := range exclude {
			if e == name {
				skip = true
			}
		}
		if skip && !g.r.chance(5) {
			continue
		}
		l.add("d."+name, "1")
		cnt++
	}
}

func (g *Gen) addMacros(l *Line, used []string) {
	if len(used) == 0 || !g.r.chance(25) || len(l.prefixed("d.")) > 0 {
		return // (with deletes in the same call the error class would depend on Go's map iteration order)
	}
	if len(l.prefixed("x.")) > 1 {
		for _, x := range l.prefixed("x.") {
			if !strings.HasPrefix(x[1], "{") {
				return // (a non-object value next to a failing macro path: error class depends on map order)
			}
		}
	}
	name := pick(g.r, used)
	path := pick(g.r, []string{name + ".c", name + ".d.e", name + ".new", name + ".d.f.g", name + ".c.z"})
	if g.r.chance(15) {
		path = pick(g.r, xattrNames) + ".c" // possibly a different xattr than the ones written
	}
	l.add("m."+path, pick(g.r, []string{"cas", "crc"}))
	g.stats["macro"]++
}

func (g *Gen) tick() {
	// advance / stall / rewind the scripted physical clock
	switch g.r.weighted([]int{70, 20, 10}) {
	case 0:
		g.phys += uint64(1+g.r.intn(3)) << 16
		if g.r.chance(20) {
			g.phys += uint64(g.r.intn(0xFFFF))
		}
	case 1:
		return
	case 2:
		d := uint64(1+g.r.intn(5)) << 16
		if g.phys > d {
			g.phys -= d
		}
	}
	g.emit(Line{Op: "clock", Args: [][2]string{{"t", fmt.Sprint(g.phys)}}})
}

func u(n uint64) string { return fmt.Sprint(n) }

// oneOp generates, executes and records one mutating operation on (c,k).
func (g *Gen) oneOp(c, k string) (purged bool) {
	before := g.curRow(c, k)
	weights := []int{
		8,  // add
		10, // set
		12, // wcas
		6,  // remove
		5,  // delete
		4,  // touch/gat
		4,  // incr
		5,  // setx
		4,  // rmx
		5,  // updx
		10, // wwx
		5,  // wtx
		4,  // wrx
		3,  // uxdb
		3,  // delx
		3,  // dsp
		3,  // swm
		2,  // dwm
		2,  // purge
		4,  // update
		4,  // wuwx
	}
	if g.profile == "nometa" {
		weights[16], weights[17] = 0, 0
	}
	var l Line
	l.Pos = []string{c, k}
	choice := g.r.weighted(weights)
	if g.force >= 0 && g.force < len(weights) && weights[g.force] > 0 {
		choice = g.force
	}
	g.force = -1
	switch choice {
	case 0:
		l.Op = "add"
		l.add("exp", u(g.exp()))
		if g.r.chance(60) {
			l.add("json", "1")
			l.add("v", g.jsonBody())
		} else {
			l.add("json", "0")
			l.add("v", g.anyBody())
		}
	case 1:
		l.Op = "set"
		l.add("exp", u(g.exp()))
		if g.r.chance(30) {
			l.add("pe", "1")
		}
		if g.r.chance(60) {
			l.add("raw", "0")
			l.add("v", g.jsonBody())
		} else {
			l.add("raw", "1")
			l.add("v", g.anyBody())
		}
	case 2:
		l.Op = "wcas"
		l.add("exp", u(g.exp()))
		l.add("cas", u(g.casArg(c, k)))
		opt := pick(g.r, []uint64{0, 0, 0, 1, 2, 3, 16, 17, 2 | 16})
		l.add("opt", u(opt))
		if g.r.chance(12) {
			// nil value: what Update does when its callback deletes
		} else if opt&1 != 0 || opt&16 != 0 {
			l.add("v", g.anyBody())
		} else {
			l.add("v", g.jsonBody())
		}
	case 3:
		l.Op = "remove"
		l.add("cas", u(g.casArg(c, k)))
	case 4:
		l.Op = "delete"
	case 5:
		l.Op = pick(g.r, []string{"touch", "gat"})
		l.add("exp", u(g.exp()))
	case 6:
		l.Op = "incr"
		amt := uint64(g.r.intn(10))
		if g.r.chance(25) {
			amt = 0 // Incr by 0 is used as a read - it still writes (new CAS, event) when the counter exists
		}
		if g.r.chance(50) {
			// a dedicated counter that only Incr touches: its increments always meet an existing number
			k = "cnt"
			l.Pos = []string{c, k}
			defer g.rb(c, k)
		}
		l.add("amt", u(amt))
		l.add("def", u(uint64(g.r.intn(100))))
		l.add("exp", u(g.exp()))
	case 7:
		l.Op = "setx"
		g.addXattrs(&l, 1, 2)
	case 8:
		l.Op = "rmx"
		l.add("cas", u(g.casArg(c, k)))
		g.addDeletes(&l, nil, 2)
		if len(l.prefixed("d.")) == 0 {
			l.add("d."+pick(g.r, xattrNames), "1")
		}
	case 9:
		l.Op = "updx"
		l.add("exp", u(g.exp()))
		l.add("cas", u(g.casArg(c, k)))
		used := g.addXattrs(&l, 1, 2)
		g.addMacros(&l, used)
	case 10:
		l.Op = "wwx"
		l.add("exp", u(g.exp()))
		cas := g.casArg(c, k)
		l.add("cas", u(cas))
		if g.r.chance(65) {
			l.add("v", g.jsonBody())
		}
		var used []string
		if g.r.chance(85) {
			used = g.addXattrs(&l, 1, 3)
		}
		if cas != 0 || g.r.chance(10) {
			if g.r.chance(40) {
				g.addDeletes(&l, used, 2)
			} else if g.r.chance(10) {
				l.add("dempty", "1")
			}
		}
		if g.r.chance(20) {
			l.add("pe", "1")
		}
		g.addMacros(&l, used)
	case 11:
		l.Op = "wtx"
		l.add("exp", u(pick(g.r, []uint64{0, 0, 0, 500})))
		cas := g.casArg(c, k)
		l.add("cas", u(cas))
		var used []string
		if g.r.chance(92) {
			used = g.addXattrs(&l, 1, 2)
		}
		if cas != 0 && g.r.chance(30) {
			g.addDeletes(&l, used, 1)
		}
		if g.r.chance(60) {
			l.add("delbody", "1")
		}
		g.addMacros(&l, used)
	case 12:
		l.Op = "wrx"
		l.add("exp", u(g.exp()))
		if g.r.chance(92) {
			l.add("v", g.jsonBody())
		}
		used := g.addXattrs(&l, 0, 2)
		if g.r.chance(20) {
			l.add("pe", "1")
		}
		g.addMacros(&l, used)
	case 13:
		l.Op = "uxdb"
		name := pick(g.r, xattrNames)
		l.add("xk", name)
		l.add("exp", u(pick(g.r, []uint64{0, 0, 500})))
		l.add("cas", u(g.casArg(c, k)))
		l.add("xv", g.xattrVal())
		g.addMacros(&l, []string{name})
	case 14:
		l.Op = "delx"
		g.addDeletes(&l, nil, 2)
	case 15:
		l.Op = "dsp"
		g.addDeletes(&l, nil, 2)
	case 16:
		l.Op = "swm"
		l.add("old", u(g.casArg(c, k)))
		l.add("new", u(g.withMetaCas(c)))
		l.add("exp", u(pick(g.r, []uint64{0, 0, 1800000500, 4000000000})))
		if g.r.chance(50) {
			l.add("x", fmt.Sprintf(`{"_sync":%s}`, g.xattrVal()))
		}
		if g.r.chance(60) {
			l.add("v", g.jsonBody())
			l.add("dt", "1")
		} else {
			l.add("v", g.rawBody())
			l.add("dt", "0")
		}
	case 17:
		l.Op = "dwm"
		l.add("old", u(g.casArg(c, k)))
		l.add("new", u(g.withMetaCas(c)))
		l.add("exp", "0")
		if g.r.chance(50) {
			l.add("x", fmt.Sprintf(`{"_sync":%s}`, g.xattrVal()))
		}
	case 18:
		l.Op = "purge"
		l.Pos = nil
	case 19:
		l.Op = "update"
		l.add("exp", u(g.exp()))
		l.add("cb", pick(g.r, []string{"set:" + g.jsonBody(), "set:" + g.jsonBody(), "del", "cancel", "err", "retry;set:" + g.jsonBody(), "exp:700:" + g.jsonBody(), "exp:900:"}))
	case 20:
		l.Op = "wuwx"
		l.add("exp", u(g.exp()))
		l.add("n", "_sync,usr")
		step := pick(g.r, []string{"doc:" + g.jsonBody(), "doc:" + g.jsonBody(), "tomb", "xonly", "err", "retry;doc:" + g.jsonBody()})
		l.add("cb", step)
		var used []string
		if step != "err" && g.r.chance(85) {
			used = g.addXattrs(&l, 1, 2)
		}
		if g.r.chance(25) {
			g.addDeletes(&l, used, 1)
		}
		g.addMacros(&l, used)
		if g.r.chance(20) {
			l.add("cbexp", u(500+uint64(g.r.intn(100))))
		}
	}
	res := g.emit(l)
	cls := strings.SplitN(strings.TrimPrefix(res, "r="), " ", 2)[0]
	state := "absent"
	if before.Found {
		switch {
		case before.ValueNull && !before.XattrsNil:
			state = "tombX"
		case before.ValueNull:
			state = "tomb"
		case !before.XattrsNil:
			state = "liveX"
		default:
			state = "live"
		}
	}
	g.stats["op:"+l.Op]++
	g.stats["res:"+cls]++
	g.stats["cell:"+l.Op+"/"+state+"/"+cls]++
	if before.Found {
		key := c + "/" + k
		g.oldCas[key] = append(g.oldCas[key], before.Cas)
		if len(g.oldCas[key]) > 4 {
			g.oldCas[key] = g.oldCas[key][1:]
		}
	}
	return l.Op == "purge"
}

func (g *Gen) rb(c, k string) {
	g.emit(Line{Op: "rb", Pos: []string{c, k}, Args: [][2]string{{"n", rbNames}}})
}

// clockProgram stresses the hybrid logical clock: wild clock scripts, draws by "other buckets", restarts.
func (g *Gen) clockProgram(n int) {
	g.colls = []string{"c0"}
	g.keys = []string{"k0", "k1"}
	for i := 0; i < n; i++ {
		switch g.r.weighted([]int{30, 45, 15, 10}) {
		case 0:
			switch g.r.intn(6) {
			case 0: // stand still
			case 1:
				g.phys = uint64(g.r.intn(1 << 20)) // far in the past
			case 2:
				g.phys += uint64(g.r.intn(1 << 30))
			case 3:
				g.phys = uint64(1)<<62 + uint64(g.r.intn(1<<20))
			case 4:
				if g.phys > 1<<17 {
					g.phys -= uint64(g.r.intn(1 << 17))
				}
			case 5:
				g.phys = uint64(g.r.intn(70000))
			}
			g.emit(Line{Op: "clock", Args: [][2]string{{"t", u(g.phys)}}})
		case 1:
			c, k := "c0", pick(g.r, g.keys)
			var l Line
			l.Pos = []string{c, k}
			switch g.r.intn(6) {
			case 0:
				l.Op = "set"
				l.add("exp", "0")
				l.add("raw", "0")
				l.add("v", g.jsonBody())
			case 1:
				l.Op = "add"
				l.add("exp", "0")
				l.add("json", "1")
				l.add("v", g.jsonBody())
			case 2:
				l.Op = "wcas"
				l.add("exp", "0")
				l.add("cas", u(g.casArg(c, k)))
				l.add("opt", "0")
				l.add("v", g.jsonBody())
			case 3:
				l.Op = "delete"
			case 4:
				l.Op = "incr"
				l.add("amt", "1")
				l.add("def", "5")
				l.add("exp", "0")
			case 5:
				l.Op = "touch"
				l.add("exp", "0")
			}
			res := g.emit(l)
			g.stats["op:"+l.Op]++
			g.stats["cell:clock/"+l.Op+"/"+strings.SplitN(strings.TrimPrefix(res, "r="), " ", 2)[0]]++
			g.rb(c, k)
		case 2:
			g.emit(Line{Op: "draw"})
			g.stats["op:draw"]++
		case 3:
			if g.w.kind == "disk" {
				h := pick(g.r, []uint64{0, 0, 12345, g.phys})
				g.emit(Line{Op: "restart", Args: [][2]string{{"hlc", u(h)}, {"mode", pick(g.r, []string{"reopen", "open"})}}})
				g.stats["op:restart"]++
			}
		}
		g.emit(Line{Op: "lastcas", Pos: []string{"c0"}})
	}
}

// expiryProgram: small expiries on a few keys of two collections, a scripted wall clock, sweeps at scripted times.
func (g *Gen) expiryProgram(n int) {
	g.colls = []string{"c0", "c1"}
	g.keys = []string{"k0", "k1"}
	feeds := []string{}
	if g.r.chance(60) {
		g.emit(Line{Op: "feed", Pos: []string{"f0", "c0"}, Args: [][2]string{{"bf", "none"}}})
		feeds = append(feeds, "f0")
	}
	expArg := func() uint64 {
		switch g.r.weighted([]int{30, 45, 25}) {
		case 0:
			return 0
		case 1:
			return uint64(10 + g.r.intn(200))
		}
		return g.now + uint64(10+g.r.intn(300))
	}
	observe := func() {
		for _, cc := range g.colls {
			for _, kk := range g.obsKeys() {
				g.rb(cc, kk)
			}
		}
		g.emit(Line{Op: "expstate"})
		for _, id := range feeds {
			g.emit(Line{Op: "drain", Pos: []string{id}})
		}
	}
	for i := 0; i < n; i++ {
		g.tick()
		c, k := pick(g.r, g.colls), pick(g.r, g.keys)
		var l Line
		l.Pos = []string{c, k}
		switch g.r.weighted([]int{25, 10, 10, 20, 10, 5, 10, 10}) {
		case 0:
			l.Op = "set"
			l.add("exp", u(expArg()))
			if g.r.chance(30) {
				l.add("pe", "1")
			}
			l.add("raw", "0")
			l.add("v", g.jsonBody())
		case 1:
			l.Op = "add"
			l.add("exp", u(expArg()))
			l.add("json", "1")
			l.add("v", g.jsonBody())
		case 2:
			l.Op = "wcas"
			l.add("exp", u(expArg()))
			l.add("cas", u(g.casArg(c, k)))
			l.add("opt", "0")
			l.add("v", g.jsonBody())
		case 3:
			l.Op = pick(g.r, []string{"touch", "gat"})
			l.add("exp", u(expArg()))
		case 4:
			l.Op = "delete"
		case 5:
			l.Op = "incr"
			l.add("amt", "1")
			l.add("def", "1")
			l.add("exp", u(expArg()))
		case 6:
			l.Op = "wwx"
			l.add("exp", u(expArg()))
			l.add("cas", u(g.casArg(c, k)))
			l.add("v", g.jsonBody())
			l.add("x._sync", g.xattrVal())
			if g.r.chance(30) {
				l.add("pe", "1")
			}
		case 7:
			l.Op = "updx"
			l.add("exp", u(expArg()))
			l.add("cas", u(g.casArg(c, k)))
			l.add("x._sync", g.xattrVal())
		}
		res := g.emit(l)
		g.stats["op:"+l.Op]++
		g.stats["cell:expiry/"+l.Op+"/"+strings.SplitN(strings.TrimPrefix(res, "r="), " ", 2)[0]]++
		observe()
		if g.r.chance(25) {
			g.now += uint64(pick(g.r, []int{5, 20, 60, 150, 400}))
			g.emit(Line{Op: "now", Args: [][2]string{{"s", u(g.now)}}})
			g.emit(Line{Op: "fire"})
			g.stats["op:fire"]++
			observe()
		}
		if g.w.kind == "disk" && g.r.chance(6) {
			g.emit(Line{Op: "restart", Args: [][2]string{{"hlc", "0"}, {"mode", pick(g.r, []string{"reopen", "open"})}}})
			g.stats["op:restart"]++
			feeds = nil
			observe()
		}
		if g.w.kind != "disk" && g.r.chance(6) {
			// an in-memory bucket outlives its handles: closing all of them and opening it again by name changes nothing,
			// in particular expiry stays in force (pending deadlines and deadlines set afterwards)
			g.emit(Line{Op: "reopenmem"})
			g.stats["op:reopenmem"]++
			observe()
		}
	}
}

// subdocProgram: JSON object documents, dotted paths of every kind, sub-document writes / inserts / reads.
func (g *Gen) subdocProgram(n int) {
	g.colls = []string{"c0"}
	g.keys = []string{"k0", "k1"}
	docs := []string{`{"a":1,"n":{"x":2,"y":{"z":3}},"t":true}`, `{"a":null,"arr":[1,2],"s":"str"}`, `{}`, `{"n":{"x":{"deep":{"er":1}}},"z":0}`,
		`{"b":"x","a":{"k":[1,{"q":2}]}}`, `{"n":{},"nul":null}`}
	paths := []string{"a", "n.x", "n.y.z", "n.q", "zz.b", "a.b", "t.x", "arr.x", "n", "s", "nul", "nul.x", "n.x.deep.er", "new", "n.y", "a.k", "z.z.z"}
	badPaths := []string{"", "a[0]", "a.`b`", "n..x"}
	vals := []string{"5", `"s"`, `{"k":1}`, `[1,2]`, "null", "true", `{"b":2,"a":1}`, "0"}
	for i := 0; i < n; i++ {
		g.tick()
		c, k := "c0", pick(g.r, g.keys)
		var l Line
		l.Pos = []string{c, k}
		path := pick(g.r, paths)
		if g.r.chance(6) {
			path = pick(g.r, badPaths)
		}
		switch g.r.weighted([]int{18, 6, 4, 30, 17, 25}) {
		case 0:
			l.Op = "set"
			l.add("exp", u(pick(g.r, []uint64{0, 0, 300})))
			l.add("raw", "0")
			l.add("v", pick(g.r, docs))
		case 1:
			l.Op = "delete"
		case 2:
			l.Op = "set"
			l.add("exp", "0")
			l.add("raw", "1")
			l.add("v", pick(g.r, []string{"notjson", "[1,2]", `"str"`, "17"}))
		case 3:
			l.Op = "wsd"
			l.add("path", path)
			l.add("cas", u(g.casArg(c, k)))
			if g.r.chance(85) {
				l.add("v", pick(g.r, vals))
			} else if g.r.chance(50) {
				l.add("v", "")
			}
		case 4:
			l.Op = "sdi"
			l.add("path", path)
			l.add("cas", u(g.casArg(c, k)))
			l.add("v", pick(g.r, vals))
		case 5:
			l.Op = "gsd"
			l.add("path", path)
		}
		res := g.emit(l)
		g.stats["op:"+l.Op]++
		g.stats["cell:subdoc/"+l.Op+"/"+path+"/"+strings.SplitN(strings.TrimPrefix(res, "r="), " ", 2)[0]]++
		g.rb(c, k)
	}
}

// queryProgram: a multi-collection write history with the query family run at random positions on every collection.
func (g *Gen) queryProgram(n int) {
	g.colls = []string{"c0", "c1", "c2", "c4"}
	g.keys = []string{"k0", "k1", "k2", "k3"}
	g.emit(Line{Op: "mkcoll", Pos: []string{"c4"}, Args: [][2]string{{"via", "h0"}}}) // s2.a: same name as c1 (s1.a), other scope
	for i := 0; i < n; i++ {
		g.tick()
		c, k := pick(g.r, g.colls), pick(g.r, g.keys)
		g.oneOp(c, k)
		g.rb(c, k)
		if g.r.chance(12) {
			// time passes but the expiry timer has not fired yet: documents past their expiry are still live documents
			g.now += uint64(pick(g.r, []int{50, 500, 2000}))
			g.emit(Line{Op: "now", Args: [][2]string{{"s", u(g.now)}}})
		}
		if g.r.chance(45) {
			qc := pick(g.r, g.colls)
			q := 1 + g.r.intn(6)
			ql := Line{Op: "query", Pos: []string{qc}, Args: [][2]string{{"q", fmt.Sprint(q)}}}
			if g.r.chance(40) {
				ql.add("adhoc", "0") // prepared-statement path: the same text is run on several collections
			}
			res := g.emit(ql)
			g.stats["op:query"]++
			nrows := "0"
			for _, t := range strings.Split(res, " ") {
				if strings.HasPrefix(t, "n=") {
					nrows = t[2:]
				}
			}
			g.stats[fmt.Sprintf("cell:query/q%d/rows%s", q, nrows)]++
		}
	}
	for _, c := range g.colls {
		for q := 1; q <= 6; q++ {
			g.emit(Line{Op: "query", Pos: []string{c}, Args: [][2]string{{"q", fmt.Sprint(q)}, {"adhoc", "0"}}})
		}
	}
}

var viewKeysByMap = map[int][]string{
	0: {`"k0"`, `"k1"`, `"k2"`, `"k3"`, `"k4"`, `"k"`, `"k9"`, `1`, `null`},
	1: {`0`, `1`, `2`, `3`, `-2`, `-1`, `"s1"`, `"s2"`, `"s0"`, `null`, `true`, `false`, `[1,"x"]`, `[2]`, `[2,"x"]`, `{"p":"z","q":1}`, `{"p":"z"}`, `"k1"`},
	2: {`["t0",0]`, `["t1"]`, `["t2",2]`, `["t1",1]`, `["t0"]`, `["t3"]`, `"t1"`, `[]`, `["t2",1]`},
	3: {`"k0"`, `"k1"`, `"k2"`, `"k3"`, `"k4"`, `"k"`, `"k9"`, `{}`, `0`},
}

// viewParams adds a random, semantically unambiguous parameter combination to a view query (see DESIGN.md: `keys` is not combined
// with descending / limit, limit is not combined with reduce, group_level only on the array-keyed view).
func (g *Gen) viewParams(l *Line, mapID int, reduce string) string {
	cls := ""
	viewKeys := viewKeysByMap[mapID]
	switch g.r.weighted([]int{30, 15, 25, 12}) {
	case 0:
		cls = "all"
	case 1:
		l.add("key", pick(g.r, viewKeys))
		cls = "key"
	case 2:
		a, b := pick(g.r, viewKeys), pick(g.r, viewKeys)
		if g.r.chance(75) {
			l.add("startkey", a)
		}
		if g.r.chance(75) {
			l.add("endkey", b)
		}
		if g.r.chance(30) {
			l.add("incl", "0")
		}
		cls = "range"
	case 3:
		n := 1 + g.r.intn(3)
		ks := make([]string, n)
		for i := range ks {
			ks[i] = pick(g.r, viewKeys)
			for strings.HasPrefix(ks[i], "{") { // sg-bucket's Go-value collator (FilterKeys) treats all objects as equal
				ks[i] = pick(g.r, viewKeys)
			}
		}
		l.add("keys", "["+strings.Join(ks, ",")+"]")
		cls = "keys"
	}
	if cls != "keys" && g.r.chance(30) {
		l.add("desc", "1")
		cls += "+desc"
	}
	reducing := reduce != ""
	if reducing && g.r.chance(35) {
		l.add("reduce", "0")
		reducing = false
	}
	if reducing {
		cls += "+reduce"
		if mapID != 1 && g.r.chance(40) { // view 1 emits object keys, which sg-bucket's grouping collator cannot tell apart
			l.add("group", "1")
			cls += "+group"
		} else if mapID == 2 && g.r.chance(50) {
			l.add("glevel", fmt.Sprint(1+g.r.intn(2)))
			cls += "+glevel"
		}
	} else if cls != "keys" && g.r.chance(25) {
		l.add("limit", fmt.Sprint(1+g.r.intn(4)))
		cls += "+limit"
	}
	if g.r.chance(15) {
		l.add("stale", "ok")
		cls += "+stale"
	}
	if g.r.chance(30) {
		l.add("api", "query")
	}
	return cls
}

type genView struct {
	coll, dd, name string
	mapID          int
	reduce         string
}

// viewProgram: design documents put / replaced / deleted, a write history through every entry point, view queries with random
// parameters at random positions; at the end every view is queried without parameters.
func (g *Gen) viewProgram(n int, withMeta bool) {
	g.colls = []string{"c0", "c1"}
	g.keys = []string{"k0", "k1", "k2", "k3", "k4"}
	g.viewBodies = true
	if !withMeta {
		g.profile = "nometa"
	}
	var views []genView
	putDDoc := func(c, dd string) {
		l := Line{Op: "putddoc", Pos: []string{c, dd}}
		nv := 1 + g.r.intn(3)
		kept := views[:0:0]
		for _, v := range views {
			if !(v.coll == c && v.dd == dd) {
				kept = append(kept, v)
			}
		}
		views = kept
		for i := 0; i < nv; i++ {
			m := g.r.intn(4)
			red := ""
			if m == 2 {
				red = pick(g.r, []string{"_count", "_sum", ""})
			} else if g.r.chance(35) {
				red = "_count"
			}
			name := fmt.Sprintf("v%d", i)
			l.add("v."+name, fmt.Sprintf("%d:%s", m, red))
			views = append(views, genView{c, dd, name, m, red})
		}
		if g.r.chance(30) {
			l.add("via", "h1")
		}
		g.emit(l)
		g.stats["op:putddoc"]++
	}
	second := func() {
		g.emit(Line{Op: "hopen", Pos: []string{"h1"}})
		g.emit(Line{Op: "mkcoll", Pos: []string{"c0"}, Args: [][2]string{{"via", "h1"}}})
		g.emit(Line{Op: "mkcoll", Pos: []string{"c1"}, Args: [][2]string{{"via", "h1"}}})
	}
	second()
	putDDoc("c0", "dd0")
	for i := 0; i < n; i++ {
		g.tick()
		c, k := pick(g.r, g.colls), pick(g.r, g.keys)
		switch g.r.weighted([]int{62, 6, 2, 30}) {
		case 0:
			if g.oneOp(c, k) {
				for _, cc := range g.colls {
					for _, kk := range g.obsKeys() {
						g.rb(cc, kk)
					}
				}
			}
			g.rb(c, k)
		case 1:
			putDDoc(pick(g.r, g.colls), pick(g.r, []string{"dd0", "dd1"}))
		case 2:
			dc, dd := pick(g.r, g.colls), pick(g.r, []string{"dd0", "dd1"})
			g.emit(Line{Op: "delddoc", Pos: []string{dc, dd}})
			kept := views[:0:0]
			for _, v := range views {
				if !(v.coll == dc && v.dd == dd) {
					kept = append(kept, v)
				}
			}
			views = kept
			g.stats["op:delddoc"]++
		case 3:
			if len(views) == 0 {
				continue
			}
			v := pick(g.r, views)
			l := Line{Op: "view", Pos: []string{v.coll, v.dd, v.name}}
			if g.r.chance(35) {
				l.add("via", "h1")
			}
			cls := g.viewParams(&l, v.mapID, v.reduce)
			res := g.emit(l)
			g.stats["op:view"]++
			nrows := "0"
			for _, t := range strings.Split(res, " ") {
				if strings.HasPrefix(t, "n=") {
					nrows = t[2:]
					if len(nrows) > 1 {
						nrows = "many"
					}
				}
			}
			g.stats[fmt.Sprintf("cell:view/m%d/%s/rows%s", v.mapID, cls, nrows)]++
		}
		if g.w.kind == "disk" && g.r.chance(3) {
			g.emit(Line{Op: "restart", Args: [][2]string{{"hlc", "0"}, {"mode", pick(g.r, []string{"reopen", "open"})}}})
			g.stats["op:restart"]++
			second()
		}
	}
	for _, c := range g.colls {
		g.emit(Line{Op: "ddocs", Pos: []string{c}})
		for _, k := range g.obsKeys() {
			g.rb(c, k)
		}
	}
	for _, v := range views {
		g.emit(Line{Op: "view", Pos: []string{v.coll, v.dd, v.name}, Args: [][2]string{{"reduce", "0"}}})
	}
	g.emit(Line{Op: "view", Pos: []string{"c0", "nodd", "v0"}})
}

// collsProgram: collections dropped and re-created (same and other names) in the middle of write histories on all of them, calls
// through the objects of dropped collections, clock going backwards and (on disk) reopening in a "new process".
func (g *Gen) collsProgram(n int) {
	g.colls = []string{"c0", "c1", "c2"}
	g.keys = []string{"k0", "k1", "k2"}
	g.profile = "nometa"
	exists := map[string]bool{"c0": true, "c1": true, "c2": true, "c3": false, "c5": false}
	usable := map[string]bool{"c0": true, "c1": true, "c2": true, "c3": false, "c5": false} // the harness holds an object for it
	all := []string{"c0", "c1", "c2", "c3", "c5"} // c5 is s1.A: c1's name (s1.a) in another case
	rbAll := func() {
		for _, c := range all {
			if usable[c] {
				for _, k := range g.obsKeys() {
					g.rb(c, k)
				}
			}
		}
	}
	for i := 0; i < n; i++ {
		g.tick()
		switch g.r.weighted([]int{70, 9, 11, 10}) {
		case 0:
			var cs []string
			for _, c := range all {
				if usable[c] {
					cs = append(cs, c)
				}
			}
			c, k := pick(g.r, cs), pick(g.r, g.keys)
			if g.oneOp(c, k) {
				rbAll()
			}
			for _, cc := range cs {
				g.rb(cc, k)
			}
			if exists[c] && g.r.chance(15) {
				g.emit(Line{Op: "lastcas", Pos: []string{c}})
			}
		case 1:
			c := pick(g.r, []string{"c1", "c2", "c3", "c5"})
			if !usable[c] {
				continue
			}
			g.emit(Line{Op: "dropcoll", Pos: []string{c}, Args: [][2]string{{"via", "h0"}}})
			exists[c] = false
			g.stats["op:dropcoll"]++
			rbAll()
		case 2:
			c := pick(g.r, []string{"c1", "c2", "c3", "c5", "c5"})
			g.emit(Line{Op: "mkcoll", Pos: []string{c}, Args: [][2]string{{"via", "h0"}}})
			exists[c], usable[c] = true, true
			g.stats["op:mkcoll"]++
			rbAll()
		case 3:
			if g.w.kind != "disk" {
				continue
			}
			if g.r.chance(60) {
				// the wall clock of the new process is not ahead of what was handed out
				g.phys = uint64(1<<20) + uint64(g.r.intn(1<<18))
				g.emit(Line{Op: "clock", Args: [][2]string{{"t", u(g.phys)}}})
			}
			g.emit(Line{Op: "restart", Args: [][2]string{{"hlc", "0"}, {"mode", pick(g.r, []string{"reopen", "open"})}}})
			g.stats["op:restart"]++
			exists["c1"], exists["c2"] = true, true
			usable["c1"], usable["c2"] = true, true
			usable["c3"], usable["c5"] = false, false // the objects belong to the closed handle; the collections (if they exist) are reopened by mkcoll
			rbAll()
		}
	}
	rbAll()
	for _, c := range all {
		if exists[c] && usable[c] {
			g.emit(Line{Op: "keys", Pos: []string{c}})
			g.emit(Line{Op: "lastcas", Pos: []string{c}})
		}
	}
}

// resumeProgram: one checkpointed feed in resume mode, stopped and restarted (live and dump runs) between batches of writes.
func (g *Gen) resumeProgram(n int, fc string) {
	// fc: the collection the checkpointed feed follows ("c0" is the default collection; with "c1" the default collection is watched too:
	// a feed's checkpoint document belongs to the collection the feed follows)
	g.colls = []string{"c0"}
	if fc != "c0" {
		g.colls = []string{"c0", fc}
	}
	ckRb := func() {
		for _, cc := range g.colls {
			g.rb(cc, "cp:fr")
		}
	}
	g.keys = []string{"k0", "k1", "k2"}
	g.profile = "nometa"
	running := false
	start := func(dump bool) {
		l := Line{Op: "feed", Pos: []string{"fr", fc}, Args: [][2]string{{"bf", "resume"}, {"prefix", "cp"}}}
		if dump {
			l.add("dump", "1")
		}
		g.emit(l)
		g.emit(Line{Op: "drain", Pos: []string{"fr"}})
		running = !dump
		ckRb()
	}
	for i := 0; i < n; i++ {
		switch g.r.weighted([]int{70, 12, 10, 8}) {
		case 0:
			g.tick()
			k := pick(g.r, g.keys)
			wc := fc
			if fc != "c0" && g.r.chance(25) {
				wc = "c0"
			}
			purged := g.oneOp(wc, k)
			for _, cc := range g.colls {
				if purged {
					// a purge is bucket-wide: read everything back
					for _, kk := range g.obsKeys() {
						g.rb(cc, kk)
					}
				} else {
					g.rb(cc, k)
				}
			}
			if running {
				g.emit(Line{Op: "drain", Pos: []string{"fr"}})
			}
		case 1:
			if !running {
				g.tick()
				start(false)
				g.stats["op:feed-resume-live"]++
			}
		case 2:
			if running {
				g.tick()
				g.emit(Line{Op: "stopfeed", Pos: []string{"fr"}})
				running = false
				ckRb()
				g.stats["op:stopfeed"]++
			}
		case 3:
			if !running {
				g.tick()
				start(true)
				g.stats["op:feed-resume-dump"]++
			}
		}
	}
	if running {
		g.tick()
		g.emit(Line{Op: "stopfeed", Pos: []string{"fr"}})
		ckRb()
	}
	g.tick()
	for _, cc := range g.colls {
		for _, k := range g.obsKeys() {
			g.rb(cc, k)
		}
	}
	start(true)
	for _, cc := range g.colls {
		g.emit(Line{Op: "keys", Pos: []string{cc}})
	}
}

// lifeProgram: feeds started through several handles; terminators, drops, handle closes, bucket deletion in random order.
func (g *Gen) lifeProgram(n int) {
	handles := map[string]bool{"h0": true}
	collOpen := map[string]map[string]bool{"h0": {"c0": true, "c1": true, "c2": true}}
	type fd struct {
		id, coll string
		dump     bool
	}
	var feeds []fd
	storeOpen := true
	nf := 0
	openHandles := func() []string {
		var hs []string
		for _, h := range []string{"h0", "h1", "h2"} {
			if handles[h] {
				hs = append(hs, h)
			}
		}
		return hs
	}
	for i := 0; i < n && storeOpen; i++ {
		hs := openHandles()
		if len(hs) == 0 {
			break
		}
		h := pick(g.r, hs)
		switch g.r.weighted([]int{12, 14, 22, 10, 10, 8, 3, 21, 6}) {
		case 8:
			// a bucket-level feed over two collections the handle has open
			var cs []string
			for c, ok := range collOpen[h] {
				if ok {
					cs = append(cs, c)
				}
			}
			if len(cs) < 2 {
				continue
			}
			sortStrings(cs)
			a := g.r.intn(len(cs))
			b := (a + 1 + g.r.intn(len(cs)-1)) % len(cs)
			id := fmt.Sprintf("f%d", nf)
			nf++
			g.emit(Line{Op: "mfeed", Pos: []string{id, cs[a] + "," + cs[b]}, Args: [][2]string{{"via", h}}})
			feeds = append(feeds, fd{id, cs[a], false})
			g.stats["op:mfeed"]++
		case 0:
			for _, nh := range []string{"h1", "h2"} {
				if _, ever := handles[nh]; !ever {
					g.emit(Line{Op: "hopen", Pos: []string{nh}})
					handles[nh] = true
					collOpen[nh] = map[string]bool{}
					break
				}
			}
		case 1:
			c := pick(g.r, []string{"c0", "c1", "c2", "c4"}) // c4 = s2.a: the name of c1 (s1.a) in another scope
			g.emit(Line{Op: "mkcoll", Pos: []string{c}, Args: [][2]string{{"via", h}}})
			collOpen[h][c] = true
		case 2:
			var cs []string
			for c, ok := range collOpen[h] {
				if ok {
					cs = append(cs, c)
				}
			}
			if len(cs) == 0 {
				continue
			}
			sortStrings(cs)
			c := pick(g.r, cs)
			id := fmt.Sprintf("f%d", nf)
			nf++
			l := Line{Op: "feed", Pos: []string{id, c}, Args: [][2]string{{"via", h}, {"bf", pick(g.r, []string{"none", "0"})}}}
			dump := g.r.chance(20)
			if dump {
				l.add("dump", "1")
				l.Args[1][1] = "0"
			}
			g.emit(l)
			feeds = append(feeds, fd{id, c, dump})
		case 3:
			if len(feeds) > 0 {
				f := pick(g.r, feeds)
				g.emit(Line{Op: "stopfeed", Pos: []string{f.id}})
				// ending one feed must not starve the others of its collection: probe it right away
				if collOpen[h][f.coll] {
					g.emit(Line{Op: "lifestate"})
					g.emit(Line{Op: "probe", Pos: []string{f.coll}, Args: [][2]string{{"via", h}}})
					g.stats["op:probe"]++
				}
			}
		case 4:
			c := pick(g.r, []string{"c1", "c2", "c4"})
			g.emit(Line{Op: "dropcoll", Pos: []string{c}, Args: [][2]string{{"via", h}}})
			for _, m := range collOpen {
				m[c] = false
			}
		case 5:
			g.emit(Line{Op: "hclose", Pos: []string{h}})
			handles[h] = false
			if g.w.kind == "disk" && len(openHandles()) == 0 {
				storeOpen = false
			}
		case 6:
			g.emit(Line{Op: "cadh", Pos: []string{h}})
			storeOpen = false
		case 7:
			var cs []string
			for c, ok := range collOpen[h] {
				if ok {
					cs = append(cs, c)
				}
			}
			if len(cs) == 0 {
				continue
			}
			sortStrings(cs)
			g.emit(Line{Op: "probe", Pos: []string{pick(g.r, cs)}, Args: [][2]string{{"via", h}}})
			g.stats["op:probe"]++
		}
		res := g.emit(Line{Op: "lifestate"})
		g.stats["cell:life/"+strings.Join(strings.Fields(res)[1:], ",")]++
	}
	g.emit(Line{Op: "lifestate"})
}

func sortStrings(a []string) {
	for i := 1; i < len(a); i++ {
		for j := i; j > 0 && a[j] < a[j-1]; j-- {
			a[j], a[j-1] = a[j-1], a[j]
		}
	}
}

// program generates one program of n operations under the generator's profile.
func (g *Gen) program(n int) {
	if g.profile == "life" {
		g.lifeProgram(n)
		return
	}
	if g.profile == "resume" || g.profile == "resume2" {
		fc := "c0"
		if g.profile == "resume2" {
			fc = "c1"
		}
		g.phys = 1 << 20
		g.now = 1700000000
		g.resumeProgram(n, fc)
		return
	}
	if g.profile == "view" || g.profile == "viewmeta" {
		g.phys = 1 << 20
		g.now = 1700000000
		g.metaCas = 5000000
		g.viewProgram(n, g.profile == "viewmeta")
		return
	}
	if g.profile == "colls" {
		g.phys = 1 << 20
		g.now = 1700000000
		g.metaCas = 5000000
		g.collsProgram(n)
		return
	}
	if g.profile == "query" {
		g.phys = 1 << 20
		g.now = 1700000000
		g.metaCas = 5000000
		g.queryProgram(n)
		return
	}
	if g.profile == "subdoc" {
		g.phys = 1 << 20
		g.now = 1700000000
		g.subdocProgram(n)
		return
	}
	if g.profile == "expiry" {
		g.phys = 1 << 20
		g.now = 1700000000
		g.expiryProgram(n)
		return
	}
	if g.profile == "clock" {
		g.phys = 1 << 20
		g.now = 1700000000
		g.clockProgram(n)
		return
	}
	g.phys = 1 << 20
	g.now = 1700000000
	g.metaCas = 5000000
	switch g.profile {
	case "kv", "nometa":
		g.colls = []string{"c0"}
	default:
		g.colls = []string{"c0", "c1", "c2"}
	}
	g.keys = []string{"k0", "k1", "k2"}
	if g.r.chance(20) {
		// document IDs that are numeric literals denoting the same number are still different keys
		g.keys = []string{"7", "07", "7.0"}
	}
	feeds := map[string][]string{}
	if g.profile == "feeds" || g.profile == "multi" {
		i := 0
		for _, c := range g.colls {
			// up to three live feeds per collection, full and keys-only in either order of registration
			for _, p := range []int{70, 40, 50} {
				if !g.r.chance(p) {
					break
				}
				id := fmt.Sprintf("f%d", i)
				i++
				l := Line{Op: "feed", Pos: []string{id, c}, Args: [][2]string{{"bf", "none"}}}
				if g.r.chance(25) {
					l.add("keysonly", "1")
				}
				g.emit(l)
				feeds[c] = append(feeds[c], id)
			}
		}
	}
	nextC, nextK := "", ""
	for i := 0; i < n; i++ {
		g.tick()
		c := pick(g.r, g.colls)
		k := pick(g.r, g.keys)
		if nextC != "" {
			// a live document whose body is empty is still a live document: the previous write left one, follow with an insert-style write of the same key
			c, k = nextC, nextK
			g.force = pick(g.r, []int{0, 2, 10, 12, 12, 20})
			nextC, nextK = "", ""
		}
		purged := g.oneOp(c, k)
		if row := g.curRow(c, k); row.Found && !row.ValueNull && len(row.Value) == 0 && g.r.chance(60) {
			nextC, nextK = c, k
		}
		if purged {
			for _, cc := range g.colls {
				for _, kk := range g.obsKeys() {
					g.rb(cc, kk)
				}
			}
		} else if g.profile == "multi" {
			for _, cc := range g.colls {
				g.rb(cc, k)
			}
			if g.r.chance(10) {
				g.emit(Line{Op: "lastcas", Pos: []string{c}})
			}
		} else {
			g.rb(c, k)
		}
		for _, cc := range g.colls {
			for _, id := range feeds[cc] {
				g.emit(Line{Op: "drain", Pos: []string{id}})
			}
		}
		if g.profile == "feeds" && g.r.chance(4) {
			// one feed's terminator is closed: the other feeds of its collection go on receiving every mutation
			cc := pick(g.r, g.colls)
			if len(feeds[cc]) > 0 {
				j := g.r.intn(len(feeds[cc]))
				g.emit(Line{Op: "stopfeed", Pos: []string{feeds[cc][j]}})
				feeds[cc] = append(append([]string{}, feeds[cc][:j]...), feeds[cc][j+1:]...)
				g.stats["op:stopfeed"]++
			}
		}
		if g.profile == "multi" && g.r.chance(6) {
			// expiry sweep at a scripted time
			g.now += uint64(pick(g.r, []int{50, 500, 2000}))
			g.emit(Line{Op: "now", Args: [][2]string{{"s", u(g.now)}}})
			g.emit(Line{Op: "fire"})
			for _, cc := range g.colls {
				for _, kk := range g.obsKeys() {
					g.rb(cc, kk)
				}
				for _, id := range feeds[cc] {
					g.emit(Line{Op: "drain", Pos: []string{id}})
				}
			}
		}
	}
	// final snapshots: backfill dumps from several start points
	if g.profile == "feeds" || g.profile == "multi" {
		for _, cc := range g.colls {
			for _, kk := range g.obsKeys() {
				g.rb(cc, kk)
			}
		}
		for di, c := range g.colls {
			var start uint64
			if g.r.chance(40) {
				start = g.curRow(c, pick(g.r, g.keys)).Cas
			}
			id := fmt.Sprintf("d%d", di)
			l := Line{Op: "feed", Pos: []string{id, c}, Args: [][2]string{{"bf", u(start)}, {"dump", "1"}}}
			if g.r.chance(15) {
				l.add("keysonly", "1")
			}
			g.emit(l)
			g.emit(Line{Op: "drain", Pos: []string{id}})
			if g.r.chance(40) {
				// a second dump of the same collection through the same handle, with the other projection (keys only / full)
				id2 := fmt.Sprintf("e%d", di)
				l2 := Line{Op: "feed", Pos: []string{id2, c}, Args: [][2]string{{"bf", u(start)}, {"dump", "1"}}}
				if _, ko := l.get("keysonly"); !ko {
					l2.add("keysonly", "1")
				}
				g.emit(l2)
				g.emit(Line{Op: "drain", Pos: []string{id2}})
			}
		}
	}
	for _, c := range g.colls {
		g.emit(Line{Op: "keys", Pos: []string{c}})
		g.emit(Line{Op: "lastcas", Pos: []string{c}})
	}
}
