package main

import (
	"encoding/json"
	"fmt"
	"os"
	"path/filepath"
	"sync"
	"sync/atomic"

	sgbucket "github.com/couchbase/sg-bucket"
	"github.com/couchbaselabs/rosmar"
)

// stressMode: real goroutines, real scheduling, two handles: no increment and no update may be lost.
func stressMode(args []string) int {
	rosmar.VerifSetHook(nil)
	rosmar.VerifSetClock(nil)
	rosmar.VerifSetNow(nil)
	bad := 0
	for _, kind := range []string{"mem", "disk"} {
		name := fmt.Sprintf("st%d_%s", os.Getpid(), kind)
		url := rosmar.InMemoryURL
		dir := ""
		if kind == "disk" {
			dir = filepath.Join(tmpRoot(), "stress", name)
			_ = os.MkdirAll(filepath.Dir(dir), 0o755)
			url = "rosmar://" + dir
		}
		b1, err := rosmar.OpenBucket(url, name, rosmar.CreateNew)
		if err != nil {
			fmt.Println("error open", err)
			return 2
		}
		b2, err := rosmar.OpenBucket(url, name, rosmar.ReOpenExisting)
		if err != nil {
			fmt.Println("error open2", err)
			return 2
		}
		cs := []*rosmar.Collection{b1.DefaultDataStore().(*rosmar.Collection), b2.DefaultDataStore().(*rosmar.Collection)}
		const workers, rounds = 16, 40
		var wg sync.WaitGroup
		var updates, incrs atomic.Int64
		for g := 0; g < workers; g++ {
			wg.Add(1)
			go func(g int) {
				defer wg.Done()
				c := cs[g%2]
				for i := 0; i < rounds; i++ {
					if _, err := c.Incr("counter", 1, 1, 0); err == nil {
						incrs.Add(1)
					}
					_, err := c.Update("doc", 0, func(cur []byte) ([]byte, *uint32, bool, error) {
						var d struct {
							N int `json:"n"`
						}
						if cur != nil {
							_ = json.Unmarshal(cur, &d)
						}
						d.N++
						out, _ := json.Marshal(d)
						return out, nil, false, nil
					})
					if err == nil {
						updates.Add(1)
					}
					if i%7 == 0 {
						_, _, _ = c.GetRaw("doc")
					}
				}
			}(g)
		}
		wg.Wait()
		var n uint64
		_, _ = cs[0].Get("counter", &n)
		var d struct {
			N int64 `json:"n"`
		}
		_, _ = cs[1].Get("doc", &d)
		if int64(n) != incrs.Load() {
			fmt.Printf("violation %s: %d successful Incr calls but the counter reads %d\n", kind, incrs.Load(), n)
			bad++
		} else if d.N != updates.Load() {
			fmt.Printf("violation %s: %d successful Update calls but the document counts %d\n", kind, updates.Load(), d.N)
			bad++
		} else {
			fmt.Printf("ok %s incr=%d update=%d\n", kind, n, d.N)
		}
		// CAS order is commit order: after N concurrent writers of one key, the document carries the largest CAS any of them
		// was given, and the collection's high-water mark is not below it
		var maxCas atomic.Uint64
		var wg2 sync.WaitGroup
		for g := 0; g < 8; g++ {
			wg2.Add(1)
			go func(g int) {
				defer wg2.Done()
				c := cs[g%2]
				for i := 0; i < 150; i++ {
					cas, err := c.SetXattrs(ctx, "casdoc", map[string][]byte{"x": []byte(fmt.Sprintf("%d", g*1000+i))})
					if err != nil {
						if i == 0 {
							_ = c.SetRaw("casdoc", 0, nil, []byte("{}"))
						}
						continue
					}
					for {
						old := maxCas.Load()
						if cas <= old || maxCas.CompareAndSwap(old, cas) {
							break
						}
					}
				}
			}(g)
		}
		// meanwhile a sampler reads the stored row and the collection's mark: both may only grow (every later commit carries a larger CAS)
		stop := make(chan struct{})
		var decreases atomic.Int64
		var firstDecrease atomic.Value
		go func() {
			var lastRow, lastColl uint64
			for {
				select {
				case <-stop:
					return
				default:
				}
				if r, err := rosmar.VerifRawRow(cs[0], "casdoc"); err == nil && r.Found {
					if r.Cas < lastRow {
						if decreases.Add(1) == 1 {
							firstDecrease.Store(fmt.Sprintf("document CAS went from %d to %d", lastRow, r.Cas))
						}
					}
					lastRow = r.Cas
				}
				if _, cc, err := rosmar.VerifLastCas(cs[0]); err == nil {
					if cc < lastColl {
						if decreases.Add(1) == 1 {
							firstDecrease.Store(fmt.Sprintf("collection high-water mark went from %d to %d", lastColl, cc))
						}
					}
					lastColl = cc
				}
			}
		}()
		wg2.Wait()
		close(stop)
		if decreases.Load() > 0 {
			fmt.Printf("violation %s-casorder: %v (%d decreases seen by a concurrent reader): a later commit carried a smaller CAS\n", kind, firstDecrease.Load(), decreases.Load())
			bad++
		}
		row, _ := rosmar.VerifRawRow(cs[0], "casdoc")
		_, collCas, _ := rosmar.VerifLastCas(cs[0])
		if row.Cas != maxCas.Load() || collCas < maxCas.Load() {
			fmt.Printf("violation %s-casorder: the largest CAS handed to a writer of the key is %d but the document carries %d (collection high-water mark %d)\n", kind, maxCas.Load(), row.Cas, collCas)
			bad++
		} else {
			fmt.Printf("ok %s-casorder cas=%d\n", kind, row.Cas)
		}
		// C15 under real concurrency: checkpointed resume-mode dump runs back to back while writers are active; taken together the runs
		// deliver the final version of every document (a run only backfills committed rows, and every later commit has a larger CAS)
		for rep := 0; rep < 6; rep++ {
			delivered := map[string]map[uint64]bool{}
			var dmu sync.Mutex
			runDump := func() {
				done := make(chan struct{})
				err := cs[0].StartDCPFeed(ctx, sgbucket.FeedArguments{ID: fmt.Sprintf("rs%d", rep), Backfill: sgbucket.FeedResume, Dump: true, CheckpointPrefix: "cp", DoneChan: done},
					func(e sgbucket.FeedEvent) bool {
						if e.Opcode == sgbucket.FeedOpMutation || e.Opcode == sgbucket.FeedOpDeletion {
							dmu.Lock()
							if delivered[string(e.Key)] == nil {
								delivered[string(e.Key)] = map[uint64]bool{}
							}
							delivered[string(e.Key)][e.Cas] = true
							dmu.Unlock()
						}
						return true
					}, nil)
				if err == nil {
					<-done
				}
			}
			var wg3 sync.WaitGroup
			var writing atomic.Bool
			writing.Store(true)
			for g := 0; g < 6; g++ {
				wg3.Add(1)
				go func(g int) {
					defer wg3.Done()
					c := cs[g%2]
					for i := 0; i < 80; i++ {
						_ = c.SetRaw(fmt.Sprintf("r%d_%d_%d", rep, g, i%4), 0, nil, []byte(fmt.Sprintf("%d", i)))
					}
				}(g)
			}
			go func() { wg3.Wait(); writing.Store(false) }()
			for writing.Load() {
				runDump()
			}
			runDump()
			runDump()
			missing := ""
			for g := 0; g < 6; g++ {
				for j := 0; j < 4; j++ {
					k := fmt.Sprintf("r%d_%d_%d", rep, g, j)
					row, err := rosmar.VerifRawRow(cs[0], k)
					if err != nil || !row.Found {
						continue
					}
					dmu.Lock()
					ok := delivered[k][row.Cas]
					dmu.Unlock()
					if !ok && missing == "" {
						missing = fmt.Sprintf("%s (cas %d)", k, row.Cas)
					}
				}
			}
			if missing != "" {
				fmt.Printf("violation %s-resume: the final version of %s was delivered by no run of the checkpointed feed although two runs followed the last write\n", kind, missing)
				bad++
				break
			} else if rep == 5 {
				fmt.Printf("ok %s-resume\n", kind)
			}
		}
		_ = b1.CloseAndDelete(ctx)
		b2.Close(ctx)
		if dir != "" {
			_ = os.RemoveAll(dir)
		}
	}
	if bad > 0 {
		return 1
	}
	return 0
}

func init() { extraModes["stress"] = func(a []string) int { return stressMode(a) } }
