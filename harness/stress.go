package main

import (
	"encoding/json"
	"fmt"
	"os"
	"path/filepath"
	"sync"
	"sync/atomic"

	"github.com/couchbaselabs/rosmar"
)

// stressMode: real goroutines, real scheduling, two handles: no increment and no update may be lost.
func stressMode(args []string) int {
	rosmar.VerifSetHook(nil)
	rosmar.VerifSetClock(nil)
	rosmar.VerifSetNow(nil)
	bad := 0
	for _, kind := range []string{"mem", "disk"} {
		name := fmt.Sprintf("st%d_%s", os.Getpid(), kind)
		url := rosmar.InMemoryURL
		dir := ""
		if kind == "disk" {
			dir = filepath.Join(tmpRoot(), "stress", name)
			_ = os.MkdirAll(filepath.Dir(dir), 0o755)
			url = "rosmar://" + dir
		}
		b1, err := rosmar.OpenBucket(url, name, rosmar.CreateNew)
		if err != nil {
			fmt.Println("error open", err)
			return 2
		}
		b2, err := rosmar.OpenBucket(url, name, rosmar.ReOpenExisting)
		if err != nil {
			fmt.Println("error open2", err)
			return 2
		}
		cs := []*rosmar.Collection{b1.DefaultDataStore().(*rosmar.Collection), b2.DefaultDataStore().(*rosmar.Collection)}
		const workers, rounds = 16, 40
		var wg sync.WaitGroup
		var updates, incrs atomic.Int64
		for g := 0; g < workers; g++ {
			wg.Add(1)
			go func(g int) {
				defer wg.Done()
				c := cs[g%2]
				for i := 0; i < rounds; i++ {
					if _, err := c.Incr("counter", 1, 1, 0); err == nil {
						incrs.Add(1)
					}
					_, err := c.Update("doc", 0, func(cur []byte) ([]byte, *uint32, bool, error) {
						var d struct {
							N int `json:"n"`
						}
						if cur != nil {
							_ = json.Unmarshal(cur, &d)
						}
						d.N++
						out, _ := json.Marshal(d)
						return out, nil, false, nil
					})
					if err == nil {
						updates.Add(1)
					}
					if i%7 == 0 {
						_, _, _ = c.GetRaw("doc")
					}
				}
			}(g)
		}
		wg.Wait()
		var n uint64
		_, _ = cs[0].Get("counter", &n)
		var d struct {
			N int64 `json:"n"`
		}
		_, _ = cs[1].Get("doc", &d)
		if int64(n) != incrs.Load() {
			fmt.Printf("violation %s: %d successful Incr calls but the counter reads %d\n", kind, incrs.Load(), n)
			bad++
		} else if d.N != updates.Load() {
			fmt.Printf("violation %s: %d successful Update calls but the document counts %d\n", kind, updates.Load(), d.N)
			bad++
		} else {
			fmt.Printf("ok %s incr=%d update=%d\n", kind, n, d.N)
		}
		_ = b1.CloseAndDelete(ctx)
		b2.Close(ctx)
		if dir != "" {
			_ = os.RemoveAll(dir)
		}
	}
	if bad > 0 {
		return 1
	}
	return 0
}

func init() { extraModes["stress"] = func(a []string) int { return stressMode(a) } }
