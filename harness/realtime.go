package main

import (
	"fmt"
	"sync"
	"time"

	sgbucket "github.com/couchbase/sg-bucket"
	"github.com/couchbaselabs/rosmar"
)

// realtimeMode exercises the part of C14 no model can: that the real timer goroutine fires soon after the deadline.
// Real wall clock, real timer. Prints one line per scenario: "ok <name>" or "violation <name>: ...".
func realtimeMode(args []string) int {
	rosmar.VerifSetHook(nil)
	rosmar.VerifSetClock(nil)
	rosmar.VerifSetNow(nil)
	type scenario struct {
		name string
		run  func(c *rosmar.Collection) (expire []string, keep []string)
	}
	scenarios := []scenario{
		{"set-with-expiry", func(c *rosmar.Collection) ([]string, []string) {
			_ = c.SetRaw("a", 2, nil, []byte("1"))
			_ = c.SetRaw("far", 60, nil, []byte("1"))
			return []string{"a"}, []string{"far"}
		}},
		{"touch-sets-expiry", func(c *rosmar.Collection) ([]string, []string) {
			_ = c.SetRaw("t", 0, nil, []byte("1"))
			_, _ = c.Touch("t", 2)
			_ = c.SetRaw("never", 0, nil, []byte("1"))
			return []string{"t"}, []string{"never"}
		}},
		{"touch-shortens-expiry", func(c *rosmar.Collection) ([]string, []string) {
			_ = c.SetRaw("s", 60, nil, []byte("1"))
			_, _ = c.Touch("s", 2)
			return []string{"s"}, nil
		}},
		{"touch-lengthens-expiry", func(c *rosmar.Collection) ([]string, []string) {
			// the timer first fires at the old deadline, finds nothing due, and must re-arm itself for the new one
			_ = c.SetRaw("l", 2, nil, []byte("1"))
			_, _ = c.Touch("l", 4)
			return []string{"l"}, nil
		}},
		{"preserve-expiry-keeps-deadline", func(c *rosmar.Collection) ([]string, []string) {
			_ = c.SetRaw("p", 2, nil, []byte("1"))
			_ = c.SetRaw("p", 0, &sgbucket.UpsertOptions{PreserveExpiry: true}, []byte("2"))
			_ = c.SetRaw("q", 2, nil, []byte("1"))
			_ = c.SetRaw("q", 0, nil, []byte("2")) // expiry cleared by the later write
			return []string{"p"}, []string{"q"}
		}},
	}
	var wg sync.WaitGroup
	var mu sync.Mutex
	bad := 0
	for i, sc := range scenarios {
		wg.Add(1)
		go func(i int, sc scenario) {
			defer wg.Done()
			report := func(format string, a ...any) {
				mu.Lock()
				defer mu.Unlock()
				fmt.Printf(format+"\n", a...)
			}
			b, err := rosmar.OpenBucket(rosmar.InMemoryURL, fmt.Sprintf("rt%d_%d", i, time.Now().UnixNano()), rosmar.CreateNew)
			if err != nil {
				report("error %s: %v", sc.name, err)
				bad++
				return
			}
			defer func() { _ = b.CloseAndDelete(ctx) }()
			c := b.DefaultDataStore().(*rosmar.Collection)
			var evMu sync.Mutex
			deleted := map[string]bool{}
			term := make(chan bool)
			_ = c.StartDCPFeed(ctx, sgbucket.FeedArguments{ID: "rt", Backfill: sgbucket.FeedNoBackfill, Terminator: term}, func(e sgbucket.FeedEvent) bool {
				if e.Opcode == sgbucket.FeedOpDeletion {
					evMu.Lock()
					deleted[string(e.Key)] = true
					evMu.Unlock()
				}
				return true
			}, nil)
			defer close(term)
			// start just after a second boundary so that "2 seconds" is not cut short
			time.Sleep(time.Duration(1e9-time.Now().Nanosecond()%1e9) + 20*time.Millisecond)
			start := time.Now()
			expire, keep := sc.run(c)
			// readable at every instant before T (T is at least 2 s after start, allowing the documented 1 s granularity)
			for time.Since(start) < 900*time.Millisecond {
				for _, k := range expire {
					if ok, _ := c.Exists(k); !ok {
						report("violation %s: %s disappeared %v after it was written with a 2 s expiry", sc.name, k, time.Since(start))
						mu.Lock()
						bad++
						mu.Unlock()
						return
					}
				}
				time.Sleep(50 * time.Millisecond)
			}
			deadline := start.Add(9 * time.Second)
			for {
				done := true
				for _, k := range expire {
					ok, _ := c.Exists(k)
					evMu.Lock()
					d := deleted[k]
					evMu.Unlock()
					if ok || !d {
						done = false
					}
				}
				if done {
					break
				}
				if time.Now().After(deadline) {
					report("violation %s: not tombstoned with a deletion event within 9 s of a 2 s (4 s for the lengthened one) expiry: %v", sc.name, expire)
					mu.Lock()
					bad++
					mu.Unlock()
					return
				}
				time.Sleep(100 * time.Millisecond)
			}
			for _, k := range keep {
				if ok, _ := c.Exists(k); !ok {
					report("violation %s: %s expired although its expiry is not due", sc.name, k)
					mu.Lock()
					bad++
					mu.Unlock()
					return
				}
			}
			report("ok %s (%.1fs)", sc.name, time.Since(start).Seconds())
		}(i, sc)
	}
	wg.Wait()
	if bad > 0 {
		return 1
	}
	return 0
}
