module verif/harness

go 1.19

require (
	github.com/couchbase/sg-bucket v0.0.0-20240606153601-d152b90edccb
	github.com/couchbaselabs/rosmar v0.0.0
)

require (
	github.com/google/uuid v1.6.0 // indirect
	github.com/mattn/go-sqlite3 v1.14.24 // indirect
	github.com/robertkrimen/otto v0.0.0-20211024170158-b87d35c0b86f // indirect
	golang.org/x/text v0.15.0 // indirect
	gopkg.in/sourcemap.v1 v1.0.5 // indirect
)

replace github.com/couchbaselabs/rosmar => /repo
