package main

import (
	"errors"
	"fmt"
	"io/fs"
	"os"
	"path/filepath"
	"sort"
	"strings"

	"github.com/couchbaselabs/rosmar"
)

// RegWorld runs registry programs: several names, URLs and handles, no bucket opened up front.
type RegWorld struct {
	prefix  string
	root    string
	handles map[string]*rosmar.Bucket
	colls   map[string]*rosmar.Collection
}

func newRegWorld() *RegWorld {
	n := progCounter.Add(1)
	w := &RegWorld{prefix: fmt.Sprintf("r%d_%d_", os.Getpid(), n), handles: map[string]*rosmar.Bucket{}, colls: map[string]*rosmar.Collection{}}
	w.root = filepath.Join(tmpRoot(), "regs", strings.TrimSuffix(w.prefix, "_"))
	_ = os.MkdirAll(w.root, 0o755)
	rosmar.VerifSetHook(schedHook)
	return w
}

func (w *RegWorld) url(u string) string {
	if u == "mem" {
		return rosmar.InMemoryURL
	}
	return "rosmar://" + filepath.Join(w.root, u)
}

func (w *RegWorld) close() {
	for _, b := range w.handles {
		func() {
			defer func() { _ = recover() }()
			_ = b.CloseAndDelete(ctx)
		}()
	}
	for _, b := range w.handles {
		func() {
			defer func() { _ = recover() }()
			b.Close(ctx)
		}()
	}
	_ = os.RemoveAll(w.root)
	rosmar.VerifSetHook(nil)
}

func regErrClass(err error) string {
	if err == nil {
		return "ok"
	}
	s := err.Error()
	switch {
	case errors.Is(err, fs.ErrExist):
		return "exist"
	case errors.Is(err, fs.ErrNotExist), strings.Contains(s, "unable to open database file"):
		return "notexist"
	case strings.Contains(s, "already exists at"):
		return "urlmismatch"
	case errors.Is(err, rosmar.ErrBucketClosed):
		return "closed"
	case strings.Contains(s, "database is closed"):
		return "dbclosed"
	}
	return errClass(err)
}

func (w *RegWorld) snapshot() string {
	counts, present := rosmar.VerifRegistry()
	var names, cs, dirs []string
	for _, n := range []string{"A", "B"} {
		if present[w.prefix+n] {
			names = append(names, n)
		}
		if c, ok := counts[w.prefix+n]; ok {
			cs = append(cs, fmt.Sprintf("%s:%d", n, c))
		}
	}
	for _, u := range []string{"d0", "d1", "d2", "d3"} {
		if _, err := os.Stat(filepath.Join(w.root, u, "rosmar.sqlite3")); err == nil {
			dirs = append(dirs, u)
		}
	}
	sort.Strings(names)
	return "names=" + strings.Join(names, ",") + " counts=" + strings.Join(cs, ",") + " dirs=" + strings.Join(dirs, ",")
}

func (w *RegWorld) exec(l Line) (res string) {
	defer func() {
		if r := recover(); r != nil {
			res = "r=panic:" + strings.ReplaceAll(fmt.Sprint(r), " ", "_") + " | " + w.snapshot()
		}
	}()
	h := ""
	if len(l.Pos) > 0 {
		h = l.Pos[0]
	}
	out := ""
	switch l.Op {
	case "open":
		b, err := rosmar.OpenBucket(w.url(l.str("url", "mem")), w.prefix+l.str("name", "A"), rosmar.OpenMode(l.u64("mode", 0)))
		if err == nil {
			w.handles[h] = b
			if ds := b.DefaultDataStore(); ds != nil {
				w.colls[h] = ds.(*rosmar.Collection)
			} else {
				delete(w.colls, h)
			}
		}
		out = "r=" + regErrClass(err)
	case "hclose":
		b := w.handles[h]
		if b == nil {
			out = "r=nohandle"
		} else {
			b.Close(ctx)
			out = "r=ok"
		}
	case "cad":
		b := w.handles[h]
		if b == nil {
			out = "r=nohandle"
		} else {
			err := b.CloseAndDelete(ctx)
			out = "r=" + regErrClass(err)
		}
	case "put":
		c := w.colls[h]
		if c == nil {
			out = "r=nohandle"
		} else {
			out = "r=" + regErrClass(c.SetRaw(l.Pos[1], 0, nil, l.bytesArg("v")))
		}
	case "get":
		c := w.colls[h]
		if c == nil {
			out = "r=nohandle v~"
		} else {
			v, _, err := c.GetRaw(l.Pos[1])
			if err != nil {
				v = nil
			}
			out = "r=" + regErrClass(err) + " v" + optBytes(v)
		}
	default:
		out = "r=harness-unknown-op"
	}
	return out + " | " + w.snapshot()
}

// regProgram generates registry scripts: two names, an in-memory URL and two directories, up to four handles.
func regProgram(r *Rng, n int, emit func(l Line) string, stats map[string]int) {
	handles := []string{"h0", "h1", "h2", "h3"}
	opened := map[string]bool{}
	closedH := map[string]bool{}
	dead := map[string]bool{} // handles whose bucket was deleted under them (CloseAndDelete by any handle of that store)
	// each name sticks to one kind of URL most of the time, so that sharing actually happens
	// a directory belongs to one bucket name (two names on one directory is outside sensible use)
	urls := map[string][]string{"A": {"mem", "d0", "d2"}, "B": {"mem", "d1", "d3"}}
	home := map[string]string{"A": pick(r, []string{"mem", "d0"}), "B": pick(r, []string{"mem", "d1"})}
	hname := map[string]string{}
	// incarnation of a name's store: a new one starts when the bucket is deleted or (on disk) when its last handle closes
	inc := map[string]int{}
	hinc := map[string]int{}
	hurl := map[string]string{}
	openCount := func(name string) int {
		c := 0
		for o, nm := range hname {
			if nm == name && opened[o] && !dead[o] && !closedH[o] && hinc[o] == inc[name] {
				c++
			}
		}
		return c
	}
	for i := 0; i < n; i++ {
		var l Line
		switch r.weighted([]int{30, 20, 8, 22, 20}) {
		case 0:
			h := pick(r, handles)
			name := pick(r, []string{"A", "B"})
			url := home[name]
			if r.chance(12) {
				url = pick(r, urls[name])
			}
			l = Line{Op: "open", Pos: []string{h}, Args: [][2]string{{"url", url}, {"name", name}, {"mode", fmt.Sprint(r.weighted([]int{60, 20, 20}))}}}
			res := emit(l)
			if strings.HasPrefix(res, "r=ok") {
				opened[h] = true
				dead[h] = false
				closedH[h] = false
				hname[h] = name
				hinc[h] = inc[name]
				hurl[h] = url
			}
			stats["cell:reg/open/"+strings.SplitN(strings.TrimPrefix(res, "r="), " ", 2)[0]]++
			continue
		case 1:
			h := pick(r, handles)
			if !opened[h] || dead[h] {
				continue // (closing a handle whose bucket was already deleted releases, by name, a reference of whatever bucket now has that name: excluded, see DESIGN)
			}
			l = Line{Op: "hclose", Pos: []string{h}}
			wasOpen := !closedH[h] && hinc[h] == inc[hname[h]]
			closedH[h] = true
			if wasOpen && hurl[h] != "mem" && openCount(hname[h]) == 0 {
				inc[hname[h]]++ // the store of an on-disk bucket ends with its last handle
			}
		case 2:
			h := pick(r, handles)
			if !opened[h] || dead[h] {
				continue // (deleting through a handle whose bucket was deleted earlier acts, by name and URL, on whatever bucket has them now: excluded)
			}
			if closedH[h] {
				// a closed handle may still delete its bucket while that very bucket is alive, i.e. another handle of it is open
				if hinc[h] != inc[hname[h]] || openCount(hname[h]) == 0 {
					continue
				}
			} else if hinc[h] != inc[hname[h]] {
				continue
			}
			inc[hname[h]]++
			l = Line{Op: "cad", Pos: []string{h}}
			for o, nm := range hname {
				if nm == hname[h] {
					dead[o] = true
				}
			}
		case 3:
			h := pick(r, handles)
			if !opened[h] {
				continue
			}
			l = Line{Op: "put", Pos: []string{h, pick(r, []string{"x", "y"})}, Args: [][2]string{{"v", fmt.Sprintf("v%d", r.intn(100))}}}
		case 4:
			h := pick(r, handles)
			if !opened[h] {
				continue
			}
			l = Line{Op: "get", Pos: []string{h, pick(r, []string{"x", "y"})}}
		}
		res := emit(l)
		stats["op:"+l.Op]++
		stats["cell:reg/"+l.Op+"/"+strings.SplitN(strings.TrimPrefix(res, "r="), " ", 2)[0]]++
	}
}
