package main

import (
	"bufio"
	"encoding/json"
	"flag"
	"fmt"
	"os"
	"sort"
	"strings"
	"time"
)

// Modes:
//
//	gen  -seed N -programs P -len L -kind mem|disk -profile kv|feeds|multi -ops FILE -out FILE -stats FILE
//	     generate programs, run them on the implementation, write the concrete op lines and the result lines
//	run  -ops FILE -out FILE
//	     replay concrete op lines on the implementation
func main() {
	if len(os.Args) < 2 {
		fmt.Fprintln(os.Stderr, "usage: rosmar-harness gen|run|... [flags]")
		os.Exit(2)
	}
	mode := os.Args[1]
	if fn, ok := extraModes[mode]; ok {
		os.Exit(fn(os.Args[2:]))
	}
	fs := flag.NewFlagSet(mode, flag.ExitOnError)
	seed := fs.Uint64("seed", 1, "PRNG seed")
	programs := fs.Int("programs", 10, "number of programs")
	length := fs.Int("len", 30, "operations per program")
	kind := fs.String("kind", "mem", "mem|disk")
	profile := fs.String("profile", "kv", "generator profile")
	opsPath := fs.String("ops", "", "ops file")
	outPath := fs.String("out", "", "result file")
	statsPath := fs.String("stats", "", "stats json file")
	_ = fs.Parse(os.Args[2:])

	switch mode {
	case "gen":
		if err := runGen(*seed, *programs, *length, *kind, *profile, *opsPath, *outPath, *statsPath); err != nil {
			fmt.Fprintln(os.Stderr, "harness error:", err)
			os.Exit(2)
		}
	case "run":
		if err := runReplay(*opsPath, *outPath); err != nil {
			fmt.Fprintln(os.Stderr, "harness error:", err)
			os.Exit(2)
		}
	default:
		if fn, ok := extraModes[mode]; ok {
			os.Exit(fn(os.Args[2:]))
		}
		fmt.Fprintln(os.Stderr, "unknown mode", mode)
		os.Exit(2)
	}
}

var extraModes = map[string]func(args []string) int{"realtime": realtimeMode}

func runGen(seed uint64, programs, length int, kind, profile, opsPath, outPath, statsPath string) error {
	opsF, err := os.Create(opsPath)
	if err != nil {
		return err
	}
	defer opsF.Close()
	outF, err := os.Create(outPath)
	if err != nil {
		return err
	}
	defer outF.Close()
	ops := bufio.NewWriter(opsF)
	out := bufio.NewWriter(outF)
	defer ops.Flush()
	defer out.Flush()
	rng := &Rng{s: seed*0x9E3779B97F4A7C15 + 0x1234567}
	stats := map[string]int{}
	start := time.Now()
	nOps := 0
	for p := 0; p < programs; p++ {
		if profile == "reg" {
			rw := newRegWorld()
			fmt.Fprintf(ops, "begin kind=reg prog=%d\n", p)
			fmt.Fprintf(out, "begin\n")
			regProgram(rng, length, func(l Line) string {
				res := rw.exec(l)
				fmt.Fprintln(ops, l.String())
				fmt.Fprintln(out, res)
				nOps++
				return res
			}, stats)
			fmt.Fprintln(ops, "end")
			fmt.Fprintln(out, "end")
			rw.close()
			continue
		}
		w, err := newWorld(kind)
		if err != nil {
			return err
		}
		if profile == "life" {
			d := 0
			if kind == "disk" {
				d = 1
			}
			fmt.Fprintf(ops, "begin kind=life disk=%d prog=%d\n", d, p)
		} else {
			fmt.Fprintf(ops, "begin kind=%s prog=%d\n", kind, p)
		}
		fmt.Fprintf(out, "begin\n")
		g := &Gen{r: rng, w: w, profile: profile, oldCas: map[string][]uint64{}, stats: stats, force: -1}
		g.emit = func(l Line) string {
			res, hung := execWatchdog(w, l)
			fmt.Fprintln(ops, l.String())
			fmt.Fprintln(out, res)
			nOps++
			if hung {
				// the implementation is stuck (deadlock or leaked transaction): nothing more can be run in this process
				fmt.Fprintln(ops, "end")
				ops.Flush()
				out.Flush()
				os.Exit(3)
			}
			return res
		}
		g.program(length)
		fmt.Fprintln(ops, "end")
		fmt.Fprintln(out, "end")
		closeWatchdog(w.close, func() { ops.Flush(); out.Flush() })
	}
	stats["_programs"] = programs
	stats["_lines"] = nOps
	stats["_wall_ms"] = int(time.Since(start).Milliseconds())
	if statsPath != "" {
		keys := make([]string, 0, len(stats))
		for k := range stats {
			keys = append(keys, k)
		}
		sort.Strings(keys)
		b, _ := json.MarshalIndent(stats, "", " ")
		if err := os.WriteFile(statsPath, b, 0o644); err != nil {
			return err
		}
	}
	return nil
}

func runReplay(opsPath, outPath string) error {
	in, err := os.Open(opsPath)
	if err != nil {
		return err
	}
	defer in.Close()
	outF := os.Stdout
	if outPath != "" {
		outF, err = os.Create(outPath)
		if err != nil {
			return err
		}
		defer outF.Close()
	}
	out := bufio.NewWriter(outF)
	defer out.Flush()
	sc := bufio.NewScanner(in)
	sc.Buffer(make([]byte, 1<<20), 1<<26)
	var w *World
	var rw *RegWorld
	for sc.Scan() {
		line := sc.Text()
		if strings.TrimSpace(line) == "" || strings.HasPrefix(line, "#") {
			continue
		}
		l, err := parseLine(line)
		if err != nil {
			return err
		}
		switch l.Op {
		case "begin":
			if w != nil {
				w.close()
				w = nil
			}
			if rw != nil {
				rw.close()
				rw = nil
			}
			if l.str("kind", "mem") == "reg" {
				rw = newRegWorld()
				fmt.Fprintln(out, "begin")
				continue
			}
			kind := l.str("kind", "mem")
			if kind == "life" {
				kind = "mem"
				if l.flag("disk") {
					kind = "disk"
				}
			}
			w, err = newWorld(kind)
			if err != nil {
				return err
			}
			fmt.Fprintln(out, "begin")
		case "end":
			fmt.Fprintln(out, "end")
			if w != nil {
				closeWatchdog(w.close, func() { out.Flush() })
				w = nil
			}
			if rw != nil {
				closeWatchdog(rw.close, func() { out.Flush() })
				rw = nil
			}
		default:
			if rw != nil {
				fmt.Fprintln(out, rw.exec(l))
				continue
			}
			if w == nil {
				w, err = newWorld("mem")
				if err != nil {
					return err
				}
			}
			res, hung := execWatchdog(w, l)
			fmt.Fprintln(out, res)
			if hung {
				out.Flush()
				os.Exit(3)
			}
		}
	}
	if w != nil {
		w.close()
	}
	if rw != nil {
		rw.close()
	}
	return sc.Err()
}

// closeWatchdog tears a world down; an implementation stuck on a held lock cannot be torn down: leave the process.
func closeWatchdog(closeFn func(), flush func()) {
	done := make(chan struct{})
	go func() { closeFn(); close(done) }()
	select {
	case <-done:
	case <-time.After(8 * time.Second):
		flush()
		os.Exit(3)
	}
}

// execWatchdog runs one line with a deadline; a call that does not return is reported as "r=hang".
func execWatchdog(w *World, l Line) (string, bool) {
	ch := make(chan string, 1)
	go func() { ch <- w.exec(l) }()
	select {
	case r := <-ch:
		return r, false
	case <-time.After(opTimeout):
		return "r=hang", true
	}
}

var opTimeout = 15 * time.Second
