package main

import (
	"fmt"
	"sort"
	"strings"
	"time"

	"github.com/couchbaselabs/rosmar"
)

// Lifecycle operations on a KV world: further handles, closing / deleting through any handle, feed state.

func (w *World) lifeExec(l Line) (string, bool) {
	switch l.Op {
	case "hopen":
		b, err := rosmar.OpenBucket(w.url, w.name, rosmar.ReOpenExisting)
		if err != nil {
			return "r=" + regErrClass(err), true
		}
		w.handles[l.Pos[0]] = b
		return "r=ok", true
	case "hclose":
		b := w.handles[l.Pos[0]]
		if b == nil {
			return "r=nohandle", true
		}
		b.Close(ctx)
		time.Sleep(5 * time.Millisecond)
		return "r=ok", true
	case "cadh":
		b := w.handles[l.Pos[0]]
		if b == nil {
			return "r=nohandle", true
		}
		err := b.CloseAndDelete(ctx)
		time.Sleep(5 * time.Millisecond)
		return "r=" + regErrClass(err), true
	case "lifestate":
		return w.lifeState(), true
	case "shutdownstate":
		return w.shutdownState(), true
	case "probe":
		return w.probe(l), true
	}
	return "", false
}

func (w *World) feedIDs() []string {
	w.mu.Lock()
	defer w.mu.Unlock()
	ids := make([]string, 0, len(w.feeds))
	for id := range w.feeds {
		ids = append(ids, id)
	}
	sort.Strings(ids)
	return ids
}

// lifeState reports, for every feed, whether its done channel has been closed, and the number of callbacks seen after done.
func (w *World) lifeState() string {
	sample := func() string {
		var parts []string
		after := 0
		for _, id := range w.feedIDs() {
			f := w.feeds[id]
			d := 0
			if f.doneClosed.Load() {
				d = 1
			}
			f.mu.Lock()
			after += f.afterDone
			f.mu.Unlock()
			parts = append(parts, fmt.Sprintf("%s=%d", id, d))
		}
		return fmt.Sprintf("r=ok %s afterdone=%d", strings.Join(parts, " "), after)
	}
	last := sample()
	for i := 0; i < 40; i++ {
		time.Sleep(15 * time.Millisecond)
		cur := sample()
		if cur == last && i >= 1 {
			return cur
		}
		last = cur
	}
	return last
}

// probe writes one document to a collection through a handle and reports which feeds received an event for it.
func (w *World) probe(l Line) string {
	lab := l.Pos[0]
	h := l.str("via", "h0")
	c := w.colls[lab+"@"+h]
	if c == nil {
		return "r=harness-nocoll"
	}
	key := fmt.Sprintf("probe%d", time.Now().UnixNano())
	before := map[string]int{}
	for _, id := range w.feedIDs() {
		f := w.feeds[id]
		f.mu.Lock()
		before[id] = len(f.events)
		f.mu.Unlock()
	}
	err := c.SetRaw(key, 0, nil, []byte("p"))
	if err != nil {
		return "r=" + errClass(err)
	}
	time.Sleep(30 * time.Millisecond)
	var parts []string
	for _, id := range w.feedIDs() {
		f := w.feeds[id]
		if !f.onColl(lab) {
			f.mu.Lock()
			extra := len(f.events) - before[id]
			f.mu.Unlock()
			if extra != 0 {
				parts = append(parts, fmt.Sprintf("%s=stray%d", id, extra))
			}
			continue
		}
		f.mu.Lock()
		got := len(f.events) - before[id]
		f.mu.Unlock()
		parts = append(parts, fmt.Sprintf("%s=%d", id, got))
	}
	return "r=ok " + strings.Join(parts, " ")
}

var otherCounter int

// shutdownState reports, after a shutdown, how many feed goroutines are still running and whether an unrelated bucket
// can still be opened, written and deleted (no process-wide lock left held).
func (w *World) shutdownState() string {
	var af int32
	for i := 0; i < 100; i++ {
		af = rosmar.VerifActiveFeeds()
		if af == 0 {
			break
		}
		time.Sleep(10 * time.Millisecond)
	}
	otherCounter++
	name := fmt.Sprintf("%s_other%d", w.name, otherCounter)
	ch := make(chan string, 1)
	go func() {
		defer func() {
			if r := recover(); r != nil {
				ch <- "panic"
			}
		}()
		b, err := rosmar.OpenBucket(rosmar.InMemoryURL, name, rosmar.CreateNew)
		if err != nil {
			ch <- "openerr"
			return
		}
		if err := b.DefaultDataStore().SetRaw("k", 0, nil, []byte("v")); err != nil {
			ch <- "seterr"
			return
		}
		if err := b.CloseAndDelete(ctx); err != nil {
			ch <- "closeerr"
			return
		}
		ch <- "ok"
	}()
	other := "hang"
	select {
	case other = <-ch:
	case <-time.After(3 * time.Second):
	}
	return fmt.Sprintf("r=ok activefeeds=%d other=%s", af, other)
}
