"""Texts for MANIFEST.json (what each check claims and on what it rests)."""
HOOK_COMMITS = ["c7740f4", "35fc13a", "ef53ba1", "efa7316", "9f2d833"]

COMMON_NOTE = ("Trusted: Lean 4.33 kernel (axioms reported by the per-run audit: propext, Quot.sound, Classical.choice at most; no sorry / "
               "native_decide / own axioms); the hand-written Lean model of rosmar is tied to /repo only by the correspondence check "
               "(Go harness in-process on real rosmar with scripted clocks vs the compiled model, every result and raw row diffed) - "
               "sampled, not exhaustive; SQLite, database/sql, Go runtime, encoding/json are modelled, not verified; an atomic action of "
               "the model is assumed atomic in the implementation (bucket mutex + BEGIN IMMEDIATE); inputs well-formed per DESIGN.md section 7.")

def claim(text, technique="Lean 4 theorems over an executable model + differential correspondence with the Go code", note=""):
    return {"text": text, "technique": technique, "note": (note + " " if note else "") + COMMON_NOTE}

CLAIMS = {
 "C01": claim("Proved for the model, all states / all single-row entry points: reads are projections of the one stored row; a call either "
              "changes no row or stores exactly its row function's row under the addressed key (frame for every other key/collection); "
              "errors and rejected calls change nothing. Compound calls (Update, WriteUpdateWithXattrs) are covered by the correspondence "
              "and monitors, not yet by a theorem of their own (partial)."),
 "C02": claim("Proved: for every CAS-conditional entry point and every state, the call is applied only if the expected CAS equals the "
              "current one (0 = no document) and otherwise changes nothing; two conditional writers expecting the same version can never "
              "both be applied. Interleavings reduce to lists of atomic actions (assumed atomic)."),
 "C03": claim("Proved over lists of atomic actions (any number of interfering callers, any regular operations): while a key keeps a CAS it "
              "keeps the body and xattrs it had under that CAS; hence the conditional write that ends an Update / WriteUpdateWithXattrs / "
              "WriteSubDoc iteration is applied only on top of exactly the version its callback was shown, and otherwise changes nothing; "
              "Incr reads and writes inside one atomic action. ASSUMED, not proved: each atomic action of the model is atomic in the code "
              "(bucket mutex + BEGIN IMMEDIATE, single-SELECT reads); exercised by forced schedules through the instrumentation points "
              "(each checked for linearizability against the sequential model) and a 16-goroutine / 2-handle stress on both bucket kinds.",
              note="Partial: atomicity of the implementation's critical sections is an assumption."),
 "C04": claim("Proved: the hybrid-clock step is strictly increasing for every clock reading; for every history (all entry points, other "
              "buckets' draws, restarts) the committed-CAS log is strictly increasing and bounded by the persisted high-water mark, which "
              "re-seeds the clock on reopen. uint64 wrap-around is not modelled (Nat)."),
 "C05": claim("Proved for every reachable state of the model (induction over any operation list, all entry points incl. compound calls, purge, "
              "expiry sweep): tombstone flag set iff no body; all observers are functions of the row and agree; Delete/Remove keep system "
              "xattrs and drop user xattrs + expiry; resurrection clears the tombstone's xattrs; purge removes exactly the bodiless rows."),
 "C06": claim("Proved: Add/AddRaw and WriteCas(CAS 0 / AddOnly) write iff GetRaw reports missing, refusal leaves every row untouched; "
              "WriteResurrectionWithXattrs only writes over a bodiless key; WriteWithXattrs(CAS 0) only on an absent key."),
 "C07": claim("Proved: writeWithXattrs leaves every unnamed xattr byte-identical (frame over the edit list), keeps body/expiry unless given, "
              "is all-or-nothing, and evaluates macros against the stored CAS and body; body-only writes keep a live document's xattrs. "
              "CRC32c/CAS string formats are checked by the correspondence, not proved."),
 "C08": claim("Proved (sequential part): every single-row write posts exactly one event iff it gives the document a new CAS, the event equals "
              "the faithful description of the stored row, it is queued once on each live feed of that collection and nowhere else, failed "
              "calls post nothing. The cross-thread CAS ordering of deliveries is NOT provable of this code (events are posted after the lock "
              "is released): recorded as a known finding when the schedule check is registered.",
              note="Partial: ordering under concurrent writers is outside what holds (DESIGN.md F16)."),
 "C09": claim("Proved: the backfill item list is begin, one faithful event per stored row with CAS >= start in CAS order (a sorted permutation "
              "of the filtered table), end; a backfilled event equals the live event of the same row state; KeysOnly leaks nothing. The 'no gap "
              "while the feed starts' clause is schedule-level (F16) and not claimed by this check.",
              note="Partial: the start-up race is outside what holds."),
 "C10": claim("Proved on the model: a reopen observes exactly the committed rows / collections / high-water marks whatever the dying process held; "
              "a transaction either leaves the persisted state untouched or commits row + bucket.lastCas + collection.lastCas together under one "
              "CAS; every single-row call is one such transaction; pending expirations are re-armed on reopen. ASSUMED: SQLite's atomic durable "
              "commit (WAL) and that all statements of a call run on its one transaction - exercised by killing a child process (SIGKILL) at "
              "instrumentation points before/inside/after every transaction and reopening in a fresh process, with the model as oracle.",
              technique="Lean 4 theorems over an executable model + fault enumeration (kill at every instrumentation point) against the model",
              note="Partial: power loss (fsync behaviour) is not exercised, only process death."),
 "C11": claim("Proved: a call addressed to collection c leaves the whole Coll value of every other collection unchanged (single-row entry points "
              "and Update loops), and posts to no feed of another collection; validated on the real code by re-reading every key of every "
              "collection after every operation. DropDataStore / re-creation and views are not modelled yet (partial)."),
 "C13": claim("Proved on the registry model: Close is idempotent per handle and touches no other handle's record; while a second reference is "
              "held Close only decrements; a closed handle's calls fail with the closed error; CreateNew fails iff the bucket exists, "
              "ReOpenExisting iff it does not, another URL is refused; handles share the store; CloseAndDelete removes entry, count and files; "
              "Close never touches stored data. The reference-count invariant over whole histories is validated by the correspondence "
              "(bucketCount / GetBucketNames / directories compared after every step), not proved; racing opens/closes by forced schedules.",
              note="Partial: count = number of open handles is checked dynamically, not proved."),
 "C14": claim("Proved for every reachable state (all write paths, touches, PreserveExpiry, WithMeta, sweeps, purge, reopen): if any stored "
              "document has expiry T the expiry manager's timer is armed for a time <= T; the sweep deletes only due keys and its Delete "
              "yields a tombstone with a deletion event; stored expiry = absolute(exp) / preserved / cleared per entry point. That the Go "
              "timer goroutine fires within seconds of the deadline is assumed; a real-time slice (2 s expiries, real clock) exercises it.",
              note="Partial: timer latency is a runtime assumption."),
 "C19": claim("Proved on the model: the keyspace of a collection is exactly one row (current id, body, xattrs) per stored row of that collection "
              "that has a body; queries over a collection are unaffected by operations that leave it alone; the iterator hands out each row "
              "once and stays exhausted. SQLite's evaluation of the statement is trusted; 6 family members have Lean twins and are "
              "diffed on both bucket kinds, and a monitor compares every result with the KV read-back.",
              note="Partial: SQL evaluation itself is trusted."),
 "C18": claim("Proved on the JSON object model: a set/remove at any dotted path preserves every other property, the addressed path then "
              "evaluates to the value (or is gone), SubdocInsert refuses an existing property and a missing document, a supplied CAS is "
              "honoured, and the call is a pure read+edit plan followed by one WriteCas conditional on the CAS read (so by C02 no concurrent "
              "update is lost). Go's decode/encode of the document (map[string]any, float64) is outside the model: see known finding F18.",
              note="Partial: the JSON round trip through Go values is not modelled."),
 "C15": claim("Proved: the delivered mark (what a stop persists as checkpoint) only ever moves to the CAS of a delivered event, so the checkpoint "
              "never exceeds the highest CAS delivered; a resumed run starts at checkpoint+1 and its backfill contains every stored row "
              "newer than the checkpoint and nothing else. The coverage clause is proved for in-order delivery (C15_cover_partial) and "
              "proved FALSE in general (C15_cover_full_false): with C08's overtaking schedule a write below the checkpoint is skipped - "
              "replayed on the real code through post.before and recorded as a known finding.",
              note="Partial: coverage fails under concurrent writers (F16)."),
 "C16": claim("Proved on the lifecycle model: an ended feed stays ended; its terminator, its collection's drop, bucket deletion and the last close "
              "of an on-disk bucket end it whichever handle they come through; a terminator ends only its own feed, a drop only that "
              "collection's feeds, closing a non-last handle (or any handle of an in-memory bucket) ends nothing; a stopped feed is given no "
              "further event. Goroutine-level facts (done closed exactly once, no callback after done) are observed on the real code: "
              "lifecycle scenarios on both bucket kinds compare the done state of every feed after every event with the model and probe that "
              "surviving feeds still receive events.",
              note="Partial: goroutine liveness is observed, not proved."),
 "C12": claim("Proved on the view model (views.lastCas, mapped rows per document, updateView's delete-and-remap of documents with cas > lastCas, "
              "the JOIN with documents, the SQL stage and sg-bucket's ProcessParsed stage): an index invariant (exact for every document not newer "
              "than the view's lastCas; unique keys; every CAS positive and not above the collection's mark) is preserved by EVERY entry point "
              "other than the WithMeta writes (StepInvariant over the whole step function: writes, deletes, resurrections, xattr-only writes, "
              "touches, purges and their cascade, expiry sweeps, reopening) and by queries; under it a non-stale query ranges over literally the "
              "map function applied from scratch to the current documents, for all histories, query placements and parameter combinations "
              "(C12_history_partial); without keys/grouping the query equals the CouchDB-semantics specification outright. The full statement is "
              "false with WithMeta writes (C12_full_false; open known finding, replayed on the real code). The JavaScript engine, SQLite's ORDER BY "
              "with the registered JSON collation and sg-bucket's helpers are modelled (hand-written twins of 4 map functions) and tied by the "
              "correspondence check plus an independent Python oracle over the KV read-back. One defect found this way was repaired (fix: e833c7c).",
              note="Partial: WithMeta histories excluded from the theorem (known finding F11); stale=update_after (background goroutine) and include_docs not exercised; "
                   "keys is not combined with descending/limit, limit not with reduce, grouping not used on object keys (semantics debatable / sg-bucket collator limitation)."),
 "C20": claim("Proved on the shutdown model (atomic actions between instrumentation points): under every sequence of actions nothing panics and "
              "no expiry timer is armed on a closed store; if only refused calls follow the shutdown no feed goroutine is left; a lock ranking "
              "rising along every edge of the lock-order graph REGENERATED from the source excludes deadlock among all threads but the timer "
              "callback (general theorem + decide over the extracted edges). Runtime facts are observed: 40 forced schedules, one child process "
              "each, place Close / CloseAndDelete / DropDataStore against writers, feed start, feed delivery and the timer callback and compare "
              "panic / hang / leaked goroutine / other-bucket-usable with the model's verdict. Two defects found this way were repaired in /repo "
              "(fix: 526ea24, 1734add); the third (feed registration completing after the shutdown leaks its goroutine) is an open known finding.",
              note="Partial: goroutine exit, database/sql behaviour and timing are observed under forced schedules, not proved; view updates in flight are not covered."),
 "C17": claim("Proved: every single-row entry point either changes no row or raises the addressed key's revSeqNo by exactly one (1 for a key "
              "without a row), live and backfill events and the virtual xattrs report the stored number. Compound calls via correspondence + monitor."),
}

NOT_APPLICABLE = {}

NOTES = ("All checks share one machinery: ./check <id>. DESIGN.md explains the model, the tie and the verdict rules. "
         "replays/ holds replay files written by failing runs; known_findings.json lists recorded defects (fixed: entries suppress nothing).")
