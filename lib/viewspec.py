"""An independent oracle for view queries (C12): the map-function family re-implemented over the KV read-back of a collection,
CouchDB's JSON collation, and the query parameters' meaning. Shares no code with the Lean model or with rosmar."""
import functools, json

# -- collation: null < false < true < numbers < strings < arrays < objects; arrays element-wise, shorter first; objects as the
#    sequence key, value, key, value ... (what comparing the JSON token streams amounts to); strings by code point (the harness only
#    emits lower-case ASCII / digits, where the locale collator agrees)


def rank(v):
    if v is None:
        return 0
    if v is False:
        return 1
    if v is True:
        return 2
    if isinstance(v, (int, float)):
        return 3
    if isinstance(v, str):
        return 4
    if isinstance(v, list):
        return 5
    return 6


def cmp(a, b):
    return (a > b) - (a < b)


def collate(a, b):
    ra, rb = rank(a), rank(b)
    if ra != rb:
        return cmp(ra, rb)
    if ra in (3, 4):
        return cmp(a, b)
    if ra == 5:
        for x, y in zip(a, b):
            c = collate(x, y)
            if c:
                return c
        return cmp(len(a), len(b))
    if ra == 6:
        ia, ib = list(a.items()), list(b.items())      # insertion order = order of the marshalled text (sorted keys)
        for (ka, va), (kb, vb) in zip(ia, ib):
            if ka != kb:
                return cmp(ka, kb)
            c = collate(va, vb)
            if c:
                return c
        return cmp(len(ia), len(ib))
    return 0


def sort_keys(v):
    if isinstance(v, dict):
        return {k: sort_keys(v[k]) for k in sorted(v)}
    if isinstance(v, list):
        return [sort_keys(x) for x in v]
    return v


# -- the map functions (same numbering as harness/view.go)

def map_rows(m, doc_id, doc, xattrs):
    """doc: parsed body ({} when the row has no JSON body); xattrs: {name: parsed value}."""
    out = []
    if m == 0:
        out.append((doc_id, None))
    elif m == 1:
        # a JSON null property reaches the function as `undefined` (the engine converts Go values)
        if isinstance(doc, dict) and doc.get("a") is not None:
            out.append((doc["a"], doc.get("b")))
    elif m == 2:
        if isinstance(doc, dict) and isinstance(doc.get("tags"), list):
            for i, t in enumerate(doc["tags"]):
                out.append(([t, i], 1))
    elif m == 3:
        if xattrs and xattrs.get("_sync") is not None:
            out.append((doc_id, xattrs["_sync"]))
    return [(sort_keys(k), sort_keys(v)) for k, v in out]


def fresh_rows(m, docs):
    """docs: {key: dict(body=<text or None>, is_json=bool, xattrs={name: raw text})} -> [(id, key, value)] sorted by key then id."""
    rows = []
    for k, d in docs.items():
        if d["body"] is None and not d["xattrs"]:
            continue
        if d["body"] is not None and d["is_json"] and d["body"] != "":      # an empty body reaches the map function as {}
            try:
                doc = json.loads(d["body"])
            except ValueError:
                continue        # the map function throws on this document: it contributes nothing
        else:
            doc = {}
        try:
            xs = {n: json.loads(t) for n, t in d["xattrs"].items()}
        except ValueError:
            continue
        for key, val in map_rows(m, k, doc, xs):
            rows.append((k, key, val))
    rows.sort(key=functools.cmp_to_key(lambda a, b: collate(a[1], b[1]) or cmp(a[0], b[0])))
    return rows


def key_prefix(k, n):
    return k[:n] if isinstance(k, list) else k


def expected(m, reduce_fn, docs, p):
    """The rows a non-stale query with parameters p must return (CouchDB semantics)."""
    rows = fresh_rows(m, docs)
    if p.get("keys") is not None:
        sel = []
        for t in p["keys"]:
            sel += [r for r in rows if collate(r[1], t) == 0]
    else:
        lo = hi = None
        hi_incl = True
        lo_incl = True
        # a JSON null parameter is a Go nil in the parameter map: it cannot be told from an absent one
        if p.get("key") is not None:
            lo = hi = ("v", p["key"])
        else:
            if p.get("startkey") is not None:
                lo = ("v", p["startkey"])
            if p.get("endkey") is not None:
                hi = ("v", p["endkey"])
            hi_incl = p.get("inclusive_end", True)
        if p.get("descending"):
            lo, hi = hi, lo
            lo_incl, hi_incl = hi_incl, True
        sel = []
        for r in rows:
            if lo is not None:
                c = collate(r[1], lo[1])
                if c < 0 or (c == 0 and not lo_incl):
                    continue
            if hi is not None:
                c = collate(r[1], hi[1])
                if c > 0 or (c == 0 and not hi_incl):
                    continue
            sel.append(r)
    if p.get("descending"):
        sel = sel[::-1]
    if p.get("limit") is not None:
        sel = sel[:p["limit"]]
    if p.get("reduce", True) and reduce_fn:
        if not sel:
            return []

        def red(group):
            return len(group) if reduce_fn == "_count" else sum(v for _, _, v in group if isinstance(v, (int, float)))
        lvl = 0 if p.get("group") else p.get("group_level")
        if lvl is None:
            return [("", None, red(sel))]
        out, cur, curkey = [], [], None
        for r in sel:
            k = key_prefix(r[1], lvl) if lvl > 0 else r[1]
            if cur and collate(k, curkey) == 0:
                cur.append(r)
            else:
                if cur:
                    out.append(("", curkey, red(cur)))
                cur, curkey = [r], k
        out.append(("", curkey, red(cur)))
        return out
    return sel


def render(rows):
    return ";".join("%s|%s|%s" % (i, json.dumps(k, separators=(",", ":")), json.dumps(v, separators=(",", ":"))) for i, k, v in rows)
