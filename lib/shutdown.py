"""Shutdown safety (C20): forced schedules placing Close / CloseAndDelete / DropDataStore against a writer, a feed start, a feed
delivery and the expiry-timer callback at each instrumentation point. Each scenario runs in its own child process; the verdict is
about the process: no panic (recovered in a caller or fatal in a background goroutine), no hang, no feed goroutine left, every
racing call returns a value or an error, and an unrelated bucket still works afterwards."""
import json, os, subprocess
import vcheck as V

SET = 'set c0 k1 exp=0 raw=0 v={"w":1}'
SETEXP = 'set c0 k1 exp=1700000001 raw=0 v={"w":1}'


def park_writer(point, closer, line=SET, extra_wait_ms=0, kind="mem", pre=(), via=None):
    """writer parked at `point`, then the closer runs (in its own thread: it may have to wait for the writer), then the writer resumes."""
    s = [{"do": "run", "line": l} for l in pre]
    s += [{"do": "park", "thread": "W", "point": point}, {"do": "spawn", "thread": "W", "line": line},
          {"do": "await", "thread": "W", "point": point},
          {"do": "spawn", "thread": "C", "line": closer}, {"do": "sleep", "ms": 60},
          {"do": "release", "thread": "W"}, {"do": "join", "thread": "W"}, {"do": "join", "thread": "C"}]
    if extra_wait_ms:
        s.append({"do": "sleep", "ms": extra_wait_ms})
    s.append({"do": "run", "line": "shutdownstate"})
    return s


SCENARIOS = []


def add(name, steps, kind, acts, locks=None):
    """acts: the atomic actions of `Rosmar.Shutdown` in the order this schedule forces them; locks: the threads' (held>waited) lock
    configuration at the moment every thread of the schedule has been released (for the deadlock prediction)."""
    SCENARIOS.append({"name": name, "kind": kind, "steps": steps, "acts": acts, "locks": locks})


for kind in ("mem", "disk"):
    close_h0 = "closehandle" if kind == "mem" else "closestore"      # Close of the only handle: the store of an in-memory bucket stays
    for point in ("txn.begin", "txn.precommit", "txn.committed", "post.before"):
        add("%s/writer@%s-vs-CloseAndDelete" % (kind, point), park_writer(point, "cadh h0"), kind, ["txn", "closestore", "post"])
        add("%s/writer@%s-vs-Close" % (kind, point), park_writer(point, "hclose h0"), kind, ["txn", close_h0, "post"])
    for point in ("txn.begin", "post.before"):
        add("%s/writer@%s-vs-DropDataStore" % (kind, point),
            park_writer(point, "dropcoll c1 via=h0", line='set c1 k1 exp=0 raw=0 v={"w":1}')[:-1] + [{"do": "run", "line": "cadh h0"}, {"do": "run", "line": "shutdownstate"}],
            kind, ["txn", "drop", "post", "closestore"])
    add("%s/expiring-writer@post.before-vs-CloseAndDelete-then-timer" % kind, park_writer("post.before", "cadh h0", line=SETEXP, extra_wait_ms=1600), kind,
        ["txn", "closestore", "postexp", "fire"])
    add("%s/second-handle-closed-under-writer" % kind,
        park_writer("txn.begin", "hclose h1", pre=["hopen h1"])[:-1] + [{"do": "run", "line": 'set c0 k2 exp=0 raw=0 v={"w":2}'}, {"do": "run", "line": "shutdownstate"}],
        kind, ["txn", "closehandle", "post", "txn", "post"])
    # a second handle being opened while the bucket is being deleted under a writer (registry lock vs bucket mutex)
    add("%s/writer@txn.begin-vs-CloseAndDelete-vs-OpenBucket" % kind,
        [{"do": "park", "thread": "W", "point": "txn.begin"}, {"do": "spawn", "thread": "W", "line": SET},
         {"do": "await", "thread": "W", "point": "txn.begin"},
         {"do": "spawn", "thread": "C", "line": "cadh h0"}, {"do": "sleep", "ms": 40},
         {"do": "spawn", "thread": "O", "line": "hopen h1"}, {"do": "sleep", "ms": 40},
         {"do": "release", "thread": "W"}, {"do": "join", "thread": "W"}, {"do": "join", "thread": "C"}, {"do": "join", "thread": "O"},
         {"do": "run", "line": "shutdownstate"}], kind, ["txn", "closestore", "post"])
    # feed start-up racing with shutdown
    for closer, acts in (("cadh h0", ["closestore", "register"]), ("hclose h0", [close_h0, "register"]), ("dropcoll c1 via=h0", ["drop", "register", "closestore"])):
        tail = [{"do": "run", "line": "cadh h0"}] if closer.startswith("dropcoll") else []
        add("%s/feed-start@beforeregister-vs-%s" % (kind, closer.split(" ")[0]),
            [{"do": "park", "thread": "F", "point": "feed.beforeregister"}, {"do": "spawn", "thread": "F", "line": "feed f0 c1 bf=0"},
             {"do": "await", "thread": "F", "point": "feed.beforeregister"},
             {"do": "spawn", "thread": "C", "line": closer}, {"do": "sleep", "ms": 60},
             {"do": "release", "thread": "F"}, {"do": "join", "thread": "F"}, {"do": "join", "thread": "C"},
             {"do": "sleep", "ms": 100}] + tail + [{"do": "run", "line": "shutdownstate"}], kind, acts)
    # nothing races here: a live feed on a collection, the collection dropped, then the store shut down - the shutdown walks the same feed
    # list the drop has already been through
    for closer in ("cadh h0", "hclose h0"):
        cl = "closestore" if closer == "cadh h0" else close_h0
        add("%s/feed-then-DropDataStore-then-%s" % (kind, closer.split(" ")[0]),
            [{"do": "run", "line": "feed f0 c1 bf=none"}, {"do": "run", "line": "feed f1 c0 bf=none"},
             {"do": "run", "line": 'set c1 k1 exp=0 raw=0 v={"w":1}'}, {"do": "run", "line": "dropcoll c1 via=h0"},
             {"do": "run", "line": SET}, {"do": "spawn", "thread": "C", "line": closer}, {"do": "join", "thread": "C"},
             {"do": "sleep", "ms": 100}] + ([{"do": "run", "line": "cadh h0"}] if (kind == "mem" and closer == "hclose h0") else []) +
            [{"do": "run", "line": "shutdownstate"}], kind, ["register", "register", "txn", "post", "drop", "txn", "post", cl])
    # feed delivery in progress
    add("%s/feed-delivering-vs-CloseAndDelete" % kind,
        [{"do": "run", "line": "feed f0 c0 bf=none"}, {"do": "claim", "thread": "D", "point": "feed.deliver"},
         {"do": "park", "thread": "D", "point": "feed.deliver"}, {"do": "run", "line": SET},
         {"do": "await", "thread": "D", "point": "feed.deliver"},
         {"do": "spawn", "thread": "C", "line": "cadh h0"}, {"do": "sleep", "ms": 60},
         {"do": "release", "thread": "D"}, {"do": "join", "thread": "C"}, {"do": "sleep", "ms": 100}, {"do": "run", "line": "shutdownstate"}],
        kind, ["register", "txn", "post", "closestore"])
    # the expiry timer callback
    for point in ("expiry.fire", "expiry.locked"):
        for closer in ("cadh h0", "hclose h0"):
            cl = "closestore" if closer == "cadh h0" else close_h0
            if point == "expiry.fire":
                acts, locks = ["txn", "postexp", cl, "fire"], None      # the closer runs to completion first, then the callback starts
            else:
                acts = ["txn", "postexp", "fire", cl]                    # the callback already owns the expiry mutex: it goes first - if it can
                # CloseAndDelete stops the expiry manager before taking the bucket mutex (1734add): it waits holding nothing
                locks = ("expiryManager.mutex>Bucket.mutex;>expiryManager.mutex" if closer == "cadh h0"
                         else "expiryManager.mutex>Bucket.mutex;bucketRegistry.lock>expiryManager.mutex")
            add("%s/timer@%s-vs-%s" % (kind, point, closer.split(" ")[0]),
                [{"do": "run", "line": 'set c0 k1 exp=1700000005 raw=0 v={"w":1}'}, {"do": "run", "line": "now s=1700000010"},
                 {"do": "park", "thread": "T", "point": point}, {"do": "spawn", "thread": "T", "line": "fire"},
                 {"do": "await", "thread": "T", "point": point},
                 {"do": "spawn", "thread": "C", "line": closer}, {"do": "sleep", "ms": 80},
                 {"do": "release", "thread": "T"}, {"do": "join", "thread": "T"}, {"do": "join", "thread": "C"},
                 {"do": "run", "line": "shutdownstate"}], kind, acts, locks)


def model_verdicts():
    """The Lean model's prediction for every scenario (one driver run)."""
    os.makedirs(V.WORK, exist_ok=True)
    path = os.path.join(V.WORK, "shutdown_model_%d.ops" % os.getpid())
    lines = []
    for sc in SCENARIOS:
        lines.append("sd acts=" + ",".join(sc["acts"]))
        lines.append("sd locks=" + (sc["locks"] or "none"))
    with open(path, "w") as f:
        f.write("\n".join(lines) + "\n")
    out = V.run_model(path)
    pred = {}
    for i, sc in enumerate(SCENARIOS):
        a, b = out[2 * i], out[2 * i + 1]
        if not a.startswith("r=ok verdict=") or not b.startswith("r=ok deadlock="):
            raise V.MachineryError("shutdown model: unexpected driver output %r %r" % (a, b))
        v = a.split("verdict=")[1]
        if sc["locks"] and b.endswith("true"):
            v = "hang"
        pred[sc["name"]] = v
    return pred


def run_one(sc):
    os.makedirs(V.WORK, exist_ok=True)
    inp = os.path.join(V.WORK, "shutdown_%d.in" % os.getpid())
    with open(inp, "w") as f:
        f.write(json.dumps(sc) + "\n")
    try:
        p = subprocess.run([V.HARNESS, "sched", "-in", inp], env=V.GOENV, capture_output=True, text=True, timeout=90)
    except subprocess.TimeoutExpired:
        return {"verdict": "hang", "why": "the child process did not finish within 90 s"}
    out = [json.loads(l) for l in p.stdout.splitlines() if l.strip().startswith("{")]
    if not out:
        tail = (p.stderr or "")[-1500:]
        first = next((l for l in (p.stderr or "").splitlines() if l.startswith(("panic:", "fatal error:"))), "")
        return {"verdict": "crash", "why": "the child process died (exit %s): %s" % (p.returncode, first), "stderr": tail}
    r = out[0]
    if r.get("stuck"):
        return {"verdict": "hang", "why": "a call never returned under this schedule (deadlock)", "results": r.get("results"), "trace": r.get("trace"),
                "goroutines": (r.get("goroutines") or "")[:4000]}
    res = r.get("results", [])
    for x in res:
        if x.get("result", "").startswith("await-timeout"):
            return {"verdict": "machinery", "why": "a thread never reached its park point: " + x["result"], "results": res}
    for x in res:
        if "panic" in x.get("result", ""):
            return {"verdict": "panic", "why": "a call panicked: %s -> %s" % (x.get("line") or x.get("thread"), x["result"]), "results": res}
    last = res[-1]["result"] if res else ""
    store_shut = "closestore" in sc["acts"]
    if store_shut and "activefeeds=0" not in last:
        return {"verdict": "leak", "why": "feed goroutines still running after shutdown: " + last, "results": res}
    if "other=ok" not in last:
        return {"verdict": "blocked", "why": "an unrelated bucket could not be used afterwards: " + last, "results": res}
    return {"verdict": "ok", "results": res}


SAME = {"ok": ("ok",), "leak": ("leak",), "panic": ("panic", "crash"), "armed": ("crash", "panic"), "hang": ("hang",)}


def site(sc, r):
    """Identify a failure by what failed, not by the schedule that showed it."""
    v, why = r["verdict"], r.get("why", "")
    dump = r.get("goroutines") or ""
    if v in ("panic", "crash") and ("expiryerror" in why or "Error expiring docs" in why):
        return "expiry-callback-after-store-closed-panics"
    if v == "hang" and "expiryManager).stop" in dump and "expiryManager).runExpiry" in dump:
        return "expiry-mutex-vs-bucket-mutex-deadlock"
    if v == "leak" and "feed-start@beforeregister" in sc["name"]:
        return "feed-registered-after-store-closed-keeps-running"
    return sc["name"] + "/" + v


def run(tier, seed, log, only=None):
    cov, viols = [], []
    pred = model_verdicts()
    runs = []
    for sc in SCENARIOS:
        if only and sc["name"] not in only:
            continue
        runs.append(sc)
        if tier == "thorough":
            # the same schedule with other delays between "the closer starts" and "the parked thread resumes"
            for ms in (0, 5, 250):
                v = json.loads(json.dumps(sc))
                for st in v["steps"]:
                    if st.get("do") == "sleep" and st.get("ms") in (60, 80):
                        st["ms"] = ms
                v["variant_of"] = sc["name"]
                runs.append(v)
    for sc in runs:
        r = run_one(sc)
        if r["verdict"] == "machinery":
            raise V.MachineryError("shutdown scenario %s: %s" % (sc["name"], r["why"]))
        m = pred[sc.get("variant_of", sc["name"])]
        agree = r["verdict"] in SAME[m]
        cov.append({"scenario": sc["name"], "implementation": r["verdict"], "model": m, "agree": agree})
        if r["verdict"] != "ok":
            viols.append({"kind": "shutdown", "signature": "C20/shutdown/" + site(sc, r), "msg": "%s: %s" % (sc["name"], r["why"]),
                          "ops": [], "scenario": sc, "detail": r, "model_verdict": m, "model_agrees": agree})
        elif not agree:
            # the model predicts a failure the implementation no longer shows: the model is pessimistic there (a repaired defect);
            # the property is not violated by this, and the theorems proved do not rest on that part of the model
            cov[-1]["note"] = "model predicts %s but the implementation behaved; known finding no longer reproduces?" % m
    return {"shutdown_scenarios": cov, "scenarios_run": len(cov), "model_agreement": sum(1 for c in cov if c["agree"]),
            "exhaustive_schedules": False}, viols


if __name__ == "__main__":
    import sys
    V.prepare({})
    c, v = run("quick", 1, print, only=set(sys.argv[1:]) or None)
    for x in c["shutdown_scenarios"]:
        print(x)
    for x in v:
        print("VIOL", x["signature"], x["model_agrees"], x["msg"][:200])
