"""Trace monitors: each is an automaton over the observable trace of ONE program (op lines + result lines)
that rejects only what the property's own text forbids. They are run over every trace the implementation
produces (always on) and are the search that turns a broken proof / correspondence into a concrete replay.
Where a property is silent the monitor accepts (see DESIGN.md section 7, "Reading the properties")."""
import re
from vcheck import rb_fields, ev_fields


def parse_op(line):
    t = line.split(" ")
    name, pos, args = t[0], [], []
    for x in t[1:]:
        if x == "":
            continue
        if "=" in x:
            k, v = x.split("=", 1)
            args.append((k, v))
        else:
            pos.append(x)
    return name, pos, args


def arg(args, k, d=None):
    for a, v in args:
        if a == k:
            return v
    return d


def res_fields(res):
    d = {}
    for t in res.split(" "):
        if "=" in t:
            k, v = t.split("=", 1)
            d.setdefault(k, v)
    return d


def xmap(text):
    """Parse the stored xattrs text '={"a":..,"b":..}' / '~' into {name: raw}. Top-level split only."""
    if text in (None, "", "~"):
        return {}
    s = text[1:] if text.startswith("=") else text
    if not s.startswith("{"):
        return {"?": s}
    out, i, n = {}, 1, len(s)
    while i < n and s[i] != "}":
        if s[i] == ",":
            i += 1
            continue
        assert s[i] == '"', s
        j = s.index('"', i + 1)
        key = s[i + 1:j]
        i = j + 2  # skip ":
        depth, k, instr = 0, i, False
        while k < n:
            ch = s[k]
            if instr:
                if ch == "\\":
                    k += 1
                elif ch == '"':
                    instr = False
            elif ch == '"':
                instr = True
            elif ch in "{[":
                depth += 1
            elif ch in "}]":
                if depth == 0:
                    break
                depth -= 1
            elif ch == "," and depth == 0:
                break
            k += 1
        out[key] = s[i:k]
        i = k
    return out


MAX_DELTA = 60 * 60 * 24 * 30

MUTATORS = {"add", "set", "wcas", "remove", "delete", "touch", "gat", "incr", "setx", "rmx", "updx", "wwx", "wtx", "wrx",
            "uxdb", "delx", "dsp", "swm", "dwm", "update", "wuwx", "wsd", "sdi"}
BUCKET_LEVEL = {"purge", "fire"}


def succeeded(name, rf):
    """Did the call report a successful mutation?"""
    if rf.get("r") != "ok":
        return False
    if name == "add":
        return rf.get("added") == "true"
    if name == "update":
        return rf.get("cas", "0") != "0"
    return True


def refused(name, rf):
    return not succeeded(name, rf)


def crc32c(data: bytes) -> int:
    crc = 0xFFFFFFFF
    for b in data:
        crc ^= b
        for _ in range(8):
            crc = (crc >> 1) ^ 0x82F63B78 if crc & 1 else crc >> 1
    return crc ^ 0xFFFFFFFF


def cas_string(cas: int) -> str:
    return "0x" + cas.to_bytes(8, "little").hex()


class Trace:
    """Walks one program, maintaining the latest readback per (collection, key)."""

    def __init__(self, ops, results):
        self.ops, self.results = ops, results

    def steps(self):
        last = {}       # (c,k) -> rb dict
        feeds = {}      # id -> dict(coll, keysonly, dump)
        i, n = 0, len(self.ops)
        while i < n:
            name, pos, args = parse_op(self.ops[i])
            res = self.results[i] if i < len(self.results) else ""
            yield i, name, pos, args, res, last, feeds
            if name == "rb" and len(pos) >= 2 and res.startswith("row="):
                last[(pos[0], pos[1])] = rb_fields(res)
            if name == "feed" and len(pos) >= 2:
                feeds[pos[0]] = {"coll": pos[1], "keysonly": arg(args, "keysonly", "0") != "0", "dump": arg(args, "dump", "0") != "0",
                                 "bf": arg(args, "bf", "none")}
            i += 1


def following(ops, results, i, want_rb_of=None, want_drains=True):
    """Observer lines that directly follow op i: readbacks {(c,k): fields} and drains {feed: [events]}."""
    rbs, drains = {}, {}
    j = i + 1
    while j < len(ops):
        name, pos, args = parse_op(ops[j])
        if name == "rb":
            if j < len(results) and results[j].startswith("row="):
                rbs[(pos[0], pos[1])] = rb_fields(results[j])
        elif name == "drain":
            if j < len(results):
                drains[pos[0]] = [ev_fields(t) for t in results[j].split(" ") if t.startswith("ev:")]
                drains[pos[0] + "#status"] = results[j].split(" ")[0]
        elif name in ("lastcas", "keys", "expstate"):
            pass
        else:
            break
        j += 1
    return rbs, drains


ROWF = ["row", "row.v", "row.cas", "row.exp", "row.json", "row.x", "row.tomb", "row.rev"]


def row_of(d):
    return tuple(d.get(f, "") for f in ROWF) if d else ("row=0",) + ("",) * 7


def absent(d):
    return d is None or d.get("row") == "row=0"


def has_body(d):
    return (not absent(d)) and d.get("row.v", "~") != "~"


def viol(rule, i, msg):
    return {"rule": rule, "line": i, "msg": msg}


# ---------------------------------------------------------------------------------------------------

def mon_C01(ops, results):
    """reads agree with the stored version; a failed operation leaves the document as it was; the CAS a write
    returns is the CAS reads then report."""
    out = []
    now = 1700000000
    for i, name, pos, args, res, last, feeds in Trace(ops, results).steps():
        if name == "now":
            now = int(arg(args, "s", str(now)))
        if name == "rb" and res.startswith("row="):
            d = rb_fields(res)
            body = d.get("row.v", "~")
            cas = d.get("row.cas", "0")
            if absent(d):
                for f, want in (("gr", "missing:~:0"), ("g", "missing:~:0"), ("ex", "ok:false"), ("ge", "missing:0")):
                    if d.get(f) != want:
                        out.append(viol("C01.never-written-or-purged-is-missing", i, "%s=%s for a key with no row" % (f, d.get(f))))
                if not d.get("gwx", "").startswith("missing:"):
                    out.append(viol("C01.never-written-or-purged-is-missing", i, "gwx=%s" % d.get("gwx")))
            elif body == "~":
                if not d.get("gr", "").startswith("missing:") or d.get("ex") != "ok:false":
                    out.append(viol("C01.deleted-is-missing", i, "gr=%s ex=%s on a bodiless row" % (d.get("gr"), d.get("ex"))))
                if d.get("gwx", "").startswith("ok:") and not d["gwx"].startswith("ok:~:"):
                    out.append(viol("C01.deleted-is-missing", i, "GetWithXattrs returns a body for a deleted document"))
            else:
                if d.get("gr") != "ok:%s:%s" % (body, cas) or d.get("g") != "ok:%s:%s" % (body, cas):
                    out.append(viol("C01.read-returns-last-write", i, "GetRaw/Get %s vs stored %s cas %s" % (d.get("gr"), body, cas)))
                if d.get("ex") != "ok:true":
                    out.append(viol("C01.read-returns-last-write", i, "Exists=%s for a live document" % d.get("ex")))
                if d.get("ge") != "ok:%s" % d.get("row.exp"):
                    out.append(viol("C01.read-returns-last-write", i, "GetExpiry=%s vs stored %s" % (d.get("ge"), d.get("row.exp"))))
                if not d.get("gwx", "").startswith("ok:%s:%s:" % (body, cas)):
                    out.append(viol("C01.read-returns-last-write", i, "GetWithXattrs=%s vs stored %s cas %s" % (d.get("gwx"), body, cas)))
        elif name == "fire":
            # the only thing an expiry sweep may change is a document whose expiry is due
            rbs, _ = following(ops, results, i)
            for key, after in rbs.items():
                before = last.get(key)
                if before is None or absent(before):
                    continue
                e = int(before.get("row.exp", "0"))
                if not (0 < e <= now) and row_of(before) != row_of(after):
                    out.append(viol("C01.changed-without-a-mutation", i, "%s/%s (expiry %d, now %d) reads differently after an expiry sweep: %s -> %s" % (
                        key[0], key[1], e, now, row_of(before), row_of(after))))
        elif name in MUTATORS and len(pos) >= 2:
            rf = res_fields(res)
            rbs, _ = following(ops, results, i)
            before, after = last.get((pos[0], pos[1])), rbs.get((pos[0], pos[1]))
            if after is None or res.startswith("r=panic") or res.startswith("r=hang"):
                continue
            if refused(name, rf) and (before is not None) and row_of(before) != row_of(after):
                out.append(viol("C01.error-leaves-document-unchanged", i, "%s returned %s but the row changed: %s -> %s" % (name, res, row_of(before), row_of(after))))
            if succeeded(name, rf) and "cas" in rf and name not in ("wsd",) and rf["cas"] != after.get("row.cas"):
                out.append(viol("C01.returned-cas-is-stored-cas", i, "%s returned cas %s, stored %s" % (name, rf["cas"], after.get("row.cas"))))
            # the expiry left by a successful body write is the one it was given
            if succeeded(name, rf) and name in ("set", "add", "wcas", "incr") and not absent(after) and arg(args, "exp") is not None:
                if name == "wcas" and arg(args, "v") is None:
                    continue
                if name == "set" and arg(args, "pe", "0") != "0" and before is not None and not absent(before):
                    continue
                e = int(arg(args, "exp", "0"))
                want = e + now if 0 < e <= MAX_DELTA else e
                if after.get("ge") not in ("ok:%d" % want,) and after.get("row.v", "~") != "~":
                    out.append(viol("C01.expiry-of-last-write", i, "%s with exp=%d (now %d) succeeded but GetExpiry reports %s, expected %d" % (name, e, now, after.get("ge"), want)))
    return out


def insert_style(name, args, before):
    """Is this call one of C06's insert-only writes? Returns the kind or None."""
    if name == "add":
        return "add"
    if name == "wrx":
        return "wrx"
    if name == "wcas":
        opt = int(arg(args, "opt", "0"))
        cas = int(arg(args, "cas", "0"))
        if opt & 16:
            return None
        if cas == 0:
            return "wcas0"
        if opt & 2 and not absent(before):
            return "wcasAddOnly"
    return None


def mon_C06(ops, results):
    out = []
    for i, name, pos, args, res, last, feeds in Trace(ops, results).steps():
        if name not in ("add", "wrx", "wcas", "wwx") or len(pos) < 2 or res.startswith("r=panic"):
            continue
        rf = res_fields(res)
        key = (pos[0], pos[1])
        if key not in last:
            continue   # the prior state of the key was not observed
        before = last[key]
        rbs, _ = following(ops, results, i)
        after = rbs.get(key)
        kind = insert_style(name, args, before)
        ok = succeeded(name, rf)
        existence_refusal = (name == "add" and rf.get("r") == "ok" and rf.get("added") == "false") or rf.get("r") in ("keyexists", "casmismatch")
        if kind:
            if has_body(before) and ok:
                out.append(viol("C06.never-overwrites-live", i, "%s succeeded over a live document (%s)" % (name, before.get("row.v"))))
            if not has_body(before) and existence_refusal:
                out.append(viol("C06.always-creates-absent", i, "%s refused (%s) although the key has no body" % (name, res)))
            if existence_refusal and after is not None and row_of(before) != row_of(after):
                out.append(viol("C06.refusal-leaves-untouched", i, "refused %s changed the row" % name))
        if name == "wwx" and int(arg(args, "cas", "1")) == 0:
            if ok and not absent(before):
                out.append(viol("C06.wwx-cas0-only-if-absent", i, "WriteWithXattrs(cas=0) succeeded on an existing row"))
            if not ok and after is not None and row_of(before) != row_of(after):
                out.append(viol("C06.refusal-leaves-untouched", i, "refused wwx changed the row"))
    return out


def mon_C05(ops, results):
    out = []
    for i, name, pos, args, res, last, feeds in Trace(ops, results).steps():
        if name == "rb" and res.startswith("row=1"):
            d = rb_fields(res)
            nobody = d.get("row.v", "~") == "~"
            if (d.get("row.tomb") == "1") != nobody:
                out.append(viol("C05.tombstone-iff-no-body", i, "tomb=%s but body %s" % (d.get("row.tomb"), "absent" if nobody else "present")))
            if nobody and (d.get("ex") != "ok:false" or not d.get("gr", "").startswith("missing")):
                out.append(viol("C05.observers-agree", i, "deleted document readable: ex=%s gr=%s" % (d.get("ex"), d.get("gr"))))
            if nobody and d.get("gwx", "").startswith("ok:") and not d["gwx"].startswith("ok:~:"):
                out.append(viol("C05.observers-agree", i, "GetWithXattrs returns a body for a tombstone"))
        elif name in MUTATORS and len(pos) >= 2 and not res.startswith("r=panic"):
            rf = res_fields(res)
            key = (pos[0], pos[1])
            rbs, drains = following(ops, results, i)
            after, before = rbs.get(key), last.get(key)
            if after is None or not succeeded(name, rf):
                continue
            if name in ("delete", "remove"):
                names = xmap(after.get("row.x", "~")).keys()
                if after.get("row.v") != "~" or after.get("row.exp") != "0" or any(not n.startswith("_") for n in names):
                    out.append(viol("C05.delete-keeps-system-drops-user-and-expiry", i, "after %s: v=%s exp=%s xattrs=%s" % (name, after.get("row.v"), after.get("row.exp"), sorted(names))))
                if before is not None:
                    want = {k: v for k, v in xmap(before.get("row.x", "~")).items() if k.startswith("_")}
                    if xmap(after.get("row.x", "~")) != want:
                        out.append(viol("C05.delete-keeps-system-drops-user-and-expiry", i, "system xattrs not kept intact"))
            if before is not None and not absent(before) and not has_body(before) and has_body(after):
                named = set(k[2:] for k, _ in args if k.startswith("x.")) | ({arg(args, "xk")} if name == "uxdb" else set())
                if name in ("swm",):
                    named = set(xmap("=" + arg(args, "x", "{}")).keys())
                leftover = [n for n in xmap(after.get("row.x", "~")) if n not in named]
                if leftover:
                    out.append(viol("C05.resurrection-drops-tombstone-xattrs", i, "%s gave a tombstone a body but kept xattrs %s" % (name, leftover)))
            # live events agree with the stored document about deletion
            for fid, evs in drains.items():
                if fid.endswith("#status") or fid not in feeds or feeds[fid]["dump"] or feeds[fid]["coll"] != pos[0]:
                    continue
                for e in evs:
                    if e.get("k") == pos[1] and e.get("cas") == after.get("row.cas"):
                        if (e.get("op") == "del") != (after.get("row.v") == "~"):
                            out.append(viol("C05.observers-agree", i, "live event opcode %s but stored body %s" % (e.get("op"), after.get("row.v"))))
        elif name == "purge":
            rbs, _ = following(ops, results, i)
            for key, after in rbs.items():
                before = last.get(key)
                if before is None:
                    continue
                if absent(before) or not has_body(before):
                    if not absent(after):
                        out.append(viol("C05.purge-removes-exactly-tombstones", i, "%s/%s had no body but survives the purge" % key))
                elif row_of(before) != row_of(after):
                    out.append(viol("C05.purge-removes-exactly-tombstones", i, "live document %s/%s changed by the purge" % key))
        elif name == "drain" and len(pos) >= 1 and pos[0] in feeds and feeds[pos[0]]["dump"]:
            # backfilled events agree with the latest readback of their key
            coll = feeds[pos[0]]["coll"]
            for t in res.split(" "):
                if t.startswith("ev:{"):
                    e = ev_fields(t)
                    d = last.get((coll, e.get("k")))
                    if d is not None and d.get("row.cas") == e.get("cas"):
                        if (e.get("op") == "del") != (d.get("row.v") == "~"):
                            out.append(viol("C05.observers-agree", i, "backfill opcode %s for %s but stored body %s" % (e.get("op"), e.get("k"), d.get("row.v"))))
    return out


def cond_cas(name, args):
    """The expected-CAS argument of a CAS-conditional call of C02 (None when the call is not one)."""
    if name == "wcas":
        opt, cas = int(arg(args, "opt", "0")), int(arg(args, "cas", "0"))
        if cas == 0 or opt & 2:
            return None      # insert-style: C06
        return cas
    if name in ("remove", "wwx", "wtx", "updx", "rmx", "uxdb"):
        return int(arg(args, "cas", "0"))
    if name in ("swm", "dwm"):
        return int(arg(args, "old", "0"))
    if name in ("wsd", "sdi"):
        c = int(arg(args, "cas", "0"))
        return c if c != 0 else None
    return None


def mon_C02(ops, results):
    out = []
    for i, name, pos, args, res, last, feeds in Trace(ops, results).steps():
        if name not in MUTATORS or len(pos) < 2 or res.startswith("r=panic"):
            continue
        exp_cas = cond_cas(name, args)
        if exp_cas is None and name == "wcas" and int(arg(args, "cas", "0")) == 0 and not int(arg(args, "opt", "0")) & 2:
            # "0 = no such document": a WriteCas with CAS 0 must be refused while a live document exists
            b0 = last.get((pos[0], pos[1]), {"row": "row=0"})
            if succeeded(name, res_fields(res)) and has_body(b0):
                out.append(viol("C02.cas-zero-means-no-document", i, "wcas with CAS 0 succeeded over the live document %s" % b0.get("row.v")))
        if exp_cas is None:
            continue
        key = (pos[0], pos[1])
        # a key that no operation of the program has touched yet does not exist (every mutation is followed by a read-back)
        before = last.get(key, {"row": "row=0"})
        cur = 0 if absent(before) else int(before.get("row.cas", "0"))
        if name in ("wsd", "sdi") and not has_body(before):
            cur = 0 if absent(before) else cur
        rf = res_fields(res)
        rbs, _ = following(ops, results, i)
        after = rbs.get(key)
        ok = succeeded(name, rf)
        if ok and exp_cas != cur:
            out.append(viol("C02.applied-only-if-cas-current", i, "%s with expected CAS %d succeeded, current CAS was %d" % (name, exp_cas, cur)))
        if ok and exp_cas != 0 and name not in ("swm", "dwm") and after is not None and not absent(after) and int(after.get("row.cas", "0")) == exp_cas:
            # a successful conditional write consumes the version it was conditional on: otherwise a second writer holding the same CAS succeeds too
            out.append(viol("C02.success-consumes-the-version", i, "%s with expected CAS %d succeeded and the document still has CAS %d" % (name, exp_cas, exp_cas)))
        if not ok and exp_cas == cur and rf.get("r") == "casmismatch":
            out.append(viol("C02.current-cas-is-accepted", i, "%s reported a CAS mismatch although %d is the current CAS" % (name, cur)))
        if not ok and after is not None and row_of(before) != row_of(after):
            out.append(viol("C02.failed-write-changes-nothing", i, "%s failed (%s) but the row changed" % (name, res)))
        if not ok and exp_cas != cur and rf.get("r") not in ("casmismatch", "keyexists", "missing") and not rf.get("r", "").startswith(("need", "nil", "del", "upsert", "bad", "macro", "path", "toobig", "unimpl")):
            out.append(viol("C02.failure-class", i, "%s with a stale CAS failed with %s" % (name, rf.get("r"))))
    return out


XATTR_OPS = {"setx", "updx", "rmx", "wwx", "wtx", "wrx", "uxdb", "delx", "dsp", "wuwx"}
BODY_ONLY_OPS = {"set", "wcas", "incr", "update"}


def mon_C07(ops, results):
    out = []
    for i, name, pos, args, res, last, feeds in Trace(ops, results).steps():
        if name not in MUTATORS or len(pos) < 2 or res.startswith("r=panic"):
            continue
        key = (pos[0], pos[1])
        before = last.get(key)
        rbs, _ = following(ops, results, i)
        after = rbs.get(key)
        if before is None or after is None:
            continue
        rf = res_fields(res)
        ok = succeeded(name, rf)
        if not ok:
            if row_of(before) != row_of(after):
                out.append(viol("C07.all-or-nothing", i, "%s failed (%s) yet part of it was applied" % (name, res)))
            continue
        bx, ax = xmap(before.get("row.x", "~")), xmap(after.get("row.x", "~"))
        if name in XATTR_OPS:
            named = set(k[2:] for k, _ in args if k.startswith(("x.", "d."))) | ({arg(args, "xk")} if name == "uxdb" else set())
            stays_live = has_body(before) and has_body(after)
            stays_tomb = (not absent(before)) and not has_body(before) and not has_body(after)
            deletes_body = name in ("wtx", "uxdb", "delx") or (name == "wuwx" and "tomb" in (arg(args, "cb") or ""))
            if stays_live or stays_tomb:
                for n in set(bx) | set(ax):
                    if deletes_body and not n.startswith("_") and n not in ax:
                        continue   # tombstoning drops user xattrs (C05)
                    if n not in named and bx.get(n) != ax.get(n):
                        out.append(viol("C07.only-named-xattrs-change", i, "%s changed xattr %s which it does not name" % (name, n)))
            gave_body = arg(args, "v") is not None or name in ("wrx",) or (name == "wuwx" and "doc:" in (arg(args, "cb") or ""))
            if not gave_body and not deletes_body and before.get("row.v", "~") != after.get("row.v", "~"):
                out.append(viol("C07.xattr-write-keeps-body", i, "%s changed the body" % name))
            if name in ("setx", "rmx", "dsp") and before.get("row.exp", "0") != after.get("row.exp", "0"):
                out.append(viol("C07.xattr-write-keeps-expiry", i, "%s changed the expiry" % name))
            for k, v in args:
                if k.startswith("x.") and name != "wuwx" or (k.startswith("x.") and name == "wuwx"):
                    if k[2:] not in ax:
                        out.append(viol("C07.named-xattr-set", i, "%s: xattr %s not stored" % (name, k[2:])))
                if k.startswith("d.") and k[2:] in ax and not any(kk == "x." + k[2:] for kk, _ in args):
                    out.append(viol("C07.named-xattr-removed", i, "%s: xattr %s still stored" % (name, k[2:])))
            # macros resolve to the new CAS and to the checksum of the body as stored
            for k, v in args:
                if k.startswith("m."):
                    path = k[2:].split(".")
                    if path[0] in ax and path[0] in named:
                        body = after.get("row.v", "~")
                        raw = b"" if body == "~" else body[1:].encode()
                        want = cas_string(int(after.get("row.cas", "0"))) if v == "cas" else "0x%08x" % crc32c(raw)
                        if '"%s":"%s"' % (path[-1], want) not in ax[path[0]]:
                            out.append(viol("C07.macro-expansion", i, "macro %s at %s should expand to %s; stored %s" % (v, k[2:], want, ax[path[0]])))
        elif name in BODY_ONLY_OPS and has_body(before) and has_body(after):
            if bx != ax:
                out.append(viol("C07.body-write-keeps-xattrs", i, "%s on a live document changed its xattrs %s -> %s" % (name, bx, ax)))
    return out


def event_matches_row(e, d, keysonly):
    """Does a feed event describe the stored row d? Returns a list of mismatching fields."""
    bad = []
    nobody = d.get("row.v", "~") == "~"
    if (e.get("op") == "del") != nobody:
        bad.append("opcode")
    x = xmap(d.get("row.x", "~"))
    if not keysonly:
        if e.get("v", "~") != d.get("row.v", "~") and not (x and d.get("row.v") == "=" and e.get("v") == "~"):
            bad.append("body")
        ex = e.get("x", "~")
        want = "~" if not x else "{" + ",".join("%s=%s" % (k, x[k]) for k in sorted(x)) + "}"
        if ex != want:
            bad.append("xattrs")
    dt = int(d.get("row.json", "0")) + (4 if x else 0)
    if e.get("dt") != str(dt):
        bad.append("datatype")
    for f, g in (("cas", "row.cas"), ("exp", "row.exp"), ("rev", "row.rev")):
        if e.get(f) != d.get(g):
            bad.append(f)
    return bad


def mon_C08(ops, results):
    out = []
    for i, name, pos, args, res, last, feeds in Trace(ops, results).steps():
        if name not in MUTATORS or len(pos) < 2 or res.startswith("r=panic"):
            continue
        rf = res_fields(res)
        rbs, drains = following(ops, results, i)
        after = rbs.get((pos[0], pos[1]))
        ok = succeeded(name, rf)
        for fid, f in feeds.items():
            if f["dump"] or fid not in drains:
                continue
            if drains.get(fid + "#status") != "r=ok":
                out.append(viol("C08.delivery", i, "feed %s did not deliver (%s)" % (fid, drains.get(fid + "#status"))))
                continue
            evs = [e for e in drains[fid] if "marker" not in e]
            if f["coll"] != pos[0]:
                if evs:
                    out.append(viol("C08.only-own-collection", i, "feed %s on %s received an event for a write to %s" % (fid, f["coll"], pos[0])))
                continue
            expect = 1 if ok and name not in ("touch", "gat") else 0
            if len(evs) != expect:
                out.append(viol("C08.exactly-one-event-per-successful-mutation", i, "%s (%s): feed %s received %d events, expected %d" % (name, res, fid, len(evs), expect)))
                continue
            if expect and after is not None:
                e = evs[0]
                if e.get("k") != pos[1]:
                    out.append(viol("C08.faithful-event", i, "event key %s for a write to %s" % (e.get("k"), pos[1])))
                bad = event_matches_row(e, after, f["keysonly"])
                if bad:
                    out.append(viol("C08.faithful-event", i, "%s: event differs from the stored mutation in %s: %s vs %s" % (name, bad, e, row_of(after))))
    # per feed, CAS order
    seen = {}
    for i, name, pos, args, res, last, feeds in Trace(ops, results).steps():
        if name == "drain" and pos and pos[0] in feeds and not feeds[pos[0]]["dump"]:
            for t in res.split(" "):
                if t.startswith("ev:{"):
                    c = int(ev_fields(t).get("cas", "0"))
                    if pos[0] in seen and c <= seen[pos[0]] and not any(o.startswith(("swm", "dwm")) for o in ops):
                        out.append(viol("C08.cas-order", i, "feed %s received CAS %d after %d" % (pos[0], c, seen[pos[0]])))
                    seen[pos[0]] = c
    return out


def mon_C09(ops, results):
    out = []
    live_seen = {}      # (coll, key, cas) -> the event a live (full) feed delivered for that mutation
    seen_at = {}        # (coll, key, cas) -> index of the drain that showed it
    touched_at = {}     # (coll, key) -> index of the last touch (changes expiry and revision without a new CAS)
    for i, name, pos, args, res, last, feeds in Trace(ops, results).steps():
        if name in ("touch", "gat") and len(pos) >= 2:
            touched_at[(pos[0], pos[1])] = i
        if name == "drain" and pos and pos[0] in feeds and not feeds[pos[0]]["dump"] and not feeds[pos[0]]["keysonly"]:
            inbf = False
            for t in res.split(" "):
                if t == "ev:begin":
                    inbf = True
                elif t == "ev:end":
                    inbf = False
                elif t.startswith("ev:{") and not inbf:
                    e = ev_fields(t)
                    live_seen[(feeds[pos[0]]["coll"], e.get("k"), e.get("cas"))] = e
                    seen_at[(feeds[pos[0]]["coll"], e.get("k"), e.get("cas"))] = i
        if name != "drain" or not pos or pos[0] not in feeds or not feeds[pos[0]]["dump"]:
            continue
        f = feeds[pos[0]]
        toks_ = [t for t in res.split(" ") if t.startswith("ev:")]
        if not f["keysonly"]:
            # a backfilled event is the event a live feed delivered for the same mutation
            for t in toks_:
                if not t.startswith("ev:{"):
                    continue
                e = ev_fields(t)
                le = live_seen.get((f["coll"], e.get("k"), e.get("cas")))
                if le is not None:
                    fields = ["op", "dt", "v", "x"]
                    lk = (f["coll"], e.get("k"), e.get("cas"))
                    # mutations made after the live drain that showed the event: a touch changes expiry and revision without a new CAS
                    later_touch = any(parse_op(ops[j])[0] in ("touch", "gat") and parse_op(ops[j])[1][:2] == [f["coll"], e.get("k")]
                                      for j in range(max(0, seen_at.get(lk, 0) - 3), i))
                    if not later_touch:
                        fields += ["exp", "rev"]
                    diff = [g for g in fields if e.get(g) != le.get(g)]
                    if diff:
                        out.append(viol("C09.backfill-event-equals-live-event", i, "mutation %s/%s cas %s: backfill delivers %s, the live feed delivered %s (differs in %s)" % (
                            f["coll"], e.get("k"), e.get("cas"), {g: e.get(g) for g in diff}, {g: le.get(g) for g in diff}, diff)))
        if not res.startswith("r=ok"):
            out.append(viol("C09.dump-terminates", i, "dump feed did not finish: " + res.split(" ")[0]))
            continue
        if f["bf"] in ("none",):
            continue
        if not toks_ or toks_[0] != "ev:begin" or toks_[-1] != "ev:end":
            out.append(viol("C09.markers", i, "backfill not enclosed by begin/end markers"))
            continue
        evs = [ev_fields(t) for t in toks_[1:-1]]
        start = int(f["bf"]) if f["bf"].isdigit() else 0
        cas = [int(e.get("cas", "0")) for e in evs]
        if cas != sorted(cas):
            out.append(viol("C09.cas-order", i, "backfill not in CAS order: %s" % cas))
        keys = [e.get("k") for e in evs]
        if len(keys) != len(set(keys)):
            out.append(viol("C09.one-event-per-document", i, "a document appears twice in the backfill"))
        known = {k: d for (c, k), d in last.items() if c == f["coll"]}
        for k, d in known.items():
            if absent(d):
                if k in keys:
                    out.append(viol("C09.snapshot", i, "backfill delivered %s which has no row" % k))
                continue
            if int(d.get("row.cas", "0")) >= start and k not in keys:
                out.append(viol("C09.snapshot", i, "document %s (cas %s >= %d) missing from the backfill" % (k, d.get("row.cas"), start)))
            if int(d.get("row.cas", "0")) < start and k in keys:
                out.append(viol("C09.snapshot", i, "document %s (cas %s < %d) delivered by the backfill" % (k, d.get("row.cas"), start)))
        for e in evs:
            d = known.get(e.get("k"))
            if d is None or absent(d):
                continue
            if f["keysonly"]:
                if e.get("v", "~") != "~" or e.get("x", "~") != "~":
                    out.append(viol("C09.keys-only", i, "keys-only backfill leaked a value"))
                for g, h in (("cas", "row.cas"), ("rev", "row.rev"), ("exp", "row.exp")):
                    if e.get(g) != d.get(h):
                        out.append(viol("C09.faithful-event", i, "backfill event for %s: %s=%s, stored %s" % (e.get("k"), g, e.get(g), d.get(h))))
                if (e.get("op") == "del") != (d.get("row.v") == "~"):
                    out.append(viol("C09.faithful-event", i, "backfill opcode for %s" % e.get("k")))
            else:
                bad = event_matches_row(e, d, False)
                if bad:
                    out.append(viol("C09.faithful-event", i, "backfill event for %s differs from the stored document in %s: %s vs %s" % (e.get("k"), bad, e, row_of(d))))
    return out


def mon_C11(ops, results):
    out, now = [], 1700000000
    for i, name, pos, args, res, last, feeds in Trace(ops, results).steps():
        if name == "now":
            now = int(arg(args, "s", str(now)))
        if name == "fire":
            # the expiry sweep of one collection's documents must not touch another collection's document of the same key
            rbs, _ = following(ops, results, i)
            for key, after in rbs.items():
                before = last.get(key)
                if before is None or absent(before):
                    continue
                e = int(before.get("row.exp", "0"))
                if not (0 < e <= now) and row_of(before) != row_of(after):
                    due_elsewhere = [c for (c, k), d in last.items() if k == key[1] and c != key[0] and not absent(d) and 0 < int(d.get("row.exp", "0")) <= now]
                    if due_elsewhere:
                        out.append(viol("C11.expiry-in-one-collection-leaves-others", i, "%s/%s is not due but was changed by the sweep while %s/%s expired" % (key[0], key[1], due_elsewhere[0], key[1])))
        if name in ("feed", "stopfeed") and len(pos) >= 1 and not res.startswith("r=panic"):
            # starting / stopping a feed (which may read or write its checkpoint document) concerns the collection the feed follows, no other
            fcoll = pos[1] if name == "feed" and len(pos) >= 2 else (feeds.get(pos[0]) or {}).get("coll")
            rbs, _ = following(ops, results, i)
            for (c, k), after in rbs.items():
                before = last.get((c, k), {"row": "row=0"}) if fcoll else None
                if fcoll and c != fcoll and before is not None and row_of(before) != row_of(after):
                    out.append(viol("C11.other-collections-untouched", i, "%s of a feed on %s changed %s/%s: %s -> %s" % (name, fcoll, c, k, row_of(before), row_of(after))))
        if name not in MUTATORS or len(pos) < 2 or res.startswith("r=panic"):
            continue
        rbs, drains = following(ops, results, i)
        for (c, k), after in rbs.items():
            if c == pos[0]:
                continue
            before = last.get((c, k))
            if before is not None and row_of(before) != row_of(after):
                out.append(viol("C11.other-collections-untouched", i, "%s on %s/%s changed %s/%s: %s -> %s" % (name, pos[0], pos[1], c, k, row_of(before), row_of(after))))
        for fid, f in feeds.items():
            if not f["dump"] and fid in drains and f["coll"] != pos[0]:
                if [e for e in drains[fid] if "marker" not in e]:
                    out.append(viol("C11.other-collections-feeds", i, "feed on %s saw a write to %s" % (f["coll"], pos[0])))
    return out


def mon_C17(ops, results):
    out = []
    for i, name, pos, args, res, last, feeds in Trace(ops, results).steps():
        if name == "rb" and res.startswith("row=1"):
            d = rb_fields(res)
            rev = d.get("row.rev")
            gwx = d.get("gwx", "")
            m = re.search(r'\$document=\{"value_crc32c":"[^"]*","revid":"(\d+)"\}', gwx)
            if m and m.group(1) != rev:
                out.append(viol("C17.virtual-xattr", i, "$document says revid %s, row has %s" % (m.group(1), rev)))
            m = re.search(r'\$document\.revid="(\d+)"', gwx)
            if m and m.group(1) != rev:
                out.append(viol("C17.virtual-xattr", i, "$document.revid says %s, row has %s" % (m.group(1), rev)))
        if name not in MUTATORS or len(pos) < 2 or res.startswith("r=panic"):
            continue
        key = (pos[0], pos[1])
        if key not in last:
            continue
        before = last[key]
        rbs, drains = following(ops, results, i)
        after = rbs.get(key)
        if after is None:
            continue
        rf = res_fields(res)
        prev = 0 if absent(before) else int(before.get("row.rev", "0"))
        now_ = 0 if absent(after) else int(after.get("row.rev", "0"))
        if succeeded(name, rf):
            if now_ != prev + 1:
                out.append(viol("C17.plus-one-per-mutation", i, "%s succeeded: revision %d -> %d" % (name, prev, now_)))
            for fid, f in feeds.items():
                if f["dump"] or f["coll"] != pos[0] or fid not in drains:
                    continue
                for e in drains[fid]:
                    if e.get("k") == pos[1] and e.get("cas") == after.get("row.cas") and e.get("rev") != str(now_):
                        out.append(viol("C17.event-revno", i, "live event RevNo %s, row has %d" % (e.get("rev"), now_)))
        elif now_ != prev:
            out.append(viol("C17.unchanged-on-failure", i, "%s did not succeed (%s) but the revision moved %d -> %d" % (name, res, prev, now_)))
    # backfill RevNo
    for i, name, pos, args, res, last, feeds in Trace(ops, results).steps():
        if name == "drain" and pos and pos[0] in feeds and feeds[pos[0]]["dump"]:
            coll = feeds[pos[0]]["coll"]
            for t in res.split(" "):
                if t.startswith("ev:{"):
                    e = ev_fields(t)
                    d = last.get((coll, e.get("k")))
                    if d is not None and not absent(d) and d.get("row.cas") == e.get("cas") and d.get("row.rev") != e.get("rev"):
                        out.append(viol("C17.event-revno", i, "backfill RevNo %s for %s, row has %s" % (e.get("rev"), e.get("k"), d.get("row.rev"))))
    return out


def mon_C04(ops, results):
    """every CAS stamped on a successful regular mutation (and every draw of another bucket) exceeds every CAS handed out before,
    also across a restart; the persisted high-water mark covers every committed CAS."""
    out, high, high_bucket = [], 0, 0
    for i, name, pos, args, res, last, feeds in Trace(ops, results).steps():
        rf = res_fields(res)
        if name == "restart":
            # a new process: what this bucket committed, and what the other buckets of the process (hlc=) were already given
            high = max(high_bucket, int(arg(args, "hlc", "0")))
        if name == "draw":
            c = int(rf.get("cas", "0"))
            if c <= high:
                out.append(viol("C04.strictly-increasing", i, "draw returned %d after %d had been handed out" % (c, high)))
            high = max(high, c)
        elif name in MUTATORS and name not in ("touch", "gat", "swm", "dwm") and len(pos) >= 2 and succeeded(name, rf):
            rbs, _ = following(ops, results, i)
            after = rbs.get((pos[0], pos[1]))
            if after is None or absent(after):
                continue
            c = int(after.get("row.cas", "0"))
            if c <= high:
                out.append(viol("C04.strictly-increasing", i, "%s stamped CAS %d; %d had already been handed out" % (name, c, high)))
            if "cas" in rf and name != "update" and int(rf["cas"]) != c:
                out.append(viol("C04.stamped-with-drawn-cas", i, "%s returned %s but stored %d" % (name, rf["cas"], c)))
            high = max(high, c)
            high_bucket = max(high_bucket, c)
        elif name == "lastcas":
            b, h = int(rf.get("bucket", "0")), int(rf.get("hlc", "0"))
            if b > h:
                out.append(viol("C04.high-water-mark", i, "bucket.lastCas %d exceeds the clock %d" % (b, h)))
        elif name == "restart":
            h = int(rf.get("hlc", "0"))
            if res.startswith("r=ok") and h < int(arg(args, "hlc", "0")):
                out.append(viol("C04.open-never-lowers-the-clock", i, "the process clock stood at %s before the bucket was opened and at %d afterwards" % (arg(args, "hlc"), h)))
            committed = [int(rb_fields(r).get("row.cas", "0")) for o, r in zip(ops[:i], results[:i]) if o.startswith("rb ") and r.startswith("row=1")]
            if committed and not any(o.startswith(("swm", "dwm")) for o in ops) and h < max(committed):
                out.append(viol("C04.reopen-seeds-clock", i, "after reopen the clock is at %d, below a committed CAS %d" % (h, max(committed))))
    return out


def _json_or_none(text):
    import json as _j
    try:
        return _j.loads(text)
    except Exception:
        return None


def _path_get(doc, path):
    cur = doc
    for p in path:
        if not isinstance(cur, dict) or p not in cur or cur[p] is None:
            return None, False
        cur = cur[p]
    return cur, True


def mon_C18(ops, results):
    """WriteSubDoc / SubdocInsert change only the addressed property (every other property preserved), honour a supplied CAS,
    SubdocInsert refuses an existing property and a missing document; GetSubDocRaw returns the addressed property."""
    import json as _j
    out = []
    for i, name, pos, args, res, last, feeds in Trace(ops, results).steps():
        if name not in ("wsd", "sdi", "gsd") or len(pos) < 2 or res.startswith("r=panic"):
            continue
        key = (pos[0], pos[1])
        before = last.get(key)
        if before is None:
            continue
        rf = res_fields(res)
        pathstr = arg(args, "path", "")
        if pathstr == "" or any(ch in pathstr for ch in "[]`\\"):
            continue
        path = pathstr.split(".")
        body = before.get("row.v", "~")
        doc = _json_or_none(body[1:]) if body.startswith("=") else None
        if name == "gsd":
            if rf.get("r") == "ok" and isinstance(doc, dict):
                want, found = _path_get(doc, path)
                got = _json_or_none(res.split(" v=", 1)[1]) if " v=" in res else None
                if not found or got != want:
                    out.append(viol("C18.get-returns-addressed-property", i, "GetSubDocRaw(%s) returned %s, document has %s" % (pathstr, got, want)))
            continue
        rbs, _ = following(ops, results, i)
        after = rbs.get(key)
        if after is None:
            continue
        ok = rf.get("r") == "ok"
        if not ok:
            if row_of(before) != row_of(after):
                out.append(viol("C18.failed-write-changes-nothing", i, "%s failed (%s) but the document changed" % (name, res)))
            continue
        cas = int(arg(args, "cas", "0"))
        cur = 0 if absent(before) else int(before.get("row.cas", "0"))
        if cas != 0 and cas != cur:
            out.append(viol("C18.supplied-cas-honoured", i, "%s with CAS %d applied to version %d" % (name, cas, cur)))
        if name == "sdi":
            if not has_body(before):
                out.append(viol("C18.insert-refuses-missing-document", i, "SubdocInsert succeeded on a missing document"))
            elif isinstance(doc, dict):
                _, found = _path_get(doc, path)
                if found:
                    out.append(viol("C18.insert-refuses-existing-property", i, "SubdocInsert succeeded although %s exists" % pathstr))
        old = doc if isinstance(doc, dict) and has_body(before) else {}
        nb = after.get("row.v", "~")
        new = _json_or_none(nb[1:]) if nb.startswith("=") else None
        if not isinstance(new, dict):
            out.append(viol("C18.result-is-object", i, "after %s the body is %s" % (name, nb)))
            continue
        for k2 in set(old) | set(new):
            if k2 != path[0] and old.get(k2, "<absent>") != new.get(k2, "<absent>"):
                out.append(viol("C18.other-properties-preserved", i, "%s at %s changed property %s: %s -> %s" % (name, pathstr, k2, old.get(k2, "<absent>"), new.get(k2, "<absent>"))))
        # siblings along the path
        o, n2 = old, new
        for depth, p in enumerate(path[:-1]):
            o, n2 = (o.get(p) if isinstance(o, dict) else None), (n2.get(p) if isinstance(n2, dict) else None)
            if isinstance(o, dict) and isinstance(n2, dict):
                for k2 in set(o) | set(n2):
                    if k2 != path[depth + 1] and o.get(k2, "<absent>") != n2.get(k2, "<absent>"):
                        out.append(viol("C18.other-properties-preserved", i, "%s at %s changed sibling %s" % (name, pathstr, k2)))
        v = arg(args, "v")
        val = _json_or_none(v) if v not in (None, "") else None
        got, found = _path_get(new, path)
        if val is None:
            if found:
                out.append(viol("C18.empty-value-removes", i, "%s with an empty value left %s = %s" % (name, pathstr, got)))
        elif not found or got != val:
            out.append(viol("C18.addressed-property-set", i, "%s wrote %s at %s but the document has %s" % (name, v, pathstr, got)))
    return out


def mon_C19(ops, results):
    """a query over $_keyspace ranges over exactly the documents of its collection that have a body (as the KV read-back shows them),
    each once; an exhausted iterator stays exhausted."""
    import json as _j
    out = []
    for i, name, pos, args, res, last, feeds in Trace(ops, results).steps():
        if name != "query" or not res.startswith("r=ok"):
            if name == "query":
                out.append(viol("C19.query-runs", i, "query failed: " + res[:100]))
            continue
        rf = res_fields(res)
        rows_txt = res.split(" rows=", 1)[1] if " rows=" in res else ""
        rows = [r for r in rows_txt.split(";{") if r]
        rows = [("{" + r if not r.startswith("{") else r) for r in rows]
        if rf.get("again") != "false":
            out.append(viol("C19.rows-once", i, "the iterator returned a row after reporting exhaustion"))
        q = int(arg(args, "q", "1"))
        coll = pos[0]
        known = {k: d for (c, k), d in last.items() if c == coll}
        live = sorted(k for k, d in known.items() if has_body(d))
        parsed = [_json_or_none(r) for r in rows]
        if q == 2:
            # rows seen so far are a lower bound of the collection's content (keys never read back are unknown)
            continue
        ids = [p.get("id") for p in parsed if isinstance(p, dict)]
        if len(ids) != len(set(ids)):
            out.append(viol("C19.rows-once", i, "a document appears twice: %s" % ids))
        for k in ids:
            d = known.get(k)
            if d is not None and not has_body(d):
                out.append(viol("C19.only-live-documents", i, "query %d returned %s which has no body" % (q, k)))
            others = [c for (c, kk), dd in last.items() if kk == k and c != coll and has_body(dd)]
            if d is not None and absent(d) and others:
                out.append(viol("C19.only-own-collection", i, "query on %s returned %s which only exists in %s" % (coll, k, others)))
        if q == 1:
            for k in live:
                if k not in ids:
                    out.append(viol("C19.every-live-document", i, "live document %s/%s missing from SELECT id" % (coll, k)))
        if q == 3:
            for p in parsed:
                if isinstance(p, dict) and p.get("id") in known and has_body(known[p["id"]]):
                    body = _json_or_none(known[p["id"]]["row.v"][1:])
                    if body is not None and p.get("doc") != body:
                        out.append(viol("C19.current-body", i, "query shows %s for %s, KV read-back has %s" % (p.get("doc"), p["id"], body)))
            for k in live:
                body = _json_or_none(known[k]["row.v"][1:])
                if body is not None and isinstance(body, (dict, list)) and k not in ids:
                    out.append(viol("C19.every-live-document", i, "JSON document %s/%s missing from the body query" % (coll, k)))
        if q in (4, 5):
            for k in live:
                x = xmap(known[k].get("row.x", "~"))
                want = bool(x) if q == 4 else ("_sync" in x)
                if want != (k in ids):
                    out.append(viol("C19.current-xattrs", i, "query %d on %s: %s has xattrs %s but %s in the result" % (q, coll, k, sorted(x), "is" if k in ids else "is not")))
        if q == 6:
            for k in live:
                body = _json_or_none(known[k]["row.v"][1:])
                if isinstance(body, dict) and isinstance(body.get("a"), int):
                    if (body["a"] >= 50) != (k in ids):
                        out.append(viol("C19.filter-on-body-property", i, "%s has a=%s but %s in the result of a >= 50" % (k, body["a"], "is" if k in ids else "is not")))
    return out


def mon_C10(ops, results):
    """across a close / reopen (in-process restart of an on-disk bucket): every document reads back as before, and the pending
    expirations are re-armed (the next scheduled expiry is the smallest stored one)."""
    out = []
    touched = set()
    since_restart = None     # (index of the restart, snapshot of last read-backs at that time)
    modified = set()
    for i, name, pos, args, res, last, feeds in Trace(ops, results).steps():
        if name in MUTATORS and len(pos) >= 2:
            touched.add((pos[0], pos[1]))
            modified.add((pos[0], pos[1]))
        if name in ("purge", "fire"):
            since_restart = None
            modified = set(touched)
        if name == "restart":
            if not res.startswith("r=ok"):
                out.append(viol("C10.reopen-succeeds", i, "reopening the bucket failed: " + res[:80]))
                continue
            rf = res_fields(res)
            snapshot = {k: dict(v) for k, v in last.items()}
            since_restart = (i, snapshot)
            modified = set()
            if touched and all(k in last for k in touched) and "next" in rf:
                exps = [int(d.get("row.exp", "0")) for d in last.values() if not absent(d) and int(d.get("row.exp", "0")) > 0]
                want = min(exps) if exps else 0
                if int(rf["next"]) != want:
                    out.append(viol("C10.pending-expirations-rearmed", i, "after the reopen the next scheduled expiry is %s; the smallest stored expiry is %d" % (rf["next"], want)))
        if name == "expstate" and since_restart is not None and not modified and res.startswith("r=ok") and touched and all(k in last for k in touched):
            exps = [int(d.get("row.exp", "0")) for d in last.values() if not absent(d) and int(d.get("row.exp", "0")) > 0]
            want = min(exps) if exps else 0
            nxt = int(res_fields(res).get("next", "0"))
            if nxt != want:
                out.append(viol("C10.pending-expirations-rearmed", i, "after the reopen the next scheduled expiry is %d; the smallest stored expiry is %d" % (nxt, want)))
        if name == "rb" and since_restart is not None and res.startswith("row=") and len(pos) >= 2:
            key = (pos[0], pos[1])
            before = since_restart[1].get(key)
            if before is not None and key not in modified:
                now = rb_fields(res)
                diff = [f for f in ROWF if before.get(f) != now.get(f)]
                if diff:
                    out.append(viol("C10.reopen-keeps-documents", i, "%s/%s changed across the reopen at line %d: %s" % (
                        pos[0], pos[1], since_restart[0], ", ".join("%s %s -> %s" % (f, before.get(f), now.get(f)) for f in diff))))
    return out


def mon_C16(ops, results):
    """feed lifecycles: a closed terminator ends exactly its feed; a feed that has not ended keeps receiving the writes of its
    collection whatever happened to other feeds; an ended feed receives nothing more; no callback after done."""
    out = []
    feeds = {}       # id -> dict(coll, dump)
    done = {}        # id -> last reported done flag
    for i, line in enumerate(ops):
        name, pos, args = parse_op(line)
        res = results[i] if i < len(results) else ""
        if name == "feed" and res.startswith("r=ok"):
            feeds[pos[0]] = {"coll": pos[1], "colls": [pos[1]], "dump": arg(args, "dump", "0") != "0", "dropped": set()}
        elif name == "mfeed" and res.startswith("r=ok"):
            cs = pos[1].split(",")
            feeds[pos[0]] = {"coll": cs[0], "colls": cs, "dump": False, "dropped": set()}
        elif name == "dropcoll" and res.startswith("r=ok"):
            for f in feeds.values():
                if pos[0] in f["colls"]:
                    f["dropped"].add(pos[0])
        elif name == "lifestate" and res.startswith("r=ok"):
            rf = res_fields(res)
            if rf.get("afterdone", "0") != "0":
                out.append(viol("C16.no-callback-after-done", i, "%s callbacks ran after a feed's done channel was closed" % rf["afterdone"]))
            prev = dict(done)
            for k, v in rf.items():
                if k in feeds:
                    done[k] = v
            # which feeds ended since the previous snapshot, and was there a reason?
            j = i - 1
            while j >= 0 and parse_op(ops[j])[0] in ("lifestate",):
                j -= 1
            cause = parse_op(ops[j]) if j >= 0 else ("", [], [])
            for fid, v in done.items():
                if v == "1" and prev.get(fid, "0") == "0" and not feeds[fid]["dump"]:
                    cname, cpos, cargs = cause
                    # a bucket-level feed over several collections is done only when every one of its collections is gone
                    legit = (cname == "stopfeed" and cpos and cpos[0] == fid) or cname in ("cadh", "hclose") or \
                        (cname == "dropcoll" and cpos and cpos[0] in feeds[fid]["colls"] and set(feeds[fid]["colls"]) <= feeds[fid]["dropped"])
                    if not legit:
                        out.append(viol("C16.ends-only-its-own-feed", i, "feed %s (on %s) ended after `%s`" % (fid, feeds[fid]["coll"], ops[j])))
                if v == "1" and prev.get(fid) == "1":
                    pass
                if v == "0" and prev.get(fid) == "1":
                    out.append(viol("C16.ended-stays-ended", i, "feed %s was reported ended and is running again" % fid))
            if cause[0] == "stopfeed" and cause[1] and cause[1][0] in done and done[cause[1][0]] != "1" and results[j].startswith("r=ok"):
                out.append(viol("C16.terminator-ends-its-feed", i, "the terminator of %s was closed but the feed has not ended" % cause[1][0]))
        elif name == "probe" and res.startswith("r=ok"):
            rf = res_fields(res)
            coll = pos[0]
            for fid, f in feeds.items():
                if coll not in f["colls"] or fid not in rf or coll in f["dropped"]:
                    continue
                got = rf[fid]
                if got.startswith("stray"):
                    out.append(viol("C16.other-collections-feeds-untouched", i, "feed %s received an event for a write to %s" % (fid, coll)))
                elif done.get(fid, "0") == "0" and not f["dump"] and got != "1":
                    out.append(viol("C16.running-feed-keeps-receiving", i, "feed %s on %s has not ended but received %s event(s) for a write to its collection" % (fid, coll, got)))
                elif done.get(fid) == "1" and got != "0":
                    out.append(viol("C16.no-delivery-after-end", i, "ended feed %s received %s event(s)" % (fid, got)))
            for k, v in rf.items():
                if k in feeds and coll not in feeds[k]["colls"] and v.startswith("stray"):
                    out.append(viol("C16.other-collections-feeds-untouched", i, "feed %s (on %s) received an event for a write to %s" % (k, feeds[k]["coll"], coll)))
    return out


def mon_C13(ops, results):
    """registry scripts: open modes succeed / fail by whether the bucket exists, a closed handle's calls fail with bucket-closed while
    other handles keep working, handles of a name share one store, data survives closes (on disk: the last close; in memory: until
    CloseAndDelete) and is gone after CloseAndDelete. Judged only where the property's text decides the outcome."""
    out = []
    mem = {}        # name -> store dict (exists while present)
    disk = {}       # url -> (name, store dict)
    handles = {}    # label -> dict(name, url, store, closed, dead)
    leaked = []     # handle objects whose label was reused while open
    for i, line in enumerate(ops):
        name, pos, args = parse_op(line)
        res = results[i] if i < len(results) else ""
        r = res.split(" ")[0]
        r = r[2:] if r.startswith("r=") else r

        def objs():
            return list(handles.values()) + leaked
        if name == "open":
            h, url, bname, mode = pos[0], arg(args, "url"), arg(args, "name"), int(arg(args, "mode", "0"))
            open_elsewhere = any(o["name"] == bname and o["url"] != url and not o["closed"] and not o["dead"] for o in objs())
            mem_lingers = bname in mem and url != "mem"
            disk_other = any(u != url and n == bname for u, (n, _) in disk.items()) and url != "mem"
            if url == "mem":
                exists_here = bname in mem
                foreign = False
            else:
                exists_here = url in disk
                foreign = exists_here and disk[url][0] != bname
            if open_elsewhere:
                if r == "ok":
                    out.append(viol("C13.other-url-refused", i, "%s is open at another URL but OpenBucket(%s) succeeded" % (bname, url)))
            elif not mem_lingers and not foreign and not disk_other:
                if mode == 1 and (r == "exist") != exists_here:
                    out.append(viol("C13.createnew-fails-iff-exists", i, "CreateNew of %s at %s returned %s but the bucket %s" % (bname, url, r, "exists" if exists_here else "does not exist")))
                if mode == 2 and (r == "notexist") != (not exists_here):
                    out.append(viol("C13.reopenexisting-fails-iff-absent", i, "ReOpenExisting of %s at %s returned %s but the bucket %s" % (bname, url, r, "exists" if exists_here else "does not exist")))
                if mode == 0 and r != "ok":
                    out.append(viol("C13.createoropen-succeeds", i, "CreateOrOpen of %s at %s returned %s" % (bname, url, r)))
            if r == "ok":
                if url == "mem":
                    store = mem.setdefault(bname, {})
                else:
                    if url not in disk:
                        disk[url] = (bname, {})
                    store = disk[url][1]
                old = handles.get(h)
                if old is not None and not old["closed"] and not old["dead"]:
                    leaked.append(old)
                handles[h] = {"name": bname, "url": url, "store": store, "closed": False, "dead": False}
        elif name == "hclose":
            o = handles.get(pos[0])
            if o is not None:
                o["closed"] = True
        elif name == "cad":
            o = handles.get(pos[0])
            if o is not None and r == "ok" and not o["dead"]:
                if o["url"] == "mem":
                    mem.pop(o["name"], None)
                else:
                    disk.pop(o["url"], None)
                for x in objs():
                    if x["store"] is o["store"]:
                        x["dead"] = True
                o["store"].clear()
        elif name in ("put", "get"):
            o = handles.get(pos[0])
            if o is None:
                continue
            if o["closed"] and not o["dead"]:
                if r != "closed":
                    out.append(viol("C13.closed-handle-fails", i, "%s through a closed handle returned %s instead of a bucket-closed error" % (name, r)))
            elif o["dead"]:
                if r == "ok":
                    out.append(viol("C13.deleted-bucket-fails", i, "%s through a handle of a deleted bucket succeeded" % name))
            else:
                # an open handle keeps working whatever happened to the other handles
                if name == "put":
                    if r != "ok":
                        out.append(viol("C13.other-handles-keep-working", i, "put through the open handle %s failed: %s" % (pos[0], r)))
                    else:
                        o["store"][pos[1]] = arg(args, "v")
                else:
                    want = o["store"].get(pos[1])
                    got = None
                    for t in res.split(" "):
                        if t.startswith("v=") or t.startswith("v~"):
                            got = t[2:] if t.startswith("v=") else None
                    if want is None and r != "missing":
                        out.append(viol("C13.shared-store", i, "get %s through %s returned %s; no handle of this bucket wrote it (or the bucket was deleted since)" % (pos[1], pos[0], res.split(" | ")[0])))
                    if want is not None and (r != "ok" or got != want):
                        out.append(viol("C13.data-intact", i, "get %s through %s returned %s; the last value written to this bucket is %s" % (pos[1], pos[0], res.split(" | ")[0], want)))
    return out


def mon_C12(ops, results):
    """a non-stale view query returns what the map function emits for the collection's current documents (as the KV read-back shows
    them), ordered and filtered as requested - computed by the independent oracle lib/viewspec.py."""
    import json as _j
    import viewspec as VS
    out = []
    views = {}          # (coll, ddoc) -> {view: (mapId, reduce)}
    withmeta = set()    # collections that have seen a WithMeta write
    for i, name, pos, args, res, last, feeds in Trace(ops, results).steps():
        if name in ("swm", "dwm") and res.startswith("r=ok"):
            withmeta.add(pos[0])
        if name == "putddoc" and res.startswith("r=ok"):
            vs = {}
            for k, v in args:
                if k.startswith("v."):
                    m, _, red = v.partition(":")
                    vs[k[2:]] = (int(m), red)
            views[(pos[0], pos[1])] = vs
        if name == "delddoc" and res.startswith("r=ok"):
            views.pop((pos[0], pos[1]), None)
        if name != "view":
            continue
        coll, dd, vn = pos[0], pos[1], pos[2]
        vdef = views.get((coll, dd), {}).get(vn)
        if vdef is None:
            if res.startswith("r=ok"):
                out.append(viol("C12.unknown-view", i, "a query on a view that does not exist succeeded: " + res[:80]))
            continue
        if not res.startswith("r=ok"):
            out.append(viol("C12.query-runs", i, "view query failed: " + res[:100]))
            continue
        if arg(args, "stale") == "ok":
            continue
        docs = {}
        for (c, k), d in last.items():
            if c != coll or absent(d):
                continue
            body = d.get("row.v", "~")
            docs[k] = {"body": None if body == "~" else body[1:], "is_json": d.get("row.json") == "1", "xattrs": xmap(d.get("row.x", "~"))}
        p = {}
        for a, key in (("key", "key"), ("startkey", "startkey"), ("endkey", "endkey"), ("keys", "keys")):
            if arg(args, a) is not None:
                p[key] = _j.loads(arg(args, a))
        if arg(args, "incl") == "0":
            p["inclusive_end"] = False
        if arg(args, "desc") == "1":
            p["descending"] = True
        if arg(args, "limit") is not None:
            p["limit"] = int(arg(args, "limit"))
        if arg(args, "reduce") == "0":
            p["reduce"] = False
        if arg(args, "group") == "1":
            p["group"] = True
        if arg(args, "glevel") is not None:
            p["group_level"] = int(arg(args, "glevel"))
        want = VS.render(VS.expected(vdef[0], vdef[1], docs, p))
        got = res.split(" rows=", 1)[1] if " rows=" in res else ""
        if got != want:
            rule = "C12.stale-after-withmeta" if coll in withmeta else "C12.rows-equal-map-of-current-documents"
            out.append(viol(rule, i, "view %s/%s/%s (map %d%s) %s returned [%s]; the map function over the current documents gives [%s]" % (
                coll, dd, vn, vdef[0], " reduce " + vdef[1] if vdef[1] else "", " ".join("%s=%s" % a for a in args), got[:300], want[:300])))
    return out


def mon_C15(ops, results):
    """a checkpointed resume-mode feed: the persisted checkpoint never exceeds the highest CAS delivered; taken together its runs
    deliver the final version of every document mutated through the regular API."""
    out = []
    delivered = {}          # feed id -> set of (key, cas)
    delivered_ev = {}       # (feed id, key, cas) -> the last event delivered with that CAS
    maxcas = {}             # feed id -> highest CAS delivered
    prefix = {}
    for i, name, pos, args, res, last, feeds in Trace(ops, results).steps():
        if name == "feed" and arg(args, "prefix"):
            prefix[pos[0]] = (arg(args, "prefix"), pos[1])
        if name == "drain" and pos and pos[0] in prefix:
            for t in res.split(" "):
                if t.startswith("ev:{"):
                    e = ev_fields(t)
                    delivered.setdefault(pos[0], set()).add((e.get("k"), int(e.get("cas", "0"))))
                    delivered_ev[(pos[0], e.get("k"), int(e.get("cas", "0")))] = e
                    maxcas[pos[0]] = max(maxcas.get(pos[0], 0), int(e.get("cas", "0")))
        if name == "rb" and len(pos) >= 2 and res.startswith("row=1"):
            for fid, (pfx, coll) in prefix.items():
                if pos[0] == coll and pos[1] == "%s:%s" % (pfx, fid):
                    d = rb_fields(res)
                    body = _json_or_none(d.get("row.v", "~")[1:]) if d.get("row.v", "~").startswith("=") else None
                    if isinstance(body, dict) and "last_seq" in body and body["last_seq"] > maxcas.get(fid, 0):
                        out.append(viol("C15.checkpoint-never-exceeds-delivered", i, "checkpoint %s of feed %s exceeds the highest CAS it delivered (%d)" % (body["last_seq"], fid, maxcas.get(fid, 0))))
    # coverage at the end of the program: every key's final version was delivered by some run
    final = {}
    for i, name, pos, args, res, last, feeds in Trace(ops, results).steps():
        final = last
    for fid, (pfx, coll) in prefix.items():
        if any(o.startswith(("swm", "dwm")) for o in ops):
            continue
        # only meaningful when the program ended with a completed run of this feed (the generator ends with a resume dump)
        ends_with_run = any(o.startswith("feed %s " % fid) and "dump=1" in o for o in ops[-6:])
        if not ends_with_run:
            continue
        for (c, k), d in final.items():
            if c != coll or absent(d) or k.startswith(pfx + ":"):
                continue
            if (k, int(d.get("row.cas", "0"))) not in delivered.get(fid, set()):
                out.append(viol("C15.no-mutation-skipped", len(ops) - 1, "the final version of %s/%s (cas %s) was delivered by no run of feed %s" % (c, k, d.get("row.cas"), fid)))
            else:
                e = delivered_ev.get((fid, k, int(d.get("row.cas", "0"))))
                if e is not None and (e.get("op") == "del") != (not has_body(d)):
                    out.append(viol("C15.no-mutation-skipped", len(ops) - 1, "the final version of %s/%s (cas %s) is %s but what feed %s delivered with that CAS was a %s" % (
                        c, k, d.get("row.cas"), "a live document" if has_body(d) else "a deletion", fid, "deletion" if e.get("op") == "del" else "mutation")))
    return out




def mon_C14(ops, results):
    """the timer covers every stored expiry; a sweep at time N tombstones exactly the documents with 0 < exp <= N (deletion
    event included) and leaves the others alone; the expiry in force is the one the last write/touch set."""
    out, now = [], 1700000000
    swept = False
    for i, name, pos, args, res, last, feeds in Trace(ops, results).steps():
        if name == "now":
            now = int(arg(args, "s", str(now)))
        if name == "fire":
            swept = True
        elif name in MUTATORS or name in ("restart", "purge"):
            swept = False
        if name == "expstate" and res.startswith("r=ok"):
            nxt = int(res_fields(res).get("next", "0"))
            if swept and 0 < nxt <= now:
                out.append(viol("C14.timer-rearmed-after-sweep", i, "after the sweep at %d the timer is still set for %d, which has passed: nothing later can expire" % (now, nxt)))
            swept = False
            # readbacks between the previous mutation and this line describe the current rows
            cur = dict(last)
            for (c, k), d in cur.items():
                if absent(d):
                    continue
                e = int(d.get("row.exp", "0"))
                if e > 0 and (nxt == 0 or nxt > e):
                    out.append(viol("C14.timer-armed-no-later-than-any-expiry", i, "%s/%s expires at %d but the timer is %s" % (c, k, e, "not armed" if nxt == 0 else "armed for %d" % nxt)))
        if name == "fire":
            rbs, drains = following(ops, results, i)
            for key, after in rbs.items():
                before = last.get(key)
                if before is None or absent(before):
                    continue
                e = int(before.get("row.exp", "0"))
                if 0 < e <= now:
                    if absent(after) or after.get("row.v") != "~" or after.get("row.exp") != "0":
                        out.append(viol("C14.due-documents-are-tombstoned", i, "%s/%s was due at %d (now %d) but after the sweep: %s" % (key[0], key[1], e, now, row_of(after))))
                    for fid, f in feeds.items():
                        if not f["dump"] and f["coll"] == key[0] and fid in drains:
                            if not any(ev.get("k") == key[1] and ev.get("op") == "del" for ev in drains[fid]):
                                out.append(viol("C14.expiry-produces-deletion-event", i, "no deletion event for expired %s/%s on feed %s" % (key[0], key[1], fid)))
                elif row_of(before) != row_of(after):
                    out.append(viol("C14.not-due-documents-untouched", i, "%s/%s (exp %d, now %d) changed by the sweep" % (key[0], key[1], e, now)))
        if name in ("set", "add", "touch", "gat", "wcas", "incr", "delete", "remove", "delx") and len(pos) >= 2 and not res.startswith("r=panic"):
            rf = res_fields(res)
            if not succeeded(name, rf):
                continue
            rbs, _ = following(ops, results, i)
            after, before = rbs.get((pos[0], pos[1])), last.get((pos[0], pos[1]))
            if after is None or absent(after):
                continue
            e = int(arg(args, "exp", "0"))
            want = e + now if 0 < e <= MAX_DELTA else e
            if name in ("delete", "remove", "delx"):
                want = 0
            if name == "wcas" and arg(args, "v") is None:
                continue
            if name == "set" and arg(args, "pe", "0") != "0" and before is not None and not absent(before):
                want = int(before.get("row.exp", "0"))
            if int(after.get("row.exp", "0")) != want:
                out.append(viol("C14.expiry-in-force", i, "%s with exp=%d at %d stored expiry %s, expected %d" % (name, e, now, after.get("row.exp"), want)))
    return out


MONITORS = {"C16": mon_C16, "C13": mon_C13, "C10": mon_C10, "C12": mon_C12, "C14": mon_C14, "C15": mon_C15, "C18": mon_C18, "C19": mon_C19, "C04": mon_C04, "C01": mon_C01, "C02": mon_C02, "C05": mon_C05, "C06": mon_C06, "C07": mon_C07, "C08": mon_C08, "C09": mon_C09,
            "C11": mon_C11, "C17": mon_C17}
