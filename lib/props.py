"""Per-property configuration and the decision procedure (DESIGN.md section 5)."""
import json, os, sys, time
import vcheck as V
from vcheck import MachineryError
import monitors as M

P = V.proj_fields

# slices: (profile, kind, programs_quick, programs_thorough, length_quick, length_thorough)
KV = ("kv", "mem", 100, 1200, 30, 60)
KVD = ("kv", "disk", 30, 300, 30, 60)
FEEDS = ("feeds", "mem", 60, 600, 25, 50)
FEEDSD = ("feeds", "disk", 20, 200, 25, 50)
MULTI = ("multi", "mem", 40, 400, 25, 50)
MULTID = ("multi", "disk", 12, 120, 25, 50)

CLOCK = ("clock", "mem", 60, 600, 40, 80)
CLOCKD = ("clock", "disk", 30, 300, 40, 80)

EXPIRY = ("expiry", "mem", 50, 600, 25, 50)
EXPIRYD = ("expiry", "disk", 20, 250, 25, 50)

SUBDOC = ("subdoc", "mem", 100, 1000, 40, 80)
SUBDOCD = ("subdoc", "disk", 30, 300, 40, 80)

REG = ("reg", "mem", 150, 2000, 30, 60)

QUERY = ("query", "mem", 60, 600, 30, 60)
QUERYD = ("query", "disk", 25, 250, 30, 60)

RESUME = ("resume", "mem", 60, 600, 40, 80)
RESUMED = ("resume", "disk", 20, 200, 40, 80)
RESUME2 = ("resume2", "mem", 40, 400, 40, 80)   # the checkpointed feed follows a named collection; the default collection is watched

COLLS = ("colls", "mem", 30, 600, 40, 80)
COLLSD = ("colls", "disk", 20, 400, 40, 80)

VIEW = ("view", "mem", 50, 600, 60, 120)
VIEWD = ("view", "disk", 20, 250, 60, 120)
VIEWM = ("viewmeta", "mem", 70, 400, 110, 140)
VIEWMD = ("viewmeta", "disk", 20, 160, 110, 140)

LIFE = ("life", "mem", 120, 600, 14, 18)
LIFE_S = ("life", "mem", 40, 300, 10, 14)     # C20 uses the lifecycle histories only as a sequential background
LIFED = ("life", "disk", 40, 300, 14, 18)


def proj_life(op, res):
    return "" if op.startswith("mkcoll") else res


RBN = "_sync,_sys,usr,u2,$document,$document.revid"
ROW = ["row", "row.v", "row.cas", "row.exp", "row.json", "row.x", "row.tomb", "row.rev"]

PROPS = {
    "C01": dict(modules=["Rosmar.Properties.C01", "Rosmar.Gen.TieSqlAdd", "Rosmar.Gen.TieSqlSet", "Rosmar.Gen.TieSqlWcas", "Rosmar.Gen.TieSqlRemove", "Rosmar.Gen.TieSqlTouch", "Rosmar.Gen.TieSqlXattr", "Rosmar.Gen.TieSqlReadPins", "Rosmar.Gen.TieSqlLift"], slices=[KV, KVD, MULTI], proj=V.proj_all,
                what="every read after every operation (raw row + every public read), every result"),
    "C02": dict(modules=["Rosmar.Properties.C02", "Rosmar.Gen.TieSqlWcas", "Rosmar.Gen.TieSqlRemove", "Rosmar.Gen.TieSqlXattr", "Rosmar.Gen.TieSqlProps"], slices=[KV, KVD, SUBDOC],
                proj=P(rb=ROW, results=True, ops={"wcas", "remove", "wwx", "wtx", "updx", "rmx", "uxdb", "swm", "dwm", "update", "wuwx"}),
                what="results of CAS-conditional writes and the row before/after"),
    "C04": dict(modules=["Rosmar.Properties.C04", "Rosmar.Gen.TiePure"], slices=[CLOCK, CLOCKD, KV, COLLS, COLLSD],
                proj=P(rb=["row", "row.cas"], results=True, ops={"draw", "restart", "lastcas", "wcas", "remove", "touch", "setx", "updx", "wwx", "wtx", "wrx", "uxdb", "update", "wuwx"}),
                what="every CAS handed out under adversarial clock scripts, draws by other buckets, close/reopen with a forgetful clock"),
    "C05": dict(modules=["Rosmar.Properties.C05", "Rosmar.Gen.TieSqlAdd", "Rosmar.Gen.TieSqlSet", "Rosmar.Gen.TieSqlWcas", "Rosmar.Gen.TieSqlRemove", "Rosmar.Gen.TieSqlXattr", "Rosmar.Gen.TieSqlPurge", "Rosmar.Gen.TieSqlProps"], slices=[KV, FEEDS, MULTI],
                proj=P(rb=["row", "row.v", "row.tomb", "row.x", "row.exp", "gr", "ex", "gwx"], ev=["k", "op", "cas"], results=True),
                what="tombstone flag, body, xattrs, expiry, reads, feed opcodes"),
    "C06": dict(modules=["Rosmar.Properties.C06", "Rosmar.Gen.TieSqlAdd", "Rosmar.Gen.TieSqlWcas", "Rosmar.Gen.TieSqlXattr", "Rosmar.Gen.TieSqlProps", "Rosmar.Gen.TieSqlLift"], slices=[KV, KVD, MULTI],
                proj=P(rb=ROW, results=True, ops={"add", "wcas", "wrx", "wwx"}),
                what="results of insert-style writes and the row before/after"),
    "C07": dict(modules=["Rosmar.Properties.C07", "Rosmar.Gen.TieSqlSet", "Rosmar.Gen.TieSqlWcas", "Rosmar.Gen.TieSqlRemove", "Rosmar.Gen.TieSqlXattr"], slices=[KV, KVD],
                proj=P(rb=["row", "row.v", "row.cas", "row.exp", "row.x", "gwx", "gx"], results=True),
                what="body, xattrs, expiry, CAS after every xattr / body write; macro expansions"),
    "C08": dict(modules=["Rosmar.Properties.C08", "Rosmar.Properties.Sched"], slices=[FEEDS, FEEDSD, MULTI], proj=P(rb=ROW, ev="*", results=True),
                what="every live feed event after every operation, against the stored mutation"),
    "C09": dict(modules=["Rosmar.Properties.C09", "Rosmar.Properties.Sched", "Rosmar.Gen.TieSqlBackfill"], slices=[FEEDS, FEEDSD, MULTI], proj=P(rb=ROW, ev="*", results=False),
                what="dump feeds (backfill snapshots) from several start CAS values, against the stored rows"),
    "C10": dict(modules=["Rosmar.Properties.C10"], slices=[KVD, CLOCKD, EXPIRYD],
                closing=["restart hlc=0 mode=reopen", "expstate"],
                proj=P(rb=ROW, results=True, ops={"restart", "lastcas", "expstate"}),
                what="on-disk histories with close/reopen in-process (restart) compared with the model; and fault enumeration: a child process "
                     "is SIGKILLed at instrumentation points (txn.begin, cas.afterwrite, txn.precommit, txn.committed, post.before, ...) and a "
                     "fresh process reopens and reads everything back"),
    "C11": dict(modules=["Rosmar.Properties.C11", "Rosmar.Gen.TieFacts", "Rosmar.Gen.TieSqlBase", "Rosmar.Gen.TieSqlWritePins", "Rosmar.Gen.TieSqlReadPins"], slices=[MULTI, MULTID, COLLS, COLLSD, VIEWM, RESUME2], proj=V.proj_all, isolation_search=True,
                what="every key of every collection re-read after every operation on any collection"),
    "C03": dict(modules=["Rosmar.Properties.C03"], slices=[KV, KVD], proj=V.proj_all,
                what="forced interleavings of compound calls (Update, WriteUpdateWithXattrs, WriteSubDoc, Incr) with other writers through the "
                     "instrumentation points, checked for linearizability against the sequential model; sequential traces for the atomic actions"),
    "C13": dict(modules=["Rosmar.Properties.C13"], slices=[REG], proj=V.proj_all,
                what="registry scripts over 2 names x (memory + 2 directories) x 4 handles: open modes, close, repeated close, CloseAndDelete, "
                     "data probes; cluster.bucketCount / GetBucketNames / directories compared after every step; forced open/close races"),
    "C14": dict(modules=["Rosmar.Properties.C14", "Rosmar.Gen.TiePure", "Rosmar.Gen.TieSqlTouch", "Rosmar.Gen.TieSqlSet", "Rosmar.Gen.TieSqlExpire"], slices=[EXPIRY, EXPIRYD, MULTI],
                proj=P(rb=["row", "row.v", "row.exp", "row.tomb", "ge"], ev=["k", "op", "exp"], results=True,
                       ops={"expstate", "fire", "restart", "reopenmem", "touch", "gat"}),
                what="stored expiries, the expiry manager's next-fire time after every operation, sweeps at scripted times, reopen"),
    "C19": dict(modules=["Rosmar.Properties.C19", "Rosmar.Gen.TieSqlKeyspace"], slices=[QUERY, QUERYD],
                proj=P(rb=["row", "row.v", "row.x"], results=True, ops={"query"}),
                what="a family of 6 queries (id / body / xattr projections and filters, count) at random positions of multi-collection histories, "
                     "in-memory (pre-recorded iterator) and on-disk (streaming iterator)"),
    "C18": dict(modules=["Rosmar.Properties.C18"], slices=[SUBDOC, SUBDOCD], proj=V.proj_all,
                what="WriteSubDoc / SubdocInsert / GetSubDocRaw over object documents, dotted paths of every kind, CAS classes"),
    "C15": dict(modules=["Rosmar.Properties.C15", "Rosmar.Gen.TieSqlBackfill"], slices=[RESUME, RESUMED, RESUME2],
                closing=["stopfeed fr", "rb c0 k0 n=" + RBN, "rb c0 k1 n=" + RBN, "rb c0 k2 n=" + RBN,
                         "feed fr c0 bf=resume prefix=cp dump=1", "drain fr"],
                proj=P(rb=ROW, ev="*", results=True, ops={"feed", "stopfeed"}),
                what="a checkpointed resume-mode feed stopped (terminator) and restarted (live and dump runs) between batches of writes; the "
                     "checkpoint document read after every stop; the union of all runs against the final documents"),
    "C16": dict(modules=["Rosmar.Properties.C16"], slices=[LIFE, LIFED], proj=proj_life,
                what="feeds (live, dump) started through up to three handles on three collections; random orders of terminator closes, "
                     "collection drops (through any handle), handle closes, bucket deletion; after every event the done state of every feed, "
                     "callbacks after done, and probes that surviving feeds still receive events"),
    "C12": dict(modules=["Rosmar.Properties.C12", "Rosmar.Gen.TieSqlView"], slices=[VIEW, VIEWD, VIEWM, VIEWMD],
                closing=[l for c in ("c0", "c1") for l in (["putddoc %s ddz v.z0=0: v.z1=1: v.z2=2: v.z3=3:" % c] +
                                                             ["view %s ddz z%d" % (c, m) for m in range(4)])],
                proj=P(rb=["row", "row.v", "row.cas", "row.json", "row.x", "row.tomb"], results=True, ops={"view", "putddoc", "delddoc", "ddocs", "lastcas"}),
                what="design documents put / replaced / deleted on two collections; write histories through every entry point (with and "
                     "without WithMeta writes), purges, reopening; view queries (View and ViewQuery) over a family of 4 JavaScript map "
                     "functions (by id, by a body property of any JSON type, array keys from a loop, by an xattr) x reduce (_count, _sum) with "
                     "random key / range / inclusive_end / keys / descending / limit / reduce / group / group_level / stale parameters at "
                     "random positions; results compared with the model and with an independent oracle (lib/viewspec.py) over the KV read-back"),
    "C20": dict(modules=["Rosmar.Properties.C20"], note_modules=["Rosmar.Properties.C20Known"], slices=[LIFE_S], proj=proj_life,
                what="forced schedules placing Close / CloseAndDelete / DropDataStore against a writer (at every instrumentation point of a "
                     "write), a feed start, a feed delivery and the expiry-timer callback, on both bucket kinds, each in its own child process "
                     "(panic, hang, leaked feed goroutine, unrelated bucket still usable), compared with the shutdown model's verdict; the "
                     "lock-order graph regenerated from the source; sequential lifecycle histories"),
    "C17": dict(modules=["Rosmar.Properties.C17", "Rosmar.Gen.TieSqlAdd", "Rosmar.Gen.TieSqlSet", "Rosmar.Gen.TieSqlWcas", "Rosmar.Gen.TieSqlRemove", "Rosmar.Gen.TieSqlTouch", "Rosmar.Gen.TieSqlXattr"], slices=[KV, FEEDS, MULTI],
                proj=P(rb=["row", "row.rev", "gwx"], ev=["k", "rev", "cas"], results=False),
                what="revSeqNo in the row, $document / $document.revid, live and backfill RevNo"),
}

def extra_C14(tier, seed, log):
    """Real wall clock, real timer goroutine: documents with a 2 s expiry (set by Set, by Touch, shortened by Touch, preserved)."""
    p = V.sh([V.HARNESS, "realtime"], env=V.GOENV, timeout=120)
    lines = [l for l in p.stdout.splitlines() if l.strip()]
    viols = [{"kind": "timing", "signature": "C14/realtime/" + l.split(" ")[1].rstrip(":"), "msg": l, "ops": [], "scenario": l}
             for l in lines if l.startswith(("violation", "error"))]
    return {"realtime_scenarios": lines}, viols


def extra_sched(pid):
    def f(tier, seed, log):
        import sched
        return sched.run_property(pid, log)
    return f


def extra_C03(tier, seed, log):
    import sched
    cov, viols = sched.run_property("C03", log)
    p = V.sh([V.HARNESS, "stress"], env=V.GOENV, timeout=300)
    lines = [l for l in p.stdout.splitlines() if l.strip()]
    cov["stress"] = lines
    for l in lines:
        if l.startswith(("violation", "error")):
            viols.append({"kind": "stress", "signature": "C03/stress/" + l.split(" ")[1].rstrip(":"), "msg": l, "ops": []})
    return cov, viols


def extra_C04(tier, seed, log):
    """Real goroutines: CAS order must be commit order (the CAS is drawn inside the transaction)."""
    p = V.sh([V.HARNESS, "stress"], env=V.GOENV, timeout=300)
    lines = [l for l in p.stdout.splitlines() if l.strip()]
    viols = [{"kind": "stress", "signature": "C04/stress/" + l.split(" ")[1].rstrip(":"), "msg": l, "ops": []}
             for l in lines if l.startswith(("violation", "error")) and "casorder" in l]
    return {"stress": [l for l in lines if "casorder" in l]}, viols


def extra_C15(tier, seed, log):
    import sched
    cov, viols = sched.run_property("C15", log)
    p = V.sh([V.HARNESS, "stress"], env=V.GOENV, timeout=300)
    lines = [l for l in p.stdout.splitlines() if "-resume" in l]
    cov["stress"] = lines
    for l in lines:
        if l.startswith(("violation", "error")):
            viols.append({"kind": "stress", "signature": "C15/stress/" + l.split(" ")[1].rstrip(":"), "msg": l, "ops": []})
    return cov, viols


def extra_C10(tier, seed, log):
    import crash, sched
    cov, viols = crash.run(tier, seed, log)
    scov, sviols = sched.run_property("C10", log)
    cov.update(scov)
    return cov, viols + sviols


def extra_C20(tier, seed, log):
    import shutdown
    return shutdown.run(tier, seed, log)


EXTRA = {"C04": extra_C04, "C20": extra_C20, "C10": extra_C10, "C14": extra_C14, "C03": extra_C03, "C13": extra_sched("C13"), "C08": extra_sched("C08"), "C09": extra_sched("C09"), "C15": extra_C15, "C16": extra_sched("C16"), "C18": extra_sched("C18"), "C02": extra_sched("C02"), "C17": extra_sched("C17")}


def load_lines(path):
    with open(path) as f:
        return f.read().splitlines()


def first_divergence(ops, impl, model, proj):
    for i, o in enumerate(ops):
        im = impl[i] if i < len(impl) else "<none>"
        mo = model[i] if i < len(model) else "<none>"
        if proj(o, im) != proj(o, mo):
            return i
    return None


def correspondence(pid, cfg, tier, seed, log):
    """Run the property's slices. Returns coverage dict, list of divergences, list of monitor rejections."""
    thorough = tier == "thorough"
    cov = {"programs": 0, "evaluations": 0, "cells": set(), "slices": [], "samples": [], "hist": {}}
    divergences, rejections = [], []
    mon = M.MONITORS.get(pid)
    seeds = [seed] if not thorough else [seed, seed + 1000, seed + 2000]
    for (profile, kind, nq, nt, lq, lt) in cfg["slices"]:
        for sd in seeds:
            n, ln = (nt, lt) if thorough else (nq, lq)
            if thorough:
                n = n // len(seeds) + 1
            t0 = time.time()
            ops_p, impl_p, stats, hung = V.run_impl_gen(pid, sd, n, ln, profile, kind)
            ops, impl = load_lines(ops_p), load_lines(impl_p)
            model = V.run_model(ops_p)
            progs = V.split_programs(ops, impl, model)
            cov["programs"] += len(progs)
            cov["evaluations"] += len(ops)
            for k, v in stats.items():
                if k.startswith("cell:"):
                    cov["cells"].add(k[5:])
                if k.startswith(("op:", "res:", "cas:")):
                    cov["hist"][k] = cov["hist"].get(k, 0) + v
            cov["slices"].append({"profile": profile, "kind": kind, "seed": sd, "programs": len(progs), "lines": len(ops),
                                  "wall_s": round(time.time() - t0, 1), "implementation_hung": hung})
            if not cov["samples"] and progs:
                po, pi, _ = progs[0]
                cov["samples"].append({"slice": "%s/%s seed %d" % (profile, kind, sd),
                                       "lines": [{"op": o, "impl": r[:300]} for o, r in list(zip(po, pi))[1:7]]})
            for (po, pi, pm) in progs:
                d = first_divergence(po, pi, pm, cfg["proj"])
                if d is not None:
                    divergences.append({"slice": (profile, kind, sd), "ops": po, "line": d, "impl": pi[d], "model": pm[d]})
                if mon:
                    for r in mon(po, pi):
                        rejections.append(dict(r, ops=po, slice=(profile, kind, sd), impl=pi))
            for f in (ops_p, impl_p):
                try:
                    os.remove(f)
                except OSError:
                    pass
            if len(divergences) + len(rejections) > 40:
                break
    return cov, divergences, rejections


NO_COLLECTION_OPS = {"begin", "end", "clock", "now", "fire", "purge", "restart", "reopenmem", "draw", "expstate"}


def isolation_counterexample(ops):
    """Search for a collection whose calls answer differently when the calls addressed to other collections are removed."""
    import re
    from sched import rank_numbers
    colls = sorted({o.split(" ")[1] for o in ops if len(o.split(" ")) > 1 and re.fullmatch(r"c\d", o.split(" ")[1])})
    if len(colls) < 2:
        return None
    # the clock of the projected run is put, before every call, where it stood in the full run: the same CAS values are drawn, so
    # calls that name a CAS behave alike and whatever differs is caused by the calls that were left out
    traced, _ = V.run_impl_replay(ops, "isofull", env={"VERIF_TRACE_HLC": "1"})
    impl_full, hlc = [], []
    for l in traced:
        m = re.search(r" @hlc=(\d+)$", l)
        hlc.append(m.group(1) if m else None)
        impl_full.append(l[:m.start()] if m else l)
    for c in colls:
        keep = [i for i, o in enumerate(ops) if o.split(" ")[0] in NO_COLLECTION_OPS or (len(o.split(" ")) > 1 and o.split(" ")[1] == c)]
        proj = [ops[i] + (" @hlc=" + hlc[i] if i < len(hlc) and hlc[i] and ops[i].split(" ")[0] not in ("begin", "end", "restart") else "") for i in keep]
        impl_proj, _ = V.run_impl_replay(proj, "isoproj")
        mine = [j for j, i in enumerate(keep) if len(ops[i].split(" ")) > 1 and ops[i].split(" ")[1] == c and ops[i].split(" ")[0] != "lastcas"]
        # an expiry sweep draws one CAS per expired document of ANY collection inside one call, and collection ids are bucket-wide:
        # CAS values are compared by their order, ids not at all
        strip = lambda t: re.sub(r" id=\d+", "", t)
        a = rank_numbers([strip(impl_full[keep[j]]) if keep[j] < len(impl_full) else "<none>" for j in mine])
        b = rank_numbers([strip(impl_proj[j]) if j < len(impl_proj) else "<none>" for j in mine])
        for x, (ra, rb) in enumerate(zip(a, b)):
            if ra != rb:
                j = mine[x]
                return {"coll": c, "full": ops, "projected": proj, "got_full": ra[:600], "got_proj": rb[:600],
                        "msg": "`%s` answers differently when the calls addressed to other collections are left out" % ops[keep[j]][:120]}
    return None


def replay_file(pid, kind, ops, detail):
    d = os.path.join(V.VERIF, "replays")
    os.makedirs(d, exist_ok=True)
    path = os.path.join(d, "%s_%s_%d.json" % (pid, kind, int(time.time() * 1000) % 100000000))
    V.write_json(path, dict(property=pid, kind=kind, ops=ops, **detail))
    return path


def signature(pid, rule, ops, line):
    name = ops[line].split(" ", 1)[0] if 0 <= line < len(ops) else "?"
    return "%s/%s/%s" % (pid, rule, name)


def decide(pid, tier, seed, t0):
    cfg = PROPS[pid]
    log = {}
    gen_problems = V.prepare(log)
    obligations, discharged, broken, axioms = V.check_proofs(pid, cfg["modules"], log, thorough=(tier == "thorough"))
    if gen_problems:
        used = {m for mod in cfg["modules"] for m in V.module_files(mod)}
        mine = [g for g in gen_problems if ("gen: pure:" in g and "Rosmar.Gen.Pure" in used) or ("gen: facts:" in g and "Rosmar.Gen.Facts" in used)
                or ("gen: sql:" in g and "Rosmar.Gen.Sql" in used)
                or ("gen: pure:" not in g and "gen: facts:" not in g and "gen: sql:" not in g and any(m.startswith("Rosmar.Gen") for m in used))]
        broken = list(broken) + mine
    for mod in cfg.get("note_modules", []):
        # theorems documenting known findings: expected to stop holding when the code is repaired - a note, never a violation
        _, _, nb, _ = V.check_proofs(pid + "note", [mod], {})
        if nb:
            log.setdefault("known_finding_theorems_not_checking", []).extend(nb)
    cov, divergences, rejections = correspondence(pid, cfg, tier, seed, log)
    extra_cov, extra_viol = {}, []
    if pid in EXTRA:
        extra_cov, extra_viol = EXTRA[pid](tier, seed, log)
    known = V.load_known()
    open_findings = [k for k in known.get("open", []) if k["property"] == pid]
    known_sigs = {k["signature"] for k in open_findings}
    violations = []

    # (4) monitor rejections on implementation traces = concrete failing histories
    fresh = [r for r in rejections if signature(pid, r["rule"], r["ops"], r["line"]) not in known_sigs]
    for r in fresh[:3]:
        mon = M.MONITORS[pid]
        rule = r["rule"]

        def pred(ops, impl, model, rule=rule):
            return any(x["rule"] == rule for x in mon(ops, impl))
        try:
            small = V.shrink(r["ops"], cfg["proj"], pred) if tier else r["ops"]
        except MachineryError:
            small = r["ops"]
        impl, _ = V.run_impl_replay(small, "final")
        rej = [x for x in mon(small, impl) if x["rule"] == rule]
        if not rej:
            small, impl, rej = r["ops"], r["impl"], [r]
        path = replay_file(pid, "history", small, {"monitor_rule": rule, "message": rej[0]["msg"], "line": rej[0]["line"],
                                                   "observed": impl, "slice": list(r["slice"])})
        violations.append(("history", path, rule + ": " + rej[0]["msg"], False))
    # (5) broken correspondence / proofs without a monitor rejection: targeted search, else no-failing-input-found
    if not violations and (divergences or broken):
        found = None
        mon = M.MONITORS.get(pid)
        for d in divergences[:3]:
            try:
                small = V.shrink(d["ops"], cfg["proj"])
            except MachineryError:
                small = d["ops"]
            impl, opath = V.run_impl_replay(small, "final")
            model = V.run_model(opath)
            line = first_divergence(small, impl, model, cfg["proj"])
            rej = mon(small, impl) if mon else []
            rej = [x for x in rej if signature(pid, x["rule"], small, x["line"]) not in known_sigs]
            if not rej and cfg.get("isolation_search"):
                # C11 is a statement about independence: project the history onto one collection (dropping every call addressed to
                # another one) and run both on the real code - what that collection returns must be the same, CAS values up to their order
                iso = isolation_counterexample(d["ops"])
                if iso is not None:
                    found = replay_file(pid, "history", iso["full"], {"monitor_rule": "C11.other-collections-do-not-matter", "message": iso["msg"],
                                                                        "projected_history": iso["projected"], "collection": iso["coll"],
                                                                        "with_other_collections": iso["got_full"], "without": iso["got_proj"]})
                    violations.append(("history", found, "C11.other-collections-do-not-matter: " + iso["msg"], False))
                    break
            if not rej and mon and cfg.get("closing"):
                # the property speaks about the end of a history (e.g. "taken together, its runs deliver..."): complete the shrunk
                # history the way the generator ends its programs, then ask the monitor again
                closed = (small[:-1] if small and small[-1] == "end" else small) + cfg["closing"] + ["end"]
                cimpl, _ = V.run_impl_replay(closed, "closed")
                crej = [x for x in mon(closed, cimpl) if signature(pid, x["rule"], closed, x["line"]) not in known_sigs]
                if crej:
                    small, impl, rej = closed, cimpl, crej
                    line = None
            detail = {"line": line, "op": small[line] if line is not None else None,
                      "observed": impl[line] if line is not None and line < len(impl) else None,
                      "expected_by_model": model[line] if line is not None and line < len(model) else None,
                      "all_observed": impl, "slice": list(d["slice"])}
            if rej:
                detail.update(monitor_rule=rej[0]["rule"], message=rej[0]["msg"])
                found = replay_file(pid, "history", small, detail)
                violations.append(("history", found, rej[0]["rule"] + ": " + rej[0]["msg"], False))
                break
            if found is None:
                detail["no_longer_checks"] = "correspondence of the Lean model (%s) with the implementation on: %s" % (
                    ", ".join(cfg["modules"]), cfg["what"])
                found = replay_file(pid, "correspondence-broken", small, detail)
                violations.append(("correspondence-broken", found, "model and implementation differ at: %s" % detail["op"], True))
                break
        if not violations and broken:
            path = replay_file(pid, "proof-broken", [], {"no_longer_checks": broken, "build_errors": log.get("build_errors", [])})
            violations.append(("proof-broken", path, "proof obligations no longer check: %s" % ", ".join(broken[:5]), True))
    extra_sigs = {v.get("signature") for v in extra_viol}
    for v in extra_viol:
        if v.get("signature") in known_sigs:
            continue
        path = replay_file(pid, v.get("kind", "schedule"), v.get("ops", []), {k: x for k, x in v.items() if k not in ("kind", "ops", "property")})
        violations.append((v.get("kind", "schedule"), path, v.get("msg", ""), v.get("no_failing_input", False)))

    # a broken tie / proof for which some part of the search did find a failing input is reported with that input
    if any(not nofail for _, _, _, nofail in violations):
        dropped = [v for v in violations if v[3]]
        violations = [v for v in violations if not v[3]]
        if dropped:
            log.setdefault("also_broken", []).extend("%s: %s" % (k, m) for k, _, m, _ in dropped)

    # (6) known findings: replay each witness; print while it still fails
    for k in open_findings:
        still = True
        if k.get("kind") in ("schedule", "shutdown"):
            still = k["signature"] in extra_sigs
        elif "witness" in k and os.path.exists(os.path.join(V.VERIF, k["witness"])):
            still = witness_still_fails(pid, k)
        if still:
            print("KNOWN-FINDING: property=%s %s" % (pid, k["what"]))
        else:
            log.setdefault("known_findings_not_reproduced", []).append(k["signature"])
    # fixed findings: their witnesses must pass now
    for k in known.get("fixed", []):
        if k["property"] == pid and k.get("kind") not in ("schedule", "shutdown") and "witness" in k and os.path.exists(os.path.join(V.VERIF, k["witness"])):
            if witness_still_fails(pid, k):
                path = replay_file(pid, "history", load_lines(os.path.join(V.VERIF, k["witness"])), {"regressed_fix": k["commit"], "what": k["what"]})
                violations.append(("history", path, "fixed defect is back: " + k["what"], False))

    wall = round(time.time() - t0, 1)
    cells = sorted(cov["cells"])
    evidence = {
        "property_id": pid, "tier": tier, "seed": seed, "level": "proof", "wall_s": wall, "violations": len(violations),
        "coverage": {
            "obligations": max(len(obligations), 1), "discharged": len(discharged),
            "checker_cmd": "cd /verif/lean && lake build %s && lake env lean <audit with #print axioms>%s" % (
                " ".join(cfg["modules"]), " && lake env leanchecker <module>" if tier == "thorough" else ""),
            "trusted_base": ["Lean 4.33 kernel"] + ["axiom " + a for a in axioms] + [
                "hand-written Lean model tied to /repo by the correspondence check (Go harness, -tags verif) and by tools/gen regenerated facts",
                "SQLite, database/sql, Go runtime, encoding/json: modelled, validated only by correspondence"],
            "theorems": obligations, "not_discharged": broken,
            "programs": cov["programs"], "evaluations": cov["evaluations"], "distinct_nontrivial": len(cells),
            "rule": "programs are generated op sequences (%s); a case is non-trivial and distinct by its cell "
                    "(entry point / prior row-state class / result class) as counted by the harness" % cfg["what"],
            "disagreements_checked": len(divergences), "monitor_rejections": len(rejections),
            "samples": cov["samples"], "slices": cov["slices"], "histogram": cov["hist"], "cells": cells[:400],
            "exhaustive": False,
        },
        "assumptions": ["an atomic action of the model is atomic in the implementation (bucket mutex + BEGIN IMMEDIATE)",
                        "inputs are well-formed in the sense of DESIGN.md section 7 (WF)"],
    }
    evidence["coverage"].update(extra_cov)
    evidence["coverage"].update({k: v for k, v in log.items() if k in ("prepare_s", "leanchecker", "build_errors", "known_findings_not_reproduced", "known_finding_theorems_not_checking", "also_broken")})
    V.write_json(os.path.join(V.VERIF, "evidence", pid + ".json"), evidence)
    for kind, path, msg, nofail in violations:
        print("VIOLATION property=%s replay=%s%s" % (pid, path, " no-failing-input-found" if nofail else ""))
        print("  " + msg[:600])
    if not violations:
        print("OK property=%s tier=%s obligations=%d/%d programs=%d lines=%d cells=%d wall=%ss" % (
            pid, tier, len(discharged), len(obligations), cov["programs"], cov["evaluations"], len(cells), wall))
    return 1 if violations else 0


def witness_still_fails(pid, k):
    if k.get("kind") == "shutdown":
        import shutdown
        _, viols = shutdown.run("quick", 1, {}, only=set(k["scenarios"]))
        return any(v.get("signature") == k["signature"] for v in viols)
    if k.get("kind") == "schedule":
        import sched
        _, viols = sched.run_property(pid, {})
        return any(v.get("signature") == k["signature"] for v in viols)
    ops = load_lines(os.path.join(V.VERIF, k["witness"]))
    impl, opath = V.run_impl_replay(ops, "witness")
    mon = M.MONITORS.get(pid)
    rule = k.get("rule")
    if mon and rule:
        return any(x["rule"] == rule for x in mon(ops, impl))
    model = V.run_model(opath)
    return first_divergence(ops, impl, model, PROPS[k.get("proj_of", pid)]["proj"]) is not None


def replay(pid, path):
    with open(path) as f:
        r = json.load(f)
    log = {}
    V.prepare(log)
    ops = r.get("ops") or []
    kind = r.get("kind")
    if kind == "schedule" and r.get("scenario"):
        import sched
        sc = r["scenario"]
        impl, _ = sched.run_impl([sched.harness_scenario(sc)], pid + "replay")
        ok, detail = sched.check_scenario(sc, impl[0]) if impl else (False, {"why": "no result"})
        print(json.dumps(impl[0] if impl else {}, indent=1)[:6000])
        print("schedule %s: %s" % (sc["name"], "explained by a sequential order / expectations met" if ok else detail.get("why")))
        if not ok:
            print("VIOLATION property=%s replay=%s" % (pid, path))
        return 0 if ok else 1
    if kind == "stress":
        p = V.sh([V.HARNESS, "stress"], env=V.GOENV, timeout=300)
        print(p.stdout)
        bad = [l for l in p.stdout.splitlines() if l.startswith(("violation", "error"))]
        if bad:
            print("VIOLATION property=%s replay=%s" % (pid, path))
        return 1 if bad else 0
    if kind == "shutdown" and r.get("scenario"):
        import shutdown
        res = shutdown.run_one(r["scenario"])
        print(json.dumps(res, indent=1)[:6000])
        if res["verdict"] != "ok":
            print("VIOLATION property=%s replay=%s" % (pid, path))
        return 0 if res["verdict"] == "ok" else 1
    if kind == "crash" and "kill_at_point" in r:
        import crash
        os.makedirs(V.WORK, exist_ok=True)
        ops_path = os.path.join(V.WORK, "crash_replay.ops")
        obs_path = os.path.join(V.WORK, "crash_replay_obs.ops")
        with open(ops_path, "w") as f:
            f.write("\n".join(ops) + "\n")
        obs = crash.observe_lines()
        with open(obs_path, "w") as f:
            f.write("\n".join(obs) + "\n")
        d = os.path.join(V.WORK, "crashdir_replay")
        acks, uuid1, _, where, rc = crash.run_child(ops_path, d, "crashreplay", r["kill_at_point"])
        a = len(acks)
        bad = True
        for mode in ("reopen", "open"):
            uuid2, collids, seen, err = crash.run_reopen(obs_path, d, "crashreplay", mode)
            good = seen == crash.model_after(ops[:a], obs) or (a < len(ops) and seen == crash.model_after(ops[:a + 1], obs))
            print("killed at point %d (%s) after %d acknowledged lines; reopened with %s: %s" % (r["kill_at_point"], where, a, mode, "consistent" if good else "INCONSISTENT"))
            bad = bad and not good
            if not good:
                break
        shutil_rm = __import__("shutil").rmtree
        shutil_rm(d, ignore_errors=True)
        if not good:
            print("VIOLATION property=%s replay=%s" % (pid, path))
            return 1
        return 0
    if not ops:
        print("replay names proof obligations that no longer check:", r.get("no_longer_checks"))
        o, d, broken, _ = V.check_proofs(pid, PROPS[pid]["modules"], log)
        print("currently broken:", broken)
        return 1 if broken else 0
    impl, opath = V.run_impl_replay(ops, "replay")
    model = V.run_model(opath)
    mon = M.MONITORS.get(pid)
    rej = mon(ops, impl) if mon else []
    line = first_divergence(ops, impl, model, PROPS[pid]["proj"])
    for i, o in enumerate(ops):
        print("%3d %s\n      impl : %s\n      model: %s" % (i, o, impl[i] if i < len(impl) else "<none>", model[i] if i < len(model) else "<none>"))
    for x in rej:
        print("MONITOR %s at line %d: %s" % (x["rule"], x["line"], x["msg"]))
    if line is not None:
        print("DIVERGENCE at line %d" % line)
    if rej or line is not None:
        print("VIOLATION property=%s replay=%s" % (pid, path))
        return 1
    return 0
