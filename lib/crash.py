"""Crash atomicity (C10): a child process runs a generated history on an on-disk bucket and is SIGKILLed at the n-th
instrumentation point (before / inside / after every transaction, between the document write and the high-water-mark
write, before the post); a fresh process reopens the bucket and reads everything back; the Lean model's `restart` after the
acknowledged prefix (or the prefix plus the interrupted call, applied entirely) is the oracle."""
import os, shutil, subprocess
import vcheck as V

RB = "n=_sync,_sys,usr,u2,$document,$document.revid"


def gen_history(seed, length, profile="kv"):
    ops_p, impl_p, stats, hung = V.run_impl_gen("crashgen", seed, 1, length, profile, "disk")
    with open(ops_p) as f:
        lines = [l for l in f.read().splitlines() if l and not l.startswith("begin") and l != "end"]
    for p in (ops_p, impl_p):
        os.remove(p)
    # the crash child acknowledges line by line; observers stay (they are reads), expiry sweeps / feeds are not part of this slice
    return [l for l in lines if l.split(" ")[0] not in ("fire", "feed", "drain", "keys", "lastcas", "expstate")]


def observe_lines():
    out = []
    for c in ("c0", "c1", "c2"):
        for k in ("k0", "k1", "k2"):
            out.append("rb %s %s %s" % (c, k, RB))
        out.append("lastcas " + c)
        out.append("keys " + c)
    out.append("expstate")      # pending expirations are re-armed by the reopen
    out.append("ddocs c0")      # design documents survive, whole
    out.append("ddocs c1")
    return out


def run_child(ops_path, d, name, killat):
    if os.path.exists(d):
        shutil.rmtree(d)
    p = subprocess.run([V.HARNESS, "crashchild", "-ops", ops_path, "-dir", d, "-name", name, "-killat", str(killat)],
                       env=V.GOENV, capture_output=True, text=True, timeout=120)
    acks, uuid, points = [], None, None
    for l in p.stdout.splitlines():
        if l.startswith("ack "):
            _, i, npts, res = l.split(" ", 3)
            acks.append((int(i), int(npts), res))
        elif l.startswith("uuid "):
            uuid = l[5:]
        elif l.startswith("points "):
            points = int(l[7:])
    where = ""
    for l in p.stderr.splitlines():
        if l.startswith("killed at "):
            where = l[10:]
    return acks, uuid, points, where, p.returncode


def run_reopen(obs_path, d, name, mode="reopen"):
    p = subprocess.run([V.HARNESS, "reopen", "-dir", d, "-name", name, "-ops", obs_path], env=dict(V.GOENV, VERIF_REOPEN_MODE=mode),
                       capture_output=True, text=True, timeout=120)
    lines = p.stdout.splitlines()
    uuid = lines[0][5:] if lines and lines[0].startswith("uuid ") else None
    collids = [l for l in lines if l.startswith("collid ")]
    rest = [l for l in lines if not l.startswith(("uuid ", "collid "))]
    return uuid, collids, rest, (p.stderr or "")[-500:]


def model_after(prefix, obs):
    path = os.path.join(V.WORK, "crash_model_%d.ops" % os.getpid())
    with open(path, "w") as f:
        f.write("begin kind=disk prog=0\n" + "\n".join(prefix + ["restart hlc=0"] + obs) + "\nend\n")
    out = V.run_model(path)
    return out[1 + len(prefix):-1]


def run(tier, seed, log):
    thorough = tier == "thorough"
    histories = 6 if thorough else 3
    length = 14 if thorough else 10
    cov = {"crash_points_tried": 0, "kill_sites": {}, "histories": 0, "applied_entirely": 0, "not_applied": 0, "after_ack": 0}
    viols = []
    obs = observe_lines()
    os.makedirs(V.WORK, exist_ok=True)
    obs_path = os.path.join(V.WORK, "crash_obs_%d.ops" % os.getpid())
    with open(obs_path, "w") as f:
        f.write("\n".join(obs) + "\n")
    for h in range(histories):
        prof = ("kv", "expiry", "view")[h % 3]
        if prof == "view":
            # design documents: created, replaced by a different definition, replaced by an equal one, deleted - with writes in between
            v = lambda k, b: 'set c0 %s exp=0 raw=0 v=%s' % (k, b)
            ops = ["putddoc c0 dd0 v.v0=0: v.v1=1:_count", v("k0", '{"a":1}'), "view c0 dd0 v0", "putddoc c0 dd0 v.v0=2:_sum v.v2=3:",
                   v("k1", '{"a":2,"tags":["t0"]}'), "putddoc c1 dd1 v.v0=1:", "putddoc c0 dd0 v.v0=2:_sum v.v2=3:", "view c0 dd0 v0 reduce=0",
                   "putddoc c0 dd0 v.v0=1:", "delddoc c1 dd1", v("k0", '{"a":3}')]
        else:
            ops = gen_history(seed * 100 + h, length, prof)
        ops = [l for l in ops if l.split(" ")[0] not in ("now",)]
        ops_path = os.path.join(V.WORK, "crash_hist_%d.ops" % os.getpid())
        with open(ops_path, "w") as f:
            f.write("\n".join(ops) + "\n")
        d = os.path.join(V.WORK, "crashdir_%d" % os.getpid())
        name = "crash%d" % os.getpid()
        acks, uuid0, total, _, rc = run_child(ops_path, d, name, 0)
        if total is None or len(acks) != len(ops):
            raise V.MachineryError("crash child did not complete the history (rc=%s, %d/%d acks)" % (rc, len(acks), len(ops)))
        cov["histories"] += 1
        points = list(range(1, total + 1))
        if not thorough and len(points) > 30 and prof != "view":
            step = len(points) / 30.0
            points = sorted({points[int(i * step)] for i in range(30)} | {1, total})
        for n in points:
            acks, uuid1, _, where, rc = run_child(ops_path, d, name, n)
            a = len(acks)
            uuid2, collids, seen, err = run_reopen(obs_path, d, name, "open" if n % 2 else "reopen")   # ReOpenExisting / CreateOrOpen alternate
            cov["crash_points_tried"] += 1
            cov["kill_sites"][where] = cov["kill_sites"].get(where, 0) + 1
            want_a = model_after(ops[:a], obs)
            ok = seen == want_a
            which = "not_applied"
            if not ok and a < len(ops):
                want_b = model_after(ops[:a + 1], obs)
                ok = seen == want_b
                which = "applied_entirely"
            elif ok and a > 0 and where in ("txn.committed", "post.before"):
                which = "after_ack"
            if ok and uuid1 == uuid2 and collids == ["collid c0 1", "collid c1 2", "collid c2 3"]:
                cov[which] = cov.get(which, 0) + 1
                continue
            diff = [(i, s, w) for i, (s, w) in enumerate(zip(seen, want_a)) if s != w][:3]
            viols.append({"kind": "crash", "signature": "C10/crash/%s" % where, "ops": ops, "kill_at_point": n, "kill_site": where,
                          "acknowledged_lines": a, "interrupted_line": ops[a] if a < len(ops) else None,
                          "msg": "killed at point %d (%s) after %d acknowledged lines: the reopened bucket matches neither the acknowledged prefix nor "
                                 "the prefix plus the interrupted call (uuid %s->%s, %s)" % (n, where, a, uuid1, uuid2, collids),
                          "first_differences_vs_prefix": diff, "reopen_stderr": err})
            if len(viols) >= 3:
                break
        shutil.rmtree(d, ignore_errors=True)
        if len(viols) >= 3:
            break
    cov["exhaustive_crash_points"] = thorough
    return cov, viols
