"""Engine of /verif/check (see DESIGN.md section 5)."""
import argparse, fcntl, hashlib, json, os, re, shutil, subprocess, sys, time

VERIF = os.path.dirname(os.path.dirname(os.path.abspath(__file__)))
REPO = os.environ.get("VERIF_REPO", "/repo")
WORK = os.environ.get("VERIF_TMP", os.path.join(VERIF, ".work"))
LEAN = os.path.join(VERIF, "lean")
HARNESS_DIR = os.path.join(VERIF, "harness")
HARNESS = os.path.join(HARNESS_DIR, "rosmar-harness")
DRV = os.path.join(LEAN, ".lake", "build", "bin", "drv")
GOENV = dict(os.environ, GOFLAGS="-mod=mod", GOPROXY="off", GOSUMDB="off", GOTOOLCHAIN="local", VERIF_TMP=WORK)

ALLOWED_AXIOMS = {"propext", "Classical.choice", "Quot.sound"}
FORBIDDEN = re.compile(r"\b(sorry|admit|native_decide|bv_decide|implemented_by|unsafe)\b|^axiom\s|maxHeartbeats 0", re.M)


class MachineryError(Exception):
    pass


def sh(cmd, cwd=None, env=None, timeout=3600, check=False, input=None):
    p = subprocess.run(cmd, cwd=cwd, env=env, timeout=timeout, capture_output=True, text=True, input=input)
    if check and p.returncode != 0:
        raise MachineryError("command failed: %s\n%s\n%s" % (" ".join(cmd), p.stdout[-4000:], p.stderr[-4000:]))
    return p


class Lock:
    def __init__(self, name):
        os.makedirs(WORK, exist_ok=True)
        self.path = os.path.join(WORK, name)

    def __enter__(self):
        self.f = open(self.path, "w")
        fcntl.flock(self.f, fcntl.LOCK_EX)
        return self

    def __exit__(self, *a):
        fcntl.flock(self.f, fcntl.LOCK_UN)
        self.f.close()


# --------------------------------------------------------------------------------------------------
# prepare: everything is rebuilt from /repo's working tree (incremental tools decide what is stale)

def repo_fingerprint():
    h = hashlib.sha256()
    for fn in sorted(os.listdir(REPO)):
        if fn.endswith(".go") or fn.endswith(".sql") or fn in ("go.mod", "go.sum"):
            with open(os.path.join(REPO, fn), "rb") as f:
                h.update(fn.encode())
                h.update(f.read())
    return h.hexdigest()[:16]


def prepare(log):
    """Build the harness against /repo, regenerate Gen/*.lean from /repo, build the model driver."""
    with Lock("prepare.lock"):
        t0 = time.time()
        shutil.copyfile(os.path.join(REPO, "go.sum"), os.path.join(HARNESS_DIR, "go.sum"))
        with open(os.path.join(HARNESS_DIR, "go.mod"), "w") as f:
            f.write("module verif/harness\n\ngo 1.19\n\nrequire github.com/couchbaselabs/rosmar v0.0.0\n\n"
                    "replace github.com/couchbaselabs/rosmar => %s\n" % REPO)
        p = sh(["go", "build", "-tags", "verif", "-o", HARNESS, "."], cwd=HARNESS_DIR, env=GOENV)
        if p.returncode != 0:
            raise MachineryError("harness does not build against /repo:\n" + p.stderr[-3000:])
        gen_problems = regenerate(log)
        p = sh(["lake", "build", "drv"], cwd=LEAN)
        if p.returncode != 0:
            raise MachineryError("model driver does not build:\n" + (p.stdout + p.stderr)[-3000:])
        log["prepare_s"] = round(time.time() - t0, 1)
        return gen_problems


def regenerate(log):
    """Run the fact extractor / translator over /repo (tools/gen) writing lean/Rosmar/Gen/*.lean."""
    gen_dir = os.path.join(VERIF, "tools", "gen")
    os.makedirs(WORK, exist_ok=True)
    binp = os.path.join(gen_dir, "gen")
    out_dir = os.path.join(LEAN, "Rosmar", "Gen")
    os.makedirs(out_dir, exist_ok=True)
    h = hashlib.sha256(repo_fingerprint().encode())
    for fn in ("main.go", "sql.go", "go.mod"):
        with open(os.path.join(gen_dir, fn), "rb") as f:
            h.update(f.read())
    stamp_path = os.path.join(WORK, "gen.stamp")
    outs = [os.path.join(out_dir, "Pure.lean"), os.path.join(out_dir, "Facts.lean"), os.path.join(out_dir, "Sql.lean")]
    if os.path.exists(stamp_path) and all(os.path.exists(o) for o in outs):
        with open(stamp_path) as f:
            st = json.load(f)
        if st.get("key") == h.hexdigest() and st.get("repo") == REPO and all(file_hash(o) == st["outs"].get(os.path.basename(o)) for o in outs):
            return st.get("problems", [])
    p = sh(["go", "build", "-o", binp, "."], cwd=gen_dir, env=GOENV)
    if p.returncode != 0:
        raise MachineryError("gen does not build:\n" + p.stderr[-3000:])
    tmp_out = os.path.join(WORK, "gen_out_%d" % os.getpid())
    os.makedirs(tmp_out, exist_ok=True)
    p = sh([binp, "-repo", REPO, "-out", tmp_out], cwd=gen_dir, env=GOENV)
    problems = []
    if p.returncode != 0:
        # the translator met source it cannot translate: the theorems over THAT part of the generated definitions are unproved
        problems = [l.strip() for l in p.stderr.strip().splitlines() if l.startswith("gen: ")] or ["gen: failed"]
    for o in outs:
        src = os.path.join(tmp_out, os.path.basename(o))
        if os.path.exists(src) and (not os.path.exists(o) or file_hash(o) != file_hash(src)):
            shutil.copyfile(src, o)
    shutil.rmtree(tmp_out, ignore_errors=True)
    with open(stamp_path, "w") as f:
        json.dump({"key": h.hexdigest(), "repo": REPO, "problems": problems, "outs": {os.path.basename(o): file_hash(o) for o in outs if os.path.exists(o)}}, f)
    return problems


def file_hash(path):
    with open(path, "rb") as f:
        return hashlib.sha256(f.read()).hexdigest()


# --------------------------------------------------------------------------------------------------
# proof obligations

def theorem_names(path):
    names = []
    with open(path) as f:
        for line in f:
            m = re.match(r"^theorem\s+([A-Za-z0-9_.'!?]+)", line)
            if m:
                names.append(m.group(1))
    return names


def strip_comments(src):
    src = re.sub(r"/-.*?-/", "", src, flags=re.S)
    return re.sub(r"--.*", "", src)


def module_files(mod, seen=None):
    """The module's own source plus every Rosmar.* module it imports, transitively."""
    seen = seen if seen is not None else {}
    path = os.path.join(LEAN, *mod.split(".")) + ".lean"
    if mod in seen or not os.path.exists(path):
        return seen
    seen[mod] = path
    with open(path) as f:
        for line in f:
            m = re.match(r"^import\s+(Rosmar[A-Za-z0-9_.]*)", line)
            if m:
                module_files(m.group(1), seen)
    return seen


def check_proofs(pid, modules, log, thorough=False):
    """Build the property's theorem modules and audit their axioms. Returns (obligations, discharged, broken, axioms)."""
    broken, all_names, axioms_used = [], [], set()
    with Lock("lake.lock"):
        for mod in modules:
            path = os.path.join(LEAN, *mod.split(".")) + ".lean"
            if not os.path.exists(path):
                broken.append(mod + " (missing)")
                continue
            names = theorem_names(path)
            ns = "Rosmar."
            p = sh(["lake", "build", mod], cwd=LEAN, timeout=1500)
            if p.returncode != 0:
                errs = re.findall(r"error: [^\n]*\n?[^\n]*", p.stdout + p.stderr)
                log.setdefault("build_errors", []).extend(e.strip()[:400] for e in errs[:8])
                # which theorems still check? ask lean for each by elaborating an audit file below; if the module itself
                # fails to build none of them can be imported, so all are counted as not discharged
                broken.extend(names or [mod])
                all_names.extend(names)
                continue
            for m, f in module_files(mod).items():
                with open(f) as fh:
                    bad = FORBIDDEN.findall(strip_comments(fh.read()))
                if bad:
                    broken.append("%s uses forbidden construct %s" % (m, bad[0]))
            audit = os.path.join(WORK, "Audit_%s_%s.lean" % (pid, mod.replace(".", "_")))
            with open(audit, "w") as f:
                with open(path) as src:
                    spaces = re.findall(r"^namespace\s+(\S+)", src.read(), flags=re.M)
                f.write("import %s\nopen %s\n" % (mod, " ".join(dict.fromkeys(["Rosmar"] + spaces))))
                for n in names:
                    f.write("#print axioms %s\n" % n)
            p = sh(["lake", "env", "lean", audit], cwd=LEAN)
            out = p.stdout + p.stderr
            for n in names:
                all_names.append(n)
                m = re.search(r"'(?:[\w]+\.)*%s' (does not depend on any axioms|depends on axioms: \[([^\]]*)\])" % re.escape(n), out)
                if not m:
                    broken.append(n + " (not found by the audit)")
                    continue
                axs = set(a.strip() for a in (m.group(2) or "").split(",") if a.strip())
                axioms_used |= axs
                if not axs <= ALLOWED_AXIOMS:
                    broken.append("%s depends on %s" % (n, sorted(axs - ALLOWED_AXIOMS)))
            if thorough:
                p = sh(["lake", "env", "leanchecker", mod], cwd=LEAN, timeout=1800)
                log.setdefault("leanchecker", {})[mod] = "ok" if p.returncode == 0 else (p.stdout + p.stderr)[-500:]
                if p.returncode != 0:
                    broken.append(mod + " rejected by leanchecker")
    discharged = [n for n in all_names if not any(b == n or b.startswith(n + " ") for b in broken)]
    return all_names, discharged, broken, sorted(axioms_used)


# --------------------------------------------------------------------------------------------------
# correspondence

def run_impl_gen(tag, seed, programs, length, profile, kind):
    os.makedirs(WORK, exist_ok=True)
    base = os.path.join(WORK, "%s_%s_%s_%d" % (tag, profile, kind, seed))
    ops, impl, stats = base + ".ops", base + ".impl", base + ".stats"
    for f in (ops, impl, stats):
        if os.path.exists(f):
            os.remove(f)
    p = sh([HARNESS, "gen", "-seed", str(seed), "-programs", str(programs), "-len", str(length), "-profile", profile,
            "-kind", kind, "-ops", ops, "-out", impl, "-stats", stats], env=GOENV, timeout=3000)
    hung = p.returncode == 3
    if p.returncode not in (0, 3):
        raise MachineryError("harness gen failed (%d): %s" % (p.returncode, (p.stderr or p.stdout)[-2000:]))
    st = {}
    if os.path.exists(stats):
        with open(stats) as f:
            st = json.load(f)
    return ops, impl, st, hung


def run_model(ops_path):
    with open(ops_path) as f:
        p = subprocess.run([DRV], stdin=f, capture_output=True, text=True, timeout=1800)
    if p.returncode != 0:
        raise MachineryError("model driver failed: " + p.stderr[-2000:])
    return p.stdout.splitlines()


def run_impl_replay(ops_lines, tag="replay", env=None):
    os.makedirs(WORK, exist_ok=True)
    path = os.path.join(WORK, "%s_%d.ops" % (tag, os.getpid()))
    with open(path, "w") as f:
        f.write("\n".join(ops_lines) + "\n")
    p = sh([HARNESS, "run", "-ops", path], env=dict(GOENV, **(env or {})), timeout=600)
    if p.returncode not in (0, 3):
        raise MachineryError("harness run failed: " + (p.stderr or p.stdout)[-2000:])
    return p.stdout.splitlines(), path


def split_programs(ops_lines, impl_lines, model_lines):
    """Yield (ops, impl, model) per program (between begin/end)."""
    progs, cur = [], None
    n = min(len(ops_lines), len(impl_lines), len(model_lines))
    for i in range(len(ops_lines)):
        o = ops_lines[i]
        im = impl_lines[i] if i < len(impl_lines) else "<no output: implementation stopped>"
        mo = model_lines[i] if i < len(model_lines) else "<no model output>"
        if o.startswith("begin"):
            cur = ([o], [im], [mo])
        elif o == "end":
            if cur is not None:
                cur[0].append(o); cur[1].append(im); cur[2].append(mo)
                progs.append(cur)
            cur = None
        elif cur is not None:
            cur[0].append(o); cur[1].append(im); cur[2].append(mo)
    if cur is not None:
        progs.append(cur)
    return progs


# ---- projections: which part of a result line matters for a property -------------------------------

def toks(line):
    return line.split(" ")


def rb_fields(res):
    """Parse a readback result line into a dict of its fields."""
    d = {}
    parts = res.split(" | ")
    row = parts[0].split(" ")
    d["row"] = row[0]
    for t in row[1:]:
        if t.startswith("v") and (t[1:2] in ("~", "=")) and "v" not in d:
            d["row.v"] = t[1:]
        elif t.startswith("x") and (t[1:2] in ("~", "=")) and "row.x" not in d and not t.startswith("xattr"):
            d["row.x"] = t[1:]
        elif "=" in t:
            k, v = t.split("=", 1)
            d["row." + k] = v
    if len(parts) > 1:
        for t in parts[1].split(" "):
            if "=" in t:
                k, v = t.split("=", 1)
                d[k] = v
    return d


def ev_fields(tok):
    if not tok.startswith("ev:{"):
        return {"marker": tok}
    d = {}
    for kv in tok[4:-1].split(";"):
        if kv.startswith("v") and kv[1:2] in ("~", "="):
            d["v"] = kv[1:]
        elif "=" in kv:
            k, v = kv.split("=", 1)
            d[k] = v
    return d


def proj_all(op, res):
    return res


def proj_fields(rb=None, ev=None, results=True, ops=None):
    """Build a projection keeping the named readback fields, event fields, and (optionally) op results."""
    def proj(op, res):
        name = op.split(" ", 1)[0]
        if name == "rb":
            if rb is None:
                return ""
            if rb == "*":
                return res
            d = rb_fields(res)
            return " ".join("%s=%s" % (k, d.get(k, "")) for k in rb)
        if name == "drain":
            if ev is None:
                return ""
            if ev == "*":
                return res
            out = []
            for t in res.split(" "):
                if t.startswith("ev:"):
                    d = ev_fields(t)
                    out.append(",".join("%s=%s" % (k, d.get(k, d.get("marker", ""))) for k in ev))
                else:
                    out.append(t)
            return " ".join(out)
        if not results:
            return ""
        if ops is not None and name not in ops:
            return ""
        return res
    return proj


# --------------------------------------------------------------------------------------------------
# shrinking a divergent program

def groups_of(ops):
    """Split a program's op lines into removable groups: [header], (clock/now lines + one op + its observers)*, [trailer]."""
    header, body, trailer = [ops[0]], ops[1:], []
    if body and body[-1] == "end":
        trailer = [body[-1]]
        body = body[:-1]
    groups, cur = [], []
    observers = ("rb", "drain", "lastcas", "keys", "expstate")
    for l in body:
        name = l.split(" ", 1)[0]
        if name in observers and cur and any(x.split(" ", 1)[0] not in ("clock", "now") for x in cur):
            cur.append(l)
        elif name in ("clock", "now"):
            if cur and any(x.split(" ", 1)[0] not in ("clock", "now") for x in cur):
                groups.append(cur)
                cur = []
            cur.append(l)
        else:
            if cur and any(x.split(" ", 1)[0] not in ("clock", "now") for x in cur):
                groups.append(cur)
                cur = []
            cur.append(l)
    if cur:
        groups.append(cur)
    return header, groups, trailer


def divergence_signature(ops, impl, model, proj):
    """(operation name, implementation result class, model result class) of the first divergent line, or None."""
    for i, o in enumerate(ops):
        im = impl[i] if i < len(impl) else "<none>"
        mo = model[i] if i < len(model) else "<none>"
        if proj(o, im) != proj(o, mo):
            return (o.split(" ")[0], im.split(" ")[0], mo.split(" ")[0])
    return None


def still_fails(ops, proj, predicate=None, want=None):
    impl, _ = run_impl_replay(ops, "shrink")
    path = os.path.join(WORK, "shrink_%d.ops" % os.getpid())
    model = run_model(path)
    if any(l.startswith("r=harness-") for l in impl):
        return False        # the candidate is not a well-formed program any more (e.g. a drain of a feed whose start was removed)
    if predicate is not None:
        return predicate(ops, impl, model)
    sig = divergence_signature(ops, impl, model, proj)
    # removing lines may not turn the divergence into a different one (another operation, another kind of result)
    return sig is not None and (want is None or sig == want)


def shrink(ops, proj, predicate=None, budget=120):
    header, groups, trailer = groups_of(ops)
    want = None
    if predicate is None:
        impl0, opath0 = run_impl_replay(ops, "shrink0")
        want = divergence_signature(ops, impl0, run_model(opath0), proj)
    # keep only up to the first divergent line's group: everything after is irrelevant
    runs = 0
    i = len(groups) - 1
    while i >= 0 and runs < budget:
        cand = groups[:i] + groups[i + 1:]
        flat = header + [l for g in cand for l in g] + trailer
        runs += 1
        try:
            if still_fails(flat, proj, predicate, want):
                groups = cand
        except MachineryError:
            pass
        i -= 1
    return header + [l for g in groups for l in g] + trailer


# --------------------------------------------------------------------------------------------------
# evidence, replay files, verdict

def write_json(path, obj):
    os.makedirs(os.path.dirname(path), exist_ok=True)
    tmp = path + ".tmp"
    with open(tmp, "w") as f:
        json.dump(obj, f, indent=1, sort_keys=True)
    os.replace(tmp, path)


def load_known():
    path = os.path.join(VERIF, "known_findings.json")
    if not os.path.exists(path):
        return {"open": [], "fixed": []}
    with open(path) as f:
        return json.load(f)


def main(argv):
    ap = argparse.ArgumentParser()
    ap.add_argument("property")
    ap.add_argument("--tier", default=os.environ.get("VERIF_TIER", "quick"))
    ap.add_argument("--replay")
    args = ap.parse_args(argv)
    seed = int(os.environ.get("VERIF_SEED", "1"))
    sys.path.insert(0, os.path.join(VERIF, "lib"))
    import props
    pid = args.property
    if pid not in props.PROPS:
        print("unknown property", pid)
        return 2
    t0 = time.time()
    try:
        if args.replay:
            return props.replay(pid, args.replay)
        return props.decide(pid, args.tier, seed, t0)
    except MachineryError as e:
        print("MACHINERY-ERROR property=%s: %s" % (pid, e))
        return 2
    except subprocess.TimeoutExpired as e:
        print("MACHINERY-ERROR property=%s: timeout %s" % (pid, e))
        return 2
