"""Forced schedules: run a scenario on the real code with goroutines parked at instrumentation points, then check that what every
thread and every later observer saw equals what SOME one-at-a-time execution of the same calls produces in the Lean model
(linearizability against the sequential model, for the exact interleaving forced)."""
import itertools, json, os, re
import vcheck as V

N = "n=_sync,_sys,usr,u2,$document,$document.revid"


def canon(line):
    """Compare modulo things a different interleaving legitimately changes: callback invocation counts / what retried callbacks saw (but not what the last, stored, invocation saw),
    and the absolute CAS numbers (an aborted attempt also draws a timestamp) - CAS values are replaced by their rank."""
    line = re.sub(r" calls=\d+", "", line)
    # of what the callback was shown, only the LAST version matters: that is the one its stored result was computed from
    # ("a callback's result is stored only on the version it was shown"); earlier, retried invocations differ legitimately
    m = re.search(r" seen=(\S*)", line)
    if m:
        items = re.split(r",(?=[~=])", m.group(1))
        line = line[:m.start()] + " lastseen=" + items[-1] + line[m.end():]
    return line


def rank_numbers(lines):
    nums = sorted({int(x) for l in lines for x in re.findall(r"(?<![\w.])(\d{7,})(?![\w.])", l)})
    rank = {n: i for i, n in enumerate(nums)}
    return [re.sub(r"(?<![\w.])(\d{7,})(?![\w.])", lambda m: "#%d" % rank[int(m.group(1))], l) for l in lines]


def run_impl(scenarios, tag):
    os.makedirs(V.WORK, exist_ok=True)
    inp = os.path.join(V.WORK, "sched_%s_%d.in" % (tag, os.getpid()))
    with open(inp, "w") as f:
        for s in scenarios:
            f.write(json.dumps(s) + "\n")
    p = V.sh([V.HARNESS, "sched", "-in", inp], env=V.GOENV, timeout=600)
    out = [json.loads(l) for l in p.stdout.splitlines() if l.strip().startswith("{")]
    return out, p.returncode


def harness_scenario(sc):
    steps = [{"do": "run", "line": l} for l in sc.get("setup", [])]
    steps += sc["script"]
    steps += [{"do": "run", "line": l} for l in sc.get("observe", [])]
    return {"name": sc["name"], "kind": sc.get("kind", "mem"), "steps": steps}


def model_outputs(kind, lines):
    path = os.path.join(V.WORK, "sched_model_%d.ops" % os.getpid())
    with open(path, "w") as f:
        f.write("begin kind=%s prog=0\n" % kind + "\n".join(lines) + "\nend\n")
    out = V.run_model(path)
    return out[1:-1]


def check_expectations(sc, impl):
    """Scenarios that state what must be observed (regular expressions over the observer lines) instead of comparing with the
    sequential model."""
    res = impl["results"]
    nobs = len(sc.get("observe", []))
    obs = [r["result"] for r in res[len(res) - nobs:]] if nobs else []
    for idx, rx, why in sc["expect"]:
        if idx == "all":
            # the expectation speaks about everything observed, taken together
            if not re.search(rx, " || ".join(obs)):
                return False, {"why": "%s (observed: %s)" % (why, " || ".join(obs)), "results": res}
            continue
        if idx >= len(obs) or not re.search(rx, obs[idx]):
            return False, {"why": "%s (observed: %s)" % (why, obs[idx] if idx < len(obs) else "<nothing>"), "results": res}
    return True, {"matches_order": "expectations"}


def check_scenario(sc, impl):
    """Returns (ok, detail). impl is the harness' result object for this scenario."""
    if impl.get("stuck"):
        return False, {"why": "the implementation hung (deadlock) under this schedule", "results": impl.get("results"), "trace": impl.get("trace"),
                       "goroutines": (impl.get("goroutines") or "")[:3000]}
    res = impl["results"]
    nsetup, nobs = len(sc.get("setup", [])), len(sc.get("observe", []))
    by_thread = {r["thread"]: r["result"] for r in res if "thread" in r and not r["result"].startswith(("await-timeout", "not-parked"))}
    timeouts = [r for r in res if r.get("result", "").startswith("await-timeout")]
    if timeouts:
        return False, {"why": "a thread never reached its park point (machinery or changed code shape)", "results": res}
    if "expect" in sc:
        return check_expectations(sc, impl)
    runs = [r for r in res if "line" in r]
    setup_res = [r["result"] for r in runs[:nsetup]]
    obs_res = [r["result"] for r in runs[len(runs) - nobs:]] if nobs else []
    mid = runs[nsetup:len(runs) - nobs] if nobs else runs[nsetup:]
    # the calls whose order is in question: spawned threads' ops and ops run by the script between setup and observation
    calls = [(t, l) for t, l in sc["threads"].items()] + [("main%d" % i, r["line"]) for i, r in enumerate(mid)]
    call_res = dict(by_thread)
    for i, r in enumerate(mid):
        call_res["main%d" % i] = r["result"]
    # a racing call's own result is compared without the registry snapshot the harness appends (taken at an arbitrary moment)
    strip = lambda x: x.split(" | ")[0]
    impl_view = rank_numbers([canon(x) for x in setup_res + [strip(call_res.get(t, "<none>")) for t, _ in calls] + obs_res])
    tried = []
    for perm in itertools.permutations(range(len(calls))):
        lines = sc.get("setup", []) + [calls[i][1] for i in perm] + sc.get("observe", [])
        mo = model_outputs(sc.get("kind", "mem"), lines)
        ms, mc, mobs = mo[:nsetup], mo[nsetup:nsetup + len(calls)], mo[nsetup + len(calls):]
        inv = {calls[i][0]: mc[pos] for pos, i in enumerate(perm)}
        model_view = rank_numbers([canon(x) for x in ms + [strip(inv[t]) for t, _ in calls] + mobs])
        if model_view == impl_view:
            return True, {"matches_order": [calls[i][0] for i in perm]}
        tried.append({"order": [calls[i][0] for i in perm], "model": model_view})
    return False, {"why": "no one-at-a-time order of the calls explains what was observed", "observed": impl_view, "candidates": tried[:6],
                   "trace": impl.get("trace")}


# ------------------------------------------------------------------------------------------------------------
# scenarios

def kv_setup(extra=()):
    return ["clock t=2097152", 'set c0 k exp=0 raw=0 v={"a":1,"b":2}', "clock t=3145728"] + list(extra)


SCENARIOS = {
    "C03": [
        dict(name="update-vs-set", setup=kv_setup(), threads={"A": 'update c0 k exp=0 cb=set:{"u":1}'},
             script=[{"do": "park", "thread": "A", "point": "update.afterread"}, {"do": "spawn", "thread": "A", "line": 'update c0 k exp=0 cb=set:{"u":1}'},
                     {"do": "await", "thread": "A", "point": "update.afterread"}, {"do": "run", "line": 'set c0 k exp=0 raw=0 v={"s":2}'},
                     {"do": "release", "thread": "A"}, {"do": "join", "thread": "A"}],
             observe=["rb c0 k " + N]),
        dict(name="update-delete-vs-wcas", setup=kv_setup(), threads={"A": "update c0 k exp=0 cb=del"},
             script=[{"do": "park", "thread": "A", "point": "update.afterread"}, {"do": "spawn", "thread": "A", "line": "update c0 k exp=0 cb=del"},
                     {"do": "await", "thread": "A", "point": "update.afterread"}, {"do": "run", "line": 'wcas c0 k exp=0 cas=2097152 opt=0 v={"w":3}'},
                     {"do": "release", "thread": "A"}, {"do": "join", "thread": "A"}],
             observe=["rb c0 k " + N]),
        # a callback that decides from what it is shown: it may only delete the version it saw
        dict(name="update-conditional-delete-vs-set", setup=kv_setup(), threads={"A": 'update c0 k exp=0 cb=delif:{"a":1,"b":2}'},
             script=[{"do": "park", "thread": "A", "point": "update.afterread"}, {"do": "spawn", "thread": "A", "line": 'update c0 k exp=0 cb=delif:{"a":1,"b":2}'},
                     {"do": "await", "thread": "A", "point": "update.afterread"}, {"do": "run", "line": 'set c0 k exp=0 raw=0 v={"s":2}'},
                     {"do": "release", "thread": "A"}, {"do": "join", "thread": "A"}],
             observe=["rb c0 k " + N]),
        dict(name="update-of-a-deleted-key-vs-add", setup=kv_setup(["delete c0 k", "clock t=4194304"]),
             threads={"A": 'update c0 k exp=0 cb=setifnil:{"u":1}'},
             script=[{"do": "park", "thread": "A", "point": "update.afterread"}, {"do": "spawn", "thread": "A", "line": 'update c0 k exp=0 cb=setifnil:{"u":1}'},
                     {"do": "await", "thread": "A", "point": "update.afterread"}, {"do": "run", "line": 'add c0 k exp=0 json=1 v={"added":1}'},
                     {"do": "release", "thread": "A"}, {"do": "join", "thread": "A"}],
             observe=["rb c0 k " + N]),
        dict(name="subdoc-write-vs-removal-of-another-property", setup=kv_setup(), threads={"A": "wsd c0 k path=a cas=0 v=100"},
             script=[{"do": "park", "thread": "A", "point": "subdoc.afterread"}, {"do": "spawn", "thread": "A", "line": "wsd c0 k path=a cas=0 v=100"},
                     {"do": "await", "thread": "A", "point": "subdoc.afterread"}, {"do": "run", "line": "wsd c0 k path=b cas=0 v="},
                     {"do": "release", "thread": "A"}, {"do": "join", "thread": "A"}],
             observe=["rb c0 k " + N]),
        dict(name="subdoc-insert-vs-removal-of-that-property", setup=kv_setup(), threads={"A": "sdi c0 k path=b cas=0 v=7"},
             script=[{"do": "park", "thread": "A", "point": "subdoc.afterread"}, {"do": "spawn", "thread": "A", "line": "sdi c0 k path=b cas=0 v=7"},
                     {"do": "await", "thread": "A", "point": "subdoc.afterread"}, {"do": "run", "line": "wsd c0 k path=b cas=0 v="},
                     {"do": "release", "thread": "A"}, {"do": "join", "thread": "A"}],
             observe=["rb c0 k " + N]),
        dict(name="subdoc-insert-vs-set-of-that-property", setup=kv_setup(), threads={"A": "sdi c0 k path=c cas=0 v=7"},
             script=[{"do": "park", "thread": "A", "point": "subdoc.afterread"}, {"do": "spawn", "thread": "A", "line": "sdi c0 k path=c cas=0 v=7"},
                     {"do": "await", "thread": "A", "point": "subdoc.afterread"}, {"do": "run", "line": "wsd c0 k path=c cas=0 v=9"},
                     {"do": "release", "thread": "A"}, {"do": "join", "thread": "A"}],
             observe=["rb c0 k " + N]),
        dict(name="incr-vs-incr", setup=["clock t=2097152", "set c0 n exp=0 raw=0 v=10", "clock t=3145728"],
             threads={"A": "incr c0 n amt=5 def=0 exp=0", "B": "incr c0 n amt=7 def=0 exp=0"},
             script=[{"do": "park", "thread": "A", "point": "txn.begin"}, {"do": "spawn", "thread": "A", "line": "incr c0 n amt=5 def=0 exp=0"},
                     {"do": "await", "thread": "A", "point": "txn.begin"}, {"do": "spawn", "thread": "B", "line": "incr c0 n amt=7 def=0 exp=0"},
                     {"do": "sleep", "ms": 30}, {"do": "release", "thread": "A"}, {"do": "join", "thread": "A"}, {"do": "join", "thread": "B"}],
             observe=["rb c0 n " + N]),
        dict(name="subdoc-vs-subdoc", setup=kv_setup(), threads={"A": "wsd c0 k path=a cas=0 v=100"},
             script=[{"do": "park", "thread": "A", "point": "subdoc.afterread"}, {"do": "spawn", "thread": "A", "line": "wsd c0 k path=a cas=0 v=100"},
                     {"do": "await", "thread": "A", "point": "subdoc.afterread"}, {"do": "run", "line": "wsd c0 k path=b cas=0 v=200"},
                     {"do": "release", "thread": "A"}, {"do": "join", "thread": "A"}],
             observe=["rb c0 k " + N]),
        dict(name="writeupdatewithxattrs-vs-updatexattrs",
             setup=["clock t=2097152", 'wwx c0 k exp=0 cas=0 v={"a":1} x._sync={"r":1}', "clock t=3145728"],
             threads={"A": 'wuwx c0 k exp=0 n=_sync,usr cb=doc:{"a":2} x._sync={"r":2}'},
             script=[{"do": "park", "thread": "A", "point": "wuwx.afterread"}, {"do": "spawn", "thread": "A", "line": 'wuwx c0 k exp=0 n=_sync,usr cb=doc:{"a":2} x._sync={"r":2}'},
                     {"do": "await", "thread": "A", "point": "wuwx.afterread"}, {"do": "run", "line": 'updx c0 k exp=0 cas=2097152 x.usr={"q":9}'},
                     {"do": "release", "thread": "A"}, {"do": "join", "thread": "A"}],
             observe=["rb c0 k " + N]),
        dict(name="writeupdatewithxattrs-of-an-absent-key-vs-creation-of-a-tombstone-with-xattrs",
             setup=["clock t=2097152", 'set c0 other exp=0 raw=0 v={"o":1}', "clock t=3145728"],
             threads={"A": 'wuwx c0 k exp=0 n=_sync,usr cb=doc:{"a":2} x._sync={"r":2}'},
             script=[{"do": "park", "thread": "A", "point": "wuwx.afterread"}, {"do": "spawn", "thread": "A", "line": 'wuwx c0 k exp=0 n=_sync,usr cb=doc:{"a":2} x._sync={"r":2}'},
                     {"do": "await", "thread": "A", "point": "wuwx.afterread"}, {"do": "run", "line": 'wtx c0 k exp=0 cas=0 x._sync={"t":1} x.usr={"q":9}'},
                     {"do": "release", "thread": "A"}, {"do": "join", "thread": "A"}],
             observe=["rb c0 k " + N]),
        dict(name="update-vs-touch-between-its-read-and-its-write", setup=kv_setup(),
             threads={"A": 'update c0 k exp=0 cb=set:{"u":1}'},
             script=[{"do": "park", "thread": "A", "point": "update.afterread"}, {"do": "spawn", "thread": "A", "line": 'update c0 k exp=0 cb=set:{"u":1}'},
                     {"do": "await", "thread": "A", "point": "update.afterread"}, {"do": "run", "line": "touch c0 k exp=1800000500"},
                     {"do": "release", "thread": "A"}, {"do": "join", "thread": "A"}],
             observe=["rb c0 k " + N]),
        # calls overtaken between what they read before their transaction and the transaction itself (txn.enter: before the bucket mutex)
        dict(name="set-preserving-expiry-overtaken-by-a-set-with-expiry", setup=kv_setup(),
             threads={"A": 'set c0 k exp=0 pe=1 raw=0 v={"p":1}'},
             script=[{"do": "park", "thread": "A", "point": "txn.enter"}, {"do": "spawn", "thread": "A", "line": 'set c0 k exp=0 pe=1 raw=0 v={"p":1}'},
                     {"do": "await", "thread": "A", "point": "txn.enter"}, {"do": "run", "line": 'set c0 k exp=1800000500 raw=0 v={"s":2}'},
                     {"do": "release", "thread": "A"}, {"do": "join", "thread": "A"}],
             observe=["rb c0 k " + N]),
        dict(name="two-setwithmeta-on-the-same-version", setup=kv_setup(),
             threads={"A": 'swm c0 k old=2097152 new=5000001 exp=0 v={"m":1} dt=1'},
             script=[{"do": "park", "thread": "A", "point": "txn.enter"}, {"do": "spawn", "thread": "A", "line": 'swm c0 k old=2097152 new=5000001 exp=0 v={"m":1} dt=1'},
                     {"do": "await", "thread": "A", "point": "txn.enter"}, {"do": "run", "line": 'swm c0 k old=2097152 new=5000002 exp=0 v={"m":2} dt=1'},
                     {"do": "release", "thread": "A"}, {"do": "join", "thread": "A"}],
             observe=["rb c0 k " + N]),
        dict(name="write-in-transaction-vs-read", setup=kv_setup(), threads={"A": 'set c0 k exp=0 raw=0 v={"s":9}'},
             script=[{"do": "park", "thread": "A", "point": "txn.precommit"}, {"do": "spawn", "thread": "A", "line": 'set c0 k exp=0 raw=0 v={"s":9}'},
                     {"do": "await", "thread": "A", "point": "txn.precommit"}, {"do": "release", "thread": "A"}, {"do": "join", "thread": "A"}],
             observe=["rb c0 k " + N]),
    ],
    "C13": [
        dict(name="racing-opens-of-an-existing-bucket", kind="reg",
             setup=["open h9 url=d0 name=A mode=0", "put h9 x v=1", "hclose h9"],
             threads={"A": "open h0 url=d0 name=A mode=0"},
             script=[{"do": "park", "thread": "A", "point": "open.beforeregister"}, {"do": "spawn", "thread": "A", "line": "open h0 url=d0 name=A mode=0"},
                     {"do": "await", "thread": "A", "point": "open.beforeregister"}, {"do": "run", "line": "open h1 url=d0 name=A mode=0"},
                     {"do": "release", "thread": "A"}, {"do": "join", "thread": "A"}],
             observe=["put h0 y v=2", "hclose h1", "put h0 z v=3", "get h0 x", "hclose h0", "open h2 url=d0 name=A mode=2", "get h2 z"]),
        dict(name="racing-closes-of-two-handles", kind="reg",
             setup=["open h0 url=d0 name=A mode=0", "open h1 url=d0 name=A mode=0", "open h2 url=d0 name=A mode=0", "put h0 x v=1"],
             threads={"A": "hclose h0"},
             script=[{"do": "park", "thread": "A", "point": "close.afterunregister"}, {"do": "spawn", "thread": "A", "line": "hclose h0"},
                     {"do": "await", "thread": "A", "point": "close.afterunregister"}, {"do": "run", "line": "hclose h1"},
                     {"do": "release", "thread": "A"}, {"do": "join", "thread": "A"}],
             observe=["put h2 y v=2", "get h2 x", "put h0 q v=1", "hclose h2"]),
    ],
    "C08": [
        dict(name="post-after-unlock-reorders-delivery", setup=["feed f0 c0 bf=none", "clock t=2097152"],
             threads={"A": 'set c0 k1 exp=0 raw=0 v={"w":1}'},
             script=[{"do": "park", "thread": "A", "point": "post.before"}, {"do": "spawn", "thread": "A", "line": 'set c0 k1 exp=0 raw=0 v={"w":1}'},
                     {"do": "await", "thread": "A", "point": "post.before"}, {"do": "run", "line": 'set c0 k2 exp=0 raw=0 v={"w":2}'},
                     {"do": "release", "thread": "A"}, {"do": "join", "thread": "A"}],
             observe=["drain f0"]),
    ],
    "C16": [
        dict(name="terminator-closed-in-the-middle-of-a-dump", kind="mem",
             setup=["clock t=2097152", 'set c0 k0 exp=0 raw=0 v={"w":0}', "clock t=3145728", 'set c0 k1 exp=0 raw=0 v={"w":1}',
                    "clock t=4194304", 'set c0 k2 exp=0 raw=0 v={"w":2}', "clock t=5242880", 'set c0 k3 exp=0 raw=0 v={"w":3}',
                    "clock t=6291456", 'set c0 k4 exp=0 raw=0 v={"w":4}'],
             threads={},
             script=[{"do": "claim", "thread": "D", "point": "feed.deliver"}, {"do": "park", "thread": "D", "point": "feed.deliver", "nth": 2},
                     {"do": "spawn", "thread": "F", "line": "feed f0 c0 bf=0 dump=1"},
                     {"do": "await", "thread": "D", "point": "feed.deliver"},
                     {"do": "spawn", "thread": "S", "line": "stopfeed f0"}, {"do": "sleep", "ms": 60},
                     {"do": "release", "thread": "D"}, {"do": "join", "thread": "S"}, {"do": "join", "thread": "F"}],
             observe=["feedstat f0"],
             expect=[(0, r"afterterm=[01] afterdone=0 done=true", "after its terminator was closed a dump feed delivered more than the one event already pulled, or did not end")]),
        dict(name="terminator-closed-while-a-live-feed-has-events-queued", kind="mem",
             setup=["feed f0 c0 bf=none", "clock t=2097152"],
             threads={},
             script=[{"do": "claim", "thread": "D", "point": "feed.deliver"}, {"do": "park", "thread": "D", "point": "feed.deliver", "nth": 1},
                     {"do": "run", "line": 'set c0 k0 exp=0 raw=0 v={"w":0}'}, {"do": "run", "line": 'set c0 k1 exp=0 raw=0 v={"w":1}'},
                     {"do": "run", "line": 'set c0 k2 exp=0 raw=0 v={"w":2}'},
                     {"do": "await", "thread": "D", "point": "feed.deliver"},
                     {"do": "spawn", "thread": "S", "line": "stopfeed f0"}, {"do": "sleep", "ms": 60},
                     {"do": "release", "thread": "D"}, {"do": "join", "thread": "S"}],
             observe=["feedstat f0"],
             expect=[(0, r"afterterm=[01] afterdone=0 done=true", "after its terminator was closed a live feed delivered more than the one event already pulled, or did not end")]),
        # a checkpointed feed whose final checkpoint write cannot succeed (the bucket is being deleted / its collection dropped) still ends properly
        dict(name="checkpointed-feed-ended-by-CloseAndDelete-closes-its-done-channel", kind="mem",
             setup=["feed f0 c0 bf=none prefix=cp", "feed f1 c0 bf=none", "clock t=2097152", 'set c0 k0 exp=0 raw=0 v={"w":0}', "drain f0", "drain f1"],
             threads={}, script=[{"do": "run", "line": "cadh h0"}, {"do": "sleep", "ms": 150}],
             observe=["feedstat f0", "feedstat f1"],
             expect=[(0, r"done=true", "a checkpointed feed ended by CloseAndDelete never closed its done channel"),
                     (1, r"done=true", "a plain feed ended by CloseAndDelete never closed its done channel")]),
        dict(name="checkpointed-feed-ended-by-DropDataStore-closes-its-done-channel", kind="mem",
             setup=["feed f0 c1 bf=none prefix=cp", "clock t=2097152", 'set c1 k0 exp=0 raw=0 v={"w":0}', "drain f0"],
             threads={}, script=[{"do": "run", "line": "dropcoll c1 via=h0"}, {"do": "sleep", "ms": 150}],
             observe=["feedstat f0"],
             expect=[(0, r"done=true", "a checkpointed feed ended by DropDataStore never closed its done channel")]),
    ],
    "C15": [
        dict(name="write-in-the-same-clock-tick-lands-while-a-dump-run-is-delivering", kind="mem",
             setup=["clock t=2097152", 'set c0 k1 exp=0 raw=0 v={"w":1}'],
             threads={},
             script=[{"do": "claim", "thread": "D", "point": "feed.deliver"}, {"do": "park", "thread": "D", "point": "feed.deliver", "nth": 2},
                     {"do": "spawn", "thread": "F", "line": "feed fr c0 bf=resume prefix=cp dump=1"},
                     {"do": "await", "thread": "D", "point": "feed.deliver"},
                     {"do": "run", "line": 'set c0 k2 exp=0 raw=0 v={"w":2}'},
                     {"do": "release", "thread": "D"}, {"do": "join", "thread": "F"}],
             observe=["drain fr", "feed fr c0 bf=resume prefix=cp dump=1", "drain fr"],
             expect=[(2, r"k=k2;", "the document written (CAS = checkpoint + 1) while the first run was delivering is delivered by no later run")]),
        dict(name="first-resume-run-stopped-in-the-middle-of-its-backfill-after-a-rewritten-document", kind="mem",
             setup=["clock t=2097152", 'set c0 k0 exp=0 raw=0 v={"w":0}', "clock t=3145728", 'set c0 k1 exp=0 raw=0 v={"w":1}',
                    "clock t=4194304", 'set c0 k2 exp=0 raw=0 v={"w":2}', "clock t=5242880", 'set c0 k0 exp=0 raw=0 v={"w":3}'],
             threads={},
             script=[{"do": "claim", "thread": "D", "point": "feed.deliver"}, {"do": "park", "thread": "D", "point": "feed.deliver", "nth": 2},
                     {"do": "spawn", "thread": "F", "line": "feed fr c0 bf=resume prefix=cp dump=1"},
                     {"do": "await", "thread": "D", "point": "feed.deliver"},
                     {"do": "spawn", "thread": "S", "line": "stopfeed fr"}, {"do": "sleep", "ms": 60},
                     {"do": "release", "thread": "D"}, {"do": "join", "thread": "S"}, {"do": "join", "thread": "F"}],
             observe=["drain fr", "feed fr c0 bf=resume prefix=cp dump=1", "drain fr"],
             expect=[("all", r"(?=.*k=k0;)(?=.*k=k1;)(?=.*k=k2;)", "a document is delivered by no run: the first run was stopped in the middle of its backfill and the resumed run skipped what the first had not reached")]),
        dict(name="checkpoint-skips-a-write-overtaken-by-a-later-one", setup=["feed fr c0 bf=resume prefix=cp", "clock t=2097152"],
             threads={"A": 'set c0 k1 exp=0 raw=0 v={"w":1}'},
             script=[{"do": "park", "thread": "A", "point": "post.before"}, {"do": "spawn", "thread": "A", "line": 'set c0 k1 exp=0 raw=0 v={"w":1}'},
                     {"do": "await", "thread": "A", "point": "post.before"}, {"do": "run", "line": 'set c0 k2 exp=0 raw=0 v={"w":2}'},
                     {"do": "run", "line": "drain fr"}, {"do": "run", "line": "stopfeed fr"},
                     {"do": "release", "thread": "A"}, {"do": "join", "thread": "A"}],
             observe=["feed fr c0 bf=resume prefix=cp dump=1", "drain fr"]),
    ],
    "C09": [
        dict(name="write-between-backfill-and-registration-is-lost", setup=["clock t=2097152", 'set c0 k0 exp=0 raw=0 v={"w":0}', "clock t=3145728"],
             threads={"F": "feed f0 c0 bf=0"},
             script=[{"do": "park", "thread": "F", "point": "feed.beforeregister"}, {"do": "spawn", "thread": "F", "line": "feed f0 c0 bf=0"},
                     {"do": "await", "thread": "F", "point": "feed.beforeregister"}, {"do": "run", "line": 'set c0 k1 exp=0 raw=0 v={"w":1}'},
                     {"do": "release", "thread": "F"}, {"do": "join", "thread": "F"}],
             observe=["drain f0"]),
    ],
}


def run_property(pid, log):
    """Run every scenario of the property; returns (coverage, violations)."""
    scs = SCENARIOS.get(pid, [])
    if not scs:
        return {}, []
    viols, cov = [], []
    for sc in scs:
        impl, rc = run_impl([harness_scenario(sc)], pid)
        if not impl:
            raise V.MachineryError("schedule harness produced no result for " + sc["name"])
        ok, detail = check_scenario(sc, impl[0])
        cov.append({"scenario": sc["name"], "linearizable": ok, "detail": {k: v for k, v in detail.items() if k in ("matches_order", "why")},
                    "trace": impl[0].get("trace")})
        if not ok:
            viols.append({"kind": "schedule", "signature": "%s/sched/%s" % (pid, sc["name"]), "msg": "schedule %s: %s" % (sc["name"], detail.get("why")),
                          "ops": [], "scenario": sc, "detail": detail})
    return {"schedules": cov, "schedules_run": len(cov), "exhaustive_schedules": False}, viols


# C18 (sub-document writes preserve the other properties, also against a concurrent writer) reuses the sub-document schedules of C03
SCENARIOS["C18"] = [sc for sc in SCENARIOS["C03"] if sc["name"].startswith("subdoc")]
SCENARIOS["C17"] = [sc for sc in SCENARIOS["C03"] if sc["name"] == "update-vs-touch-between-its-read-and-its-write"]
SCENARIOS["C02"] = [sc for sc in SCENARIOS["C03"] if sc["name"] == "two-setwithmeta-on-the-same-version"]


# C10: what a successful call stored is visible to any later open - also after calls that were refused in between
SCENARIOS["C10"] = [
    dict(name="refused-CreateNew-leaves-the-existing-bucket-alone", kind="reg",
         setup=["open h0 url=d0 name=A mode=0", "put h0 x v=v1", "hclose h0", "open h1 url=d0 name=A mode=1"],
         threads={}, script=[],
         observe=["open h2 url=d0 name=A mode=2", "get h2 x"],
         expect=[(0, r"^r=ok", "the bucket can no longer be reopened after a refused CreateNew"),
                 (1, r"^r=ok v=v1", "the document written before the refused CreateNew is gone")]),
    dict(name="refused-ReOpenExisting-creates-nothing", kind="reg",
         setup=["open h0 url=d0 name=A mode=2"],
         threads={}, script=[],
         observe=["open h1 url=d0 name=A mode=1", "put h1 x v=v2", "hclose h1", "open h2 url=d0 name=A mode=2", "get h2 x"],
         expect=[(0, r"^r=ok", "CreateNew after a refused ReOpenExisting failed"), (4, r"^r=ok v=v2", "data written after the re-creation is not there")]),
]


# C13: closing one handle disables only that handle - what runs through the other handles (here: a feed) keeps working
SCENARIOS["C13"] = SCENARIOS.get("C13", []) + [
    dict(name="closing-a-handle-leaves-feeds-of-other-handles-running", kind=k,
         setup=["hopen h1", "mkcoll c1 via=h1", "feed f0 c1 via=h0 bf=none", "feed f1 c0 via=h1 bf=none", "hclose h1"],
         threads={}, script=[],
         observe=["lifestate", "probe c1 via=h0", "probe c0 via=h0"],
         expect=[(0, r"f0=0 f1=0 afterdone=0", "closing a handle that was not the last one ended a feed"),
                 (1, r"f0=1", "the feed started through the open handle no longer receives its collection's writes"),
                 (2, r"f1=1", "the feed started through the closed handle (store still open) no longer receives its collection's writes")])
    for k in ("mem", "disk")
]


# C16: looking a collection up through a handle whose cached object is stale must not end the feeds of the re-created collection
SCENARIOS["C16"] = SCENARIOS["C16"] + [
    dict(name="stale-collection-object-on-another-handle-vs-feed-on-the-recreated-collection", kind=k,
         setup=["hopen h1", "mkcoll c2 via=h0", "dropcoll c2 via=h1", "mkcoll c2 via=h1", "feed f0 c2 via=h1 bf=none", "mkcoll c2 via=h0"],
         threads={}, script=[],
         observe=["lifestate", "probe c2 via=h1", "probe c2 via=h0"],
         expect=[(0, r"f0=0 afterdone=0", "a collection lookup through another handle ended the feed"),
                 (1, r"f0=1", "the feed no longer receives writes made through the handle that started it"),
                 (2, r"f0=1", "the feed does not receive writes made through the other handle")])
    for k in ("mem", "disk")
]


# C16: a bucket-level feed over two collections that share their name (in different scopes) ends only when both are gone
SCENARIOS["C16"] = SCENARIOS["C16"] + [
    dict(name="bucket-level-feed-over-same-named-collections-drop-%s" % drop, kind=k,
         setup=["mkcoll c4 via=h0", "mfeed g c1,c4 via=h0", "dropcoll %s via=h0" % drop],
         threads={}, script=[],
         observe=["lifestate", "probe %s via=h0" % keep],
         expect=[(0, r"g=0 afterdone=0", "the bucket-level feed's done channel closed although one of its collections is still there"),
                 (1, r"g=1", "the bucket-level feed no longer receives the remaining collection's writes")])
    for k in ("mem", "disk") for drop, keep in (("c4", "c1"), ("c1", "c4"))
]
