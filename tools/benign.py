#!/usr/bin/env python3
"""benign.py run <id> [property ...] - apply a behaviour-preserving refactor (benign/<id>/patch.diff) to /repo, run the quick checks,
undo it; every check is expected to stay green (a `no-failing-input-found` line is a brittle tie, anything else a false alarm)."""
import json, os, subprocess, sys, time
ROOT = os.path.dirname(os.path.dirname(os.path.abspath(__file__)))
ENV = dict(os.environ, GOFLAGS="-mod=mod", GOPROXY="off", GOSUMDB="off", GOTOOLCHAIN="local")


def sh(cmd, cwd=None, timeout=3600):
    return subprocess.run(cmd, cwd=cwd, env=ENV, capture_output=True, text=True, timeout=timeout)


def run(bid, props):
    d = os.path.join(ROOT, "benign", bid)
    assert sh(["git", "-C", "/repo", "status", "--porcelain"]).stdout.strip() == "", "/repo is not clean"
    p = sh(["git", "-C", "/repo", "apply", os.path.join(d, "patch.diff")])
    assert p.returncode == 0, p.stderr
    out = {}
    try:
        suite = sh(["go", "test", "-vet=off", "-count=1", "./..."], cwd="/repo")
        out["suite_passes"] = suite.returncode == 0
        for pid in props:
            t0 = time.time()
            c = sh([os.path.join(ROOT, "check"), pid, "--tier", "quick"], cwd=ROOT)
            lines = [l for l in c.stdout.splitlines() if l.startswith(("VIOLATION", "OK "))]
            detail = [l for l in c.stdout.splitlines() if l.startswith("  ")][:2]
            out[pid] = {"exit": c.returncode, "lines": lines, "detail": detail, "wall_s": round(time.time() - t0, 1)}
            print(bid, pid, c.returncode, lines[:1], detail[:1], flush=True)
    finally:
        sh(["git", "-C", "/repo", "checkout", "--", "."])
        # leave the harness and the regenerated Gen/*.lean as they are for the unchanged tree
        subprocess.run([sys.executable, "-c", "import sys; sys.path.insert(0, '%s/lib'); import vcheck as V; V.prepare({})" % ROOT])
        sh(["git", "-C", ROOT, "checkout", "--", "evidence"])   # evidence written against a changed tree is not kept
    json.dump({"id": bid, "when": time.strftime("%Y-%m-%dT%H:%M:%S"), "results": out}, open(os.path.join(d, "result.json"), "w"), indent=1)


if __name__ == "__main__":
    bid = sys.argv[2]
    props = sys.argv[3:] or ["C%02d" % i for i in range(1, 21)]
    run(bid, props)
