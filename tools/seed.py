#!/usr/bin/env python3
"""seed.py confirm <out_dir> <seed_id> <property>   - confirm a seeded defect in a scratch worktree, store it under seeded/<seed_id>/
   seed.py run <seed_id> [property ...]           - apply it to /repo, run the quick checks, undo it; report which checks fire"""
import json, os, shutil, subprocess, sys, time
ROOT = os.path.dirname(os.path.dirname(os.path.abspath(__file__)))
ENV = dict(os.environ, GOFLAGS="-mod=mod", GOPROXY="off", GOSUMDB="off", GOTOOLCHAIN="local")

def sh(cmd, cwd=None, timeout=1800):
    return subprocess.run(cmd, cwd=cwd, env=ENV, capture_output=True, text=True, timeout=timeout)

def confirm(out_dir, sid, prop):
    wt = "/tmp/confirm_" + sid
    sh(["git", "-C", "/repo", "worktree", "remove", "--force", wt])
    sh(["git", "-C", "/repo", "worktree", "add", "-q", wt, "HEAD"])
    res = {}
    try:
        patch = os.path.join(out_dir, "patch.diff")
        p = sh(["git", "apply", patch], cwd=wt)
        res["applies"] = p.returncode == 0
        if not res["applies"]:
            res["apply_error"] = p.stderr[-500:]
            return res
        res["builds"] = sh(["go", "build", "./..."], cwd=wt).returncode == 0 and sh(["go", "vet", "-tags", "verif", "."], cwd=wt).returncode in (0, 1)
        p = sh(["go", "test", "-vet=off", "-count=1", "./..."], cwd=wt)
        res["suite_passes_with_change"] = p.returncode == 0
        shutil.copy(os.path.join(out_dir, "zz_demo_test.go"), os.path.join(wt, "zz_demo_test.go"))
        p = sh(["go", "test", "-vet=off", "-count=1", "-run", "TestSeededDemo", "."], cwd=wt)
        res["demo_fails_with_change"] = p.returncode != 0
        res["demo_output_with_change"] = (p.stdout + p.stderr)[-600:]
        sh(["git", "apply", "-R", patch], cwd=wt)
        p = sh(["go", "test", "-vet=off", "-count=1", "-run", "TestSeededDemo", "."], cwd=wt)
        res["demo_passes_without_change"] = p.returncode == 0
    finally:
        sh(["git", "-C", "/repo", "worktree", "remove", "--force", wt])
    ok = all(res.get(k) for k in ("applies", "builds", "suite_passes_with_change", "demo_fails_with_change", "demo_passes_without_change"))
    res["confirmed"] = ok
    if ok:
        d = os.path.join(ROOT, "seeded", sid)
        os.makedirs(d, exist_ok=True)
        shutil.copy(os.path.join(out_dir, "patch.diff"), d)
        shutil.copy(os.path.join(out_dir, "zz_demo_test.go"), d)
        notes = ""
        if os.path.exists(os.path.join(out_dir, "notes.md")):
            shutil.copy(os.path.join(out_dir, "notes.md"), d)
            notes = open(os.path.join(out_dir, "notes.md")).read()[:1500]
        meta = {"id": sid, "breaks_property": prop, "needs_to_manifest": notes, "confirmed": res,
                "confirmed_by": "tools/seed.py confirm (scratch worktree of /repo HEAD: apply, go build, go test ./..., demo with and without)",
                "repo_head": sh(["git", "-C", "/repo", "rev-parse", "--short", "HEAD"]).stdout.strip()}
        json.dump(meta, open(os.path.join(d, "meta.json"), "w"), indent=1)
    print(json.dumps({k: v for k, v in res.items() if k != "demo_output_with_change"}))
    return res

def run(sid, props):
    d = os.path.join(ROOT, "seeded", sid)
    meta = json.load(open(os.path.join(d, "meta.json")))
    props = props or [meta["breaks_property"]]
    assert sh(["git", "-C", "/repo", "status", "--porcelain"]).stdout.strip() == "", "/repo is not clean"
    p = sh(["git", "-C", "/repo", "apply", os.path.join(d, "patch.diff")])
    assert p.returncode == 0, p.stderr
    out = {}
    try:
        for pid in props:
            t0 = time.time()
            p = subprocess.run([os.path.join(ROOT, "check"), pid, "--tier", "quick"], cwd=ROOT, capture_output=True, text=True, timeout=3000)
            lines = [l for l in p.stdout.splitlines() if l.startswith(("VIOLATION", "OK", "MACHINERY", "KNOWN"))]
            detail = [l for l in p.stdout.splitlines() if l.startswith("  ")][:2]
            out[pid] = {"exit": p.returncode, "lines": lines, "detail": detail, "wall_s": round(time.time() - t0, 1)}
            print(pid, p.returncode, lines[:2], detail[:1])
    finally:
        sh(["git", "-C", "/repo", "checkout", "--", "."])
        sh(["git", "-C", ROOT, "checkout", "--", "evidence"])   # evidence written against a changed tree is not kept
    meta.setdefault("runs", []).append({"when": time.strftime("%Y-%m-%dT%H:%M:%S"), "results": out})
    meta["detected_by"] = sorted(set(meta.get("detected_by", [])) | {pid for pid, r in out.items() if r["exit"] == 1})
    json.dump(meta, open(os.path.join(d, "meta.json"), "w"), indent=1)
    # leave the harness built against the unchanged tree again
    subprocess.run([sys.executable, "-c", "import sys; sys.path.insert(0, '%s/lib'); import vcheck as V; V.prepare({})" % ROOT])
    return out

if __name__ == "__main__":
    if sys.argv[1] == "confirm":
        r = confirm(sys.argv[2], sys.argv[3], sys.argv[4])
        sys.exit(0 if r.get("confirmed") else 1)
    else:
        run(sys.argv[2], sys.argv[3:])
