// gen: regenerates, from /repo's current sources, the facts the Lean side is tied to:
//   - Gen/Pure.lean : the straight-line integer functions (hybrid logical clock, expiry arithmetic, timer decision) translated to Lean
//   - Gen/Facts.lean: lock-order edges (with the call chain producing each), the SQL statements on `documents` with whether they
//                     are scoped by `collection`, and which functions draw the CAS / set lastCas inside their transaction
// It uses only go/parser + go/ast. When it meets source it cannot translate it exits non-zero with a message.
package main

import (
	"flag"
	"fmt"
	"go/ast"
	"go/constant"
	"go/token"
	"go/types"
	"os"
	"path/filepath"
	"regexp"
	"sort"
	"strconv"
	"strings"

	"golang.org/x/tools/go/packages"
	"golang.org/x/tools/go/types/typeutil"
)

var info *types.Info

var fset = token.NewFileSet()

type fn struct {
	name string // Recv.Name or Name
	recv string
	decl *ast.FuncDecl
}

func main() {
	repo := flag.String("repo", "/repo", "repository")
	out := flag.String("out", ".", "output dir for generated Lean")
	flag.Parse()
	cfg := &packages.Config{Mode: packages.NeedTypes | packages.NeedSyntax | packages.NeedTypesInfo | packages.NeedName | packages.NeedFiles | packages.NeedImports | packages.NeedDeps, Dir: *repo, Fset: fset}
	pkgs, err := packages.Load(cfg, ".")
	if err != nil || len(pkgs) != 1 || len(pkgs[0].Errors) > 0 {
		fail("load: %v %v", err, pkgs)
	}
	pkg := pkgs[0]
	info = pkg.TypesInfo
	funcs := map[string]*fn{}
	var names []string
	for _, f := range pkg.Syntax {
		if strings.HasSuffix(fset.Position(f.Pos()).Filename, "verif_off.go") {
			continue
		}
		for _, d := range f.Decls {
			fd, ok := d.(*ast.FuncDecl)
			if !ok || fd.Body == nil {
				continue
			}
			r := ""
			if fd.Recv != nil && len(fd.Recv.List) == 1 {
				r = typeName(fd.Recv.List[0].Type)
			}
			n := fd.Name.Name
			if r != "" {
				n = r + "." + n
			}
			funcs[n] = &fn{name: n, recv: r, decl: fd}
			names = append(names, n)
		}
	}
	sort.Strings(names)
	must(os.MkdirAll(*out, 0o755))
	code := 0
	part := func(name, file string, bit int, gen func() string) {
		defer func() {
			if r := recover(); r != nil {
				if ge, ok := r.(genError); ok {
					fmt.Fprintf(os.Stderr, "gen: %s: %s\n", name, string(ge))
					code |= bit
					return
				}
				panic(r)
			}
		}()
		text := gen()
		must(os.WriteFile(filepath.Join(*out, file), []byte(text), 0o644))
	}
	part("pure", "Pure.lean", 1, func() string { return genPure(funcs) })
	part("facts", "Facts.lean", 2, func() string { return genFacts(funcs, names) })
	part("sql", "Sql.lean", 4, func() string { return genSql(funcs, names) })
	if code != 0 {
		os.Exit(2 + code)
	}
}

type genError string

// fail aborts the part of the generation that is running (recovered in main: the other part is still produced).
func fail(f string, a ...any) {
	panic(genError(fmt.Sprintf(f, a...)))
}
func must(err error) {
	if err != nil {
		fmt.Fprintf(os.Stderr, "gen: %v\n", err)
		os.Exit(1)
	}
}

func typeName(e ast.Expr) string {
	switch t := e.(type) {
	case *ast.StarExpr:
		return typeName(t.X)
	case *ast.Ident:
		return t.Name
	case *ast.IndexExpr:
		return typeName(t.X)
	}
	return ""
}

// ---------------------------------------------------------------------------------------------------------------
// Pure functions -> Lean (over Nat; `&^ m` becomes `andNot`; unsigned wrap-around is not modelled).
//
// A small symbolic executor: an environment maps Go l-values (locals, `c.highestTime`, the pseudo-variable `e.next` behind
// _getNext/_setNext) to Lean expressions; an `if` duplicates the rest of the block into both branches, `return` ends a path.
// Constant expressions are evaluated by go/types; calls of package-local single-`return` helpers are inlined. This makes the
// translation independent of how the function spells the same computation (named constants, temporaries, early returns,
// swapped branches), leaving it to the tie lemmas to show that the computation is the same.

type symEnv map[string]string

func (e symEnv) clone() symEnv {
	n := symEnv{}
	for k, v := range e {
		n[k] = v
	}
	return n
}

type symExec struct {
	funcs  map[string]*fn
	result string // l-value whose final value is the function's result when it returns nothing ("" = the returned expression)
	depth  int
}

func exprText(e ast.Expr) string {
	switch t := e.(type) {
	case *ast.Ident:
		return t.Name
	case *ast.SelectorExpr:
		return exprText(t.X) + "." + t.Sel.Name
	case *ast.StarExpr:
		return "*" + exprText(t.X)
	case *ast.CallExpr:
		return exprText(t.Fun) + "()"
	case *ast.ParenExpr:
		return exprText(t.X)
	}
	return fmt.Sprintf("<%T>", e)
}

var conversions = map[string]bool{"uint64": true, "uint32": true, "int64": true, "int": true, "Timestamp": true, "Exp": true, "CAS": true}

func (x *symExec) expr(env symEnv, e ast.Expr) string {
	if tv, ok := info.Types[e]; ok && tv.Value != nil {
		if n, exact := constantUint(tv.Value); exact {
			return strconv.FormatUint(n, 10)
		}
	}
	switch t := e.(type) {
	case *ast.ParenExpr:
		return x.expr(env, t.X)
	case *ast.Ident, *ast.SelectorExpr, *ast.StarExpr:
		if v, ok := env[exprText(e)]; ok {
			return v
		}
	case *ast.UnaryExpr:
		if t.Op == token.NOT {
			return "(¬ " + x.expr(env, t.X) + ")"
		}
	case *ast.CallExpr:
		txt := exprText(t.Fun)
		if len(t.Args) == 1 && conversions[txt] {
			return x.expr(env, t.Args[0])
		}
		if v, ok := env[txt+"()"]; ok && len(t.Args) == 0 {
			return v
		}
		// a package-local helper whose body is `return <expr>` (possibly after ifs): inline it
		if id, ok := t.Fun.(*ast.Ident); ok {
			if f := x.funcs[id.Name]; f != nil && f.decl.Recv == nil && x.depth < 4 {
				inner := symEnv{}
				for k, v := range env {
					if strings.HasSuffix(k, "()") {
						inner[k] = v // pseudo-variables for environment reads (nowAsExpiry() ...)
					}
				}
				i := 0
				for _, fld := range f.decl.Type.Params.List {
					for _, nm := range fld.Names {
						if i < len(t.Args) {
							inner[nm.Name] = x.expr(env, t.Args[i])
						}
						i++
					}
				}
				sub := &symExec{funcs: x.funcs, depth: x.depth + 1}
				return "(" + sub.block(inner, f.decl.Body.List) + ")"
			}
		}
	case *ast.BinaryExpr:
		a, b := x.expr(env, t.X), x.expr(env, t.Y)
		ops := map[token.Token]string{token.ADD: "+", token.SUB: "-", token.GEQ: "≥", token.GTR: ">", token.LEQ: "≤", token.LSS: "<",
			token.EQL: "=", token.NEQ: "≠", token.LAND: "∧", token.LOR: "∨", token.MUL: "*"}
		if t.Op == token.AND_NOT {
			return fmt.Sprintf("(andNot %s %s)", a, b)
		}
		if o, ok := ops[t.Op]; ok {
			return fmt.Sprintf("(%s %s %s)", a, o, b)
		}
	}
	fail("cannot translate expression %s at %s", exprText(e), fset.Position(e.Pos()))
	return ""
}

func constantUint(v constantValue) (uint64, bool) {
	return constantToUint64(v)
}

// assign updates the environment for `lhs = value` (also the pseudo-variable behind a setter call).
func (x *symExec) assign(env symEnv, lhs string, value string) { env[lhs] = value }

func ignorableCall(c *ast.CallExpr) bool {
	txt := exprText(c.Fun)
	return strings.HasSuffix(txt, ".Lock") || strings.HasSuffix(txt, ".Unlock") || txt == "debug" || txt == "verifPoint" || txt == "info" || txt == "trace"
}

// block returns the Lean expression of the function's result when `stmts` run from `env`.
func (x *symExec) block(env symEnv, stmts []ast.Stmt) string {
	for i, s := range stmts {
		rest := stmts[i+1:]
		switch t := s.(type) {
		case *ast.DeferStmt, *ast.EmptyStmt:
			continue
		case *ast.DeclStmt:
			continue
		case *ast.ExprStmt:
			if c, ok := t.X.(*ast.CallExpr); ok {
				if ignorableCall(c) {
					continue
				}
				if exprText(c.Fun) == "e._setNext" && len(c.Args) == 1 {
					env = env.clone()
					env["e._getNext()"] = x.expr(env, c.Args[0])
					continue
				}
			}
			fail("cannot translate statement at %s", fset.Position(s.Pos()))
		case *ast.IncDecStmt:
			env = env.clone()
			cur := x.expr(env, t.X)
			if t.Tok == token.INC {
				env[exprText(t.X)] = "(" + cur + " + 1)"
			} else {
				env[exprText(t.X)] = "(" + cur + " - 1)"
			}
		case *ast.AssignStmt:
			if len(t.Lhs) != 1 || len(t.Rhs) != 1 {
				fail("multi-assign at %s", fset.Position(s.Pos()))
			}
			env = env.clone()
			val := x.expr(env, t.Rhs[0])
			lhs := exprText(t.Lhs[0])
			switch t.Tok {
			case token.ADD_ASSIGN:
				val = "(" + x.expr(env, t.Lhs[0]) + " + " + val + ")"
			case token.SUB_ASSIGN:
				val = "(" + x.expr(env, t.Lhs[0]) + " - " + val + ")"
			}
			env[lhs] = val
		case *ast.IfStmt:
			env = env.clone()
			if t.Init != nil {
				// `if v := f(); cond {`
				as, ok := t.Init.(*ast.AssignStmt)
				if !ok || len(as.Lhs) != 1 || len(as.Rhs) != 1 {
					fail("unsupported if-init at %s", fset.Position(s.Pos()))
				}
				env[exprText(as.Lhs[0])] = x.expr(env, as.Rhs[0])
			}
			cond := x.expr(env, t.Cond)
			thenB := append(append([]ast.Stmt{}, t.Body.List...), rest...)
			var elseB []ast.Stmt
			switch eb := t.Else.(type) {
			case nil:
				elseB = rest
			case *ast.BlockStmt:
				elseB = append(append([]ast.Stmt{}, eb.List...), rest...)
			case *ast.IfStmt:
				elseB = append([]ast.Stmt{eb}, rest...)
			}
			return fmt.Sprintf("(if %s then %s else %s)", cond, x.block(env.clone(), thenB), x.block(env.clone(), elseB))
		case *ast.ReturnStmt:
			if len(t.Results) == 0 || x.result != "" {
				return x.final(env, s.Pos())
			}
			return x.expr(env, t.Results[0])
		case *ast.BlockStmt:
			return x.block(env, append(append([]ast.Stmt{}, t.List...), rest...))
		default:
			fail("unsupported statement %T at %s", s, fset.Position(s.Pos()))
		}
	}
	if len(stmts) > 0 {
		return x.final(env, stmts[len(stmts)-1].End())
	}
	return x.final(env, token.NoPos)
}

func (x *symExec) final(env symEnv, pos token.Pos) string {
	if x.result == "" {
		fail("a path ends without a returned value at %s", fset.Position(pos))
	}
	return env[x.result]
}

func genPure(funcs map[string]*fn) string {
	var sb strings.Builder
	sb.WriteString("/- GENERATED by /verif/tools/gen from /repo (hlc.go, utils.go, expiry_manager.go). Do not edit. -/\nnamespace Rosmar.Gen\n\n")
	sb.WriteString("/-- Go's `x &^ m` on naturals. -/\ndef andNot (x m : Nat) : Nat := x - (x &&& m)\n\n")
	get := func(n string) *fn {
		f := funcs[n]
		if f == nil {
			fail("function %s not found", n)
		}
		return f
	}
	now := get("HybridLogicalClock.Now")
	x := &symExec{funcs: funcs, result: "c.highestTime"}
	sb.WriteString("/-- `HybridLogicalClock.Now`: the new `highestTime`, which is also the timestamp returned. -/\n")
	sb.WriteString("def hlcNow (highest phys : Nat) : Nat :=\n  " + x.block(symEnv{"c.clock.getTime()": "phys", "c.highestTime": "highest"}, now.decl.Body.List) + "\n\n")
	upd := get("HybridLogicalClock.updateLatestTime")
	x = &symExec{funcs: funcs, result: "c.highestTime"}
	pname := upd.decl.Type.Params.List[0].Names[0].Name
	sb.WriteString("/-- `HybridLogicalClock.updateLatestTime`: the new `highestTime`. -/\n")
	sb.WriteString("def hlcUpdate (highest lastTime : Nat) : Nat :=\n  " + x.block(symEnv{pname: "lastTime", "c.highestTime": "highest"}, upd.decl.Body.List) + "\n\n")
	abs := get("absoluteExpiry")
	x = &symExec{funcs: funcs}
	aname := abs.decl.Type.Params.List[0].Names[0].Name
	sb.WriteString("/-- `absoluteExpiry` with the wall clock as a parameter. -/\n")
	sb.WriteString("def absoluteExpiry (now exp : Nat) : Nat :=\n  " + x.block(symEnv{aname: "exp", "nowAsExpiry()": "now"}, abs.decl.Body.List) + "\n\n")
	sch := get("expiryManager._scheduleExpirationAtOrBefore")
	x = &symExec{funcs: funcs, result: "e._getNext()"}
	sname := sch.decl.Type.Params.List[0].Names[0].Name
	sb.WriteString("/-- `_scheduleExpirationAtOrBefore`: the next-expiry value after the call (`_setNext(x)` stores `x`). -/\n")
	sb.WriteString("def scheduleAtOrBefore (next exp : Nat) : Nat :=\n  " + x.block(symEnv{sname: "exp", "e._getNext()": "next"}, sch.decl.Body.List) + "\n\n")
	sb.WriteString("end Rosmar.Gen\n")
	return sb.String()
}

// ---------------------------------------------------------------------------------------------------------------
// Facts: lock-order edges, SQL statements. Calls are resolved with go/types (static callees only; the one func-valued
// field, expiryManager.expirationFunc, is resolved to the method newExpiryManager is given).

type edge struct{ from, to, via string }

// lockOf returns the lock class ("Type.field") of the receiver expression of a Lock/Unlock call, or "".
func lockOf(x ast.Expr) string {
	sel, ok := x.(*ast.SelectorExpr)
	if !ok {
		return ""
	}
	s := info.Selections[sel]
	if s == nil {
		return ""
	}
	owner := namedOf(s.Recv())
	if owner == nil {
		return ""
	}
	if owner.Obj().Pkg() != nil && owner.Obj().Pkg().Path() == "sync" {
		// q.cond.L : name the lock after the field holding the sync object
		return lockOf(sel.X)
	}
	return owner.Obj().Name() + "." + sel.Sel.Name
}

func namedOf(t types.Type) *types.Named {
	for {
		switch u := t.(type) {
		case *types.Pointer:
			t = u.Elem()
		case *types.Named:
			return u
		default:
			return nil
		}
	}
}

func isSyncLockCall(c *ast.CallExpr) (kind string, recv ast.Expr) {
	sel, ok := c.Fun.(*ast.SelectorExpr)
	if !ok {
		return "", nil
	}
	f, ok := typeutil.Callee(info, c).(*types.Func)
	if !ok || f.Pkg() == nil || f.Pkg().Path() != "sync" {
		return "", nil
	}
	switch f.Name() {
	case "Lock", "RLock":
		return "lock", sel.X
	case "Unlock", "RUnlock":
		return "unlock", sel.X
	}
	return "", nil
}

func funcKey(f *types.Func) string {
	sig := f.Type().(*types.Signature)
	if r := sig.Recv(); r != nil {
		if n := namedOf(r.Type()); n != nil {
			return n.Obj().Name() + "." + f.Name()
		}
	}
	return f.Name()
}

type lockset map[string]string // lock -> call chain by which it is (or may be) acquired

func genFacts(funcs map[string]*fn, names []string) string {
	// the func-valued field: which method does newExpirationManager receive?
	indirect := map[string]string{}
	for _, n := range names {
		ast.Inspect(funcs[n].decl.Body, func(nd ast.Node) bool {
			c, ok := nd.(*ast.CallExpr)
			if !ok {
				return true
			}
			if f, ok := typeutil.Callee(info, c).(*types.Func); ok && f.Name() == "newExpirationManager" && len(c.Args) == 1 {
				if sel, ok := c.Args[0].(*ast.SelectorExpr); ok {
					if m, ok := info.Uses[sel.Sel].(*types.Func); ok {
						indirect["expirationFunc"] = funcKey(m)
					}
				}
			}
			return true
		})
	}
	if indirect["expirationFunc"] == "" {
		fail("cannot resolve expiryManager.expirationFunc")
	}
	acquires := map[string]lockset{}            // function -> locks it may acquire (transitively)
	paramHeld := map[string]map[int]lockset{}   // function -> param index -> locks held when that func-typed parameter is invoked
	paramIndex := map[*types.Var][2]interface{}{} // param var -> (function key, index)
	for _, n := range names {
		acquires[n] = lockset{}
		paramHeld[n] = map[int]lockset{}
		if obj, ok := info.Defs[funcs[n].decl.Name].(*types.Func); ok {
			ps := obj.Type().(*types.Signature).Params()
			for i := 0; i < ps.Len(); i++ {
				if _, ok := ps.At(i).Type().Underlying().(*types.Signature); ok {
					paramIndex[ps.At(i)] = [2]interface{}{n, i}
				}
			}
		}
	}
	edges := map[[2]string]string{}
	changed := true
	type heldT []string
	var walk func(f *fn, node ast.Node, held heldT, record bool)
	acquire := func(f *fn, l, chain string, held heldT, record bool) {
		if _, ok := acquires[f.name][l]; !ok {
			acquires[f.name][l] = chain
			changed = true
		}
		if record {
			for _, h := range held {
				if h != l {
					k := [2]string{h, l}
					if old, ok := edges[k]; !ok || len(chain) < len(old) {
						edges[k] = chain
					}
				}
			}
		}
	}
	addParamHeld := func(fname string, idx int, held heldT) {
		m := paramHeld[fname][idx]
		if m == nil {
			m = lockset{}
			paramHeld[fname][idx] = m
		}
		for _, h := range held {
			if _, ok := m[h]; !ok {
				m[h] = fname
				changed = true
			}
		}
	}
	calleeOf := func(c *ast.CallExpr) string {
		switch o := typeutil.Callee(info, c).(type) {
		case *types.Func:
			k := funcKey(o)
			if _, ok := funcs[k]; ok && o.Pkg() != nil && o.Pkg().Name() == "rosmar" {
				return k
			}
		case *types.Var:
			if o.IsField() {
				return indirect[o.Name()]
			}
		}
		return ""
	}
	walkStmts := func(f *fn, list []ast.Stmt, held heldT, record bool) {
		h := append(heldT{}, held...)
		for _, s := range list {
			if es, ok := s.(*ast.ExprStmt); ok {
				if c, ok := es.X.(*ast.CallExpr); ok {
					if kind, recv := isSyncLockCall(c); kind != "" {
						if l := lockOf(recv); l != "" {
							if kind == "lock" {
								acquire(f, l, f.name, h, record)
								h = append(h, l)
							} else {
								for i := len(h) - 1; i >= 0; i-- {
									if h[i] == l {
										h = append(h[:i:i], h[i+1:]...)
										break
									}
								}
							}
							continue
						}
						fail("unclassified lock at %s", fset.Position(c.Pos()))
					}
				}
			}
			walk(f, s, h, record)
		}
	}
	walk = func(f *fn, node ast.Node, held heldT, record bool) {
		if node == nil {
			return
		}
		switch t := node.(type) {
		case *ast.BlockStmt:
			walkStmts(f, t.List, held, record)
			return
		case *ast.CaseClause:
			for _, e := range t.List {
				walk(f, e, held, record)
			}
			walkStmts(f, t.Body, held, record)
			return
		case *ast.CommClause:
			walk(f, t.Comm, held, record)
			walkStmts(f, t.Body, held, record)
			return
		case *ast.GoStmt:
			if fl, ok := t.Call.Fun.(*ast.FuncLit); ok {
				walk(f, fl.Body, nil, record)
			} else {
				walk(f, t.Call, nil, record)
			}
			return
		case *ast.DeferStmt:
			if kind, _ := isSyncLockCall(t.Call); kind != "" {
				return // `defer m.Unlock()`: m stays held to the end of the function, which is what not seeing an Unlock means
			}
			if fl, ok := t.Call.Fun.(*ast.FuncLit); ok {
				walk(f, fl.Body, held, record)
			} else {
				walk(f, t.Call, held, record)
			}
			return
		case *ast.FuncLit:
			walk(f, t.Body, held, record)
			return
		case *ast.CallExpr:
			if kind, recv := isSyncLockCall(t); kind == "lock" {
				// a Lock() that is not a statement of its own
				if l := lockOf(recv); l != "" {
					acquire(f, l, f.name, held, record)
				}
				return
			}
			// invoking one of our own func-typed parameters
			if id, ok := t.Fun.(*ast.Ident); ok {
				if v, ok := info.Uses[id].(*types.Var); ok {
					if pi, ok := paramIndex[v]; ok {
						addParamHeld(pi[0].(string), pi[1].(int), held)
					}
				}
			}
			callee := calleeOf(t)
			if callee != "" {
				for l, chain := range acquires[callee] {
					acquire(f, l, f.name+" → "+chain, held, record)
				}
			}
			for i, a := range t.Args {
				extra := held
				if callee != "" {
					if ph := paramHeld[callee][i]; len(ph) > 0 {
						extra = append(heldT{}, held...)
						for l := range ph {
							extra = append(extra, l)
						}
						sort.Strings(extra[len(held):])
					}
				}
				switch at := a.(type) {
				case *ast.FuncLit:
					walk(f, at.Body, extra, record)
				case *ast.Ident:
					if v, ok := info.Uses[at].(*types.Var); ok {
						if pi, ok := paramIndex[v]; ok {
							addParamHeld(pi[0].(string), pi[1].(int), extra)
						}
					}
				default:
					walk(f, a, held, record)
				}
			}
			walk(f, t.Fun, held, record)
			return
		}
		ast.Inspect(node, func(n ast.Node) bool {
			if n == node {
				return true
			}
			switch n.(type) {
			case *ast.BlockStmt, *ast.GoStmt, *ast.DeferStmt, *ast.FuncLit, *ast.CallExpr, *ast.CaseClause, *ast.CommClause:
				walk(f, n, held, record)
				return false
			}
			return true
		})
	}
	for iter := 0; changed && iter < 50; iter++ {
		changed = false
		for _, n := range names {
			walk(funcs[n], funcs[n].decl.Body, nil, false)
		}
	}
	for _, n := range names {
		walk(funcs[n], funcs[n].decl.Body, nil, true)
	}
	var es []edge
	for k, v := range edges {
		es = append(es, edge{k[0], k[1], v})
	}
	sort.Slice(es, func(i, j int) bool {
		if es[i].from != es[j].from {
			return es[i].from < es[j].from
		}
		return es[i].to < es[j].to
	})
	var sb strings.Builder
	sb.WriteString("/- GENERATED by /verif/tools/gen from /repo. Do not edit. -/\nnamespace Rosmar.Gen\n\n")
	sb.WriteString("/-- Lock-order edges `(held, acquired, call chain)`: some function acquires `acquired` while `held` is held. -/\n")
	sb.WriteString("def lockEdges : List (String × String × String) := [\n")
	for i, e := range es {
		sep := ","
		if i == len(es)-1 {
			sep = ""
		}
		fmt.Fprintf(&sb, "  (%q, %q, %q)%s\n", e.from, e.to, e.via, sep)
	}
	sb.WriteString("]\n\n")
	// SQL statements touching `documents`
	type stmt struct {
		fn, sql string
		scoped  bool
		kind    string
	}
	var stmts []stmt
	reWS := regexp.MustCompile(`\s+`)
	reScoped := regexp.MustCompile(`collection\s*=\s*(\?|%d)`)
	for _, n := range names {
		f := funcs[n]
		ast.Inspect(f.decl.Body, func(nd ast.Node) bool {
			bl, ok := nd.(*ast.BasicLit)
			if !ok || bl.Kind != token.STRING {
				return true
			}
			s, err := strconv.Unquote(bl.Value)
			if err != nil {
				return true
			}
			s = strings.TrimSpace(reWS.ReplaceAllString(s, " "))
			up := strings.ToUpper(s)
			low := strings.ToLower(s)
			if !strings.Contains(low, "documents") {
				return true
			}
			kind := ""
			for _, k := range []string{"SELECT", "UPDATE", "INSERT", "DELETE", "WITH"} {
				if strings.HasPrefix(up, k) {
					kind = k
				}
			}
			if kind == "" {
				return true
			}
			scoped := reScoped.MatchString(low) || (kind == "INSERT" && strings.Contains(low, "(collection"))
			stmts = append(stmts, stmt{n, s, scoped, kind})
			return true
		})
	}
	sb.WriteString("/-- Every SQL statement on `documents`: (function, kind, text, has a `collection = ?` conjunct / inserts the collection). -/\n")
	sb.WriteString("def documentStatements : List (String × String × String × Bool) := [\n")
	for i, s := range stmts {
		sep := ","
		if i == len(stmts)-1 {
			sep = ""
		}
		fmt.Fprintf(&sb, "  (%q, %q, %q, %v)%s\n", s.fn, s.kind, s.sql, s.scoped, sep)
	}
	sb.WriteString("]\n\nend Rosmar.Gen\n")
	return sb.String()
}

type constantValue = constant.Value

func constantToUint64(v constant.Value) (uint64, bool) {
	if v.Kind() != constant.Int {
		return 0, false
	}
	return constant.Uint64Val(v)
}
