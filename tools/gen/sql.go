// sql.go: parses the write statements (`UPDATE documents …`, `INSERT INTO documents …`) found in /repo's string literals into the
// deep embedding of lean/Rosmar/Sql.lean, resolving every placeholder to the Go expression bound to it at the `Exec` call.
// Output: Gen/Sql.lean. A statement it cannot parse (or cannot find the Exec call of) is a generation failure.
package main

import (
	"fmt"
	"go/ast"
	"go/constant"
	"go/token"
	"go/types"
	"regexp"
	"sort"
	"strconv"
	"strings"
	"unicode"
)

type sqlTok struct {
	kind string // id, num, par, op, eof
	text string
}

func sqlLex(s string) []sqlTok { return sqlLexMode(s, false) }

func sqlLexMode(s string, tolerant bool) []sqlTok {
	var out []sqlTok
	rs := []rune(s)
	for i := 0; i < len(rs); {
		c := rs[i]
		switch {
		case unicode.IsSpace(c):
			i++
		case unicode.IsLetter(c) || c == '_':
			j := i
			for j < len(rs) && (unicode.IsLetter(rs[j]) || unicode.IsDigit(rs[j]) || rs[j] == '_' ||
				(rs[j] == '.' && j+1 < len(rs) && unicode.IsLetter(rs[j+1]) && strings.EqualFold(string(rs[i:j]), "excluded"))) {
				j++
			}
			out = append(out, sqlTok{"id", strings.ToLower(string(rs[i:j]))})
			i = j
		case unicode.IsDigit(c):
			j := i
			for j < len(rs) && unicode.IsDigit(rs[j]) {
				j++
			}
			out = append(out, sqlTok{"num", string(rs[i:j])})
			i = j
		case c == '?':
			j := i + 1
			for j < len(rs) && unicode.IsDigit(rs[j]) {
				j++
			}
			out = append(out, sqlTok{"par", string(rs[i+1 : j])})
			i = j
		default:
			two := ""
			if i+1 < len(rs) {
				two = string(rs[i : i+2])
			}
			switch two {
			case "||", "!=", "<>", "==", "<=", ">=":
				out = append(out, sqlTok{"op", two})
				i += 2
			default:
				if c == '%' && i+1 < len(rs) && (rs[i+1] == 'd' || rs[i+1] == 's') {
					// a fmt verb filled in by Sprintf: a placeholder
					out = append(out, sqlTok{"par", ""})
					i += 2
				} else if strings.ContainsRune("(),=<>+", c) {
					out = append(out, sqlTok{"op", string(c)})
					i++
				} else if tolerant {
					return append(out, sqlTok{"eof", ""})
				} else {
					fail("sql: unexpected character %q in %q", string(c), s)
				}
			}
		}
	}
	return append(out, sqlTok{"eof", ""})
}

type sqlParser struct {
	toks    []sqlTok
	pos     int
	args    []string // Lean terms for ?1, ?2, …; "\x00" marks an argument that is named by its role in the statement
	nextPar int
	src     string
	lastSetCols []string       // columns of the SET list parsed last
	sig         string         // shape signature of the statement parsed (see "naming by shape")
	excluded map[string]string // in a conflict arm: column -> the expression the VALUES list gives it (`excluded.<col>`)
	role    string         // role of the placeholder being parsed: "<col>" in VALUES / SET, "where.<col>" in `col = ?`
	names   map[int]string // role names given so far
}

// roleName names a placeholder whose Go argument is a local variable or a compound expression (so that renaming a local does not change
// the generated statement): by the column it is first stored into, or compared with.
func (p *sqlParser) roleName(n int) string {
	if p.names == nil {
		p.names = map[int]string{}
	}
	if nm, ok := p.names[n]; ok {
		return nm
	}
	nm := "$" + p.role
	if p.role == "" {
		nm = fmt.Sprintf("$arg%d", n)
	}
	for used := true; used; {
		used = false
		for _, o := range p.names {
			if o == nm {
				used = true
				nm += "'"
			}
		}
	}
	p.names[n] = nm
	return nm
}

func (p *sqlParser) peek() sqlTok { return p.toks[p.pos] }
func (p *sqlParser) next() sqlTok  { t := p.toks[p.pos]; p.pos++; return t }
func (p *sqlParser) isKw(k string) bool {
	t := p.peek()
	return t.kind == "id" && t.text == k
}
func (p *sqlParser) isOp(o string) bool {
	t := p.peek()
	return t.kind == "op" && t.text == o
}
func (p *sqlParser) expectKw(k string) {
	if !p.isKw(k) {
		fail("sql: expected %s at token %d (%v) in %q", k, p.pos, p.peek(), p.src)
	}
	p.pos++
}
func (p *sqlParser) expectOp(o string) {
	if !p.isOp(o) {
		fail("sql: expected %q at token %d (%v) in %q", o, p.pos, p.peek(), p.src)
	}
	p.pos++
}

var sqlCols = map[string]string{"collection": ".collection", "key": ".key", "value": ".value", "cas": ".cas", "exp": ".exp",
	"isjson": ".isJSON", "xattrs": ".xattrs", "tombstone": ".tombstone", "revseqno": ".revSeqNo"}

func (p *sqlParser) col() string {
	t := p.next()
	c, ok := sqlCols[t.text]
	if t.kind != "id" || !ok {
		fail("sql: unknown column %q in %q", t.text, p.src)
	}
	return c
}

// expr := or
func (p *sqlParser) expr() string { return p.or() }
func (p *sqlParser) or() string {
	l := p.and()
	for p.isKw("or") {
		p.pos++
		r := p.and()
		l = fmt.Sprintf("(.or %s %s)", l, r)
	}
	return l
}
func (p *sqlParser) and() string {
	l := p.cmp()
	for p.isKw("and") {
		p.pos++
		r := p.cmp()
		l = fmt.Sprintf("(.and %s %s)", l, r)
	}
	return l
}
func (p *sqlParser) cmp() string {
	l := p.sum()
	for {
		switch {
		case p.isOp("=") || p.isOp("=="):
			p.pos++
			saved := p.role
			if strings.HasPrefix(l, "(.col .") {
				p.role = "where." + strings.TrimSuffix(strings.TrimPrefix(l, "(.col ."), ")")
			}
			r := p.sum()
			p.role = saved
			l = fmt.Sprintf("(.eq %s %s)", l, r)
		case p.isOp("!=") || p.isOp("<>"):
			p.pos++
			l = fmt.Sprintf("(.ne %s %s)", l, p.sum())
		case p.isOp("<"):
			p.pos++
			l = fmt.Sprintf("(.lt %s %s)", l, p.cmpRhs(l))
		case p.isOp("<="):
			p.pos++
			l = fmt.Sprintf("(.le %s %s)", l, p.cmpRhs(l))
		case p.isOp(">"):
			p.pos++
			r := p.cmpRhs(l)
			l = fmt.Sprintf("(.lt %s %s)", r, l)
		case p.isOp(">="):
			p.pos++
			r := p.cmpRhs(l)
			l = fmt.Sprintf("(.le %s %s)", r, l)
		case p.isKw("not"):
			p.pos++
			p.expectKw("null")
			l = fmt.Sprintf("(.notNull %s)", l)
		case p.isKw("is"):
			p.pos++
			if p.isKw("not") {
				p.pos++
				p.expectKw("null")
				l = fmt.Sprintf("(.notNull %s)", l)
			} else {
				p.expectKw("null")
				l = fmt.Sprintf("(.isNull %s)", l)
			}
		default:
			return l
		}
	}
}
// cmpRhs parses the right-hand side of a comparison whose left side is `l`; a placeholder there is named after the column compared.
func (p *sqlParser) cmpRhs(l string) string {
	saved := p.role
	if strings.HasPrefix(l, "(.col .") {
		p.role = "where." + strings.TrimSuffix(strings.TrimPrefix(l, "(.col ."), ")")
	}
	r := p.sum()
	p.role = saved
	return r
}

func (p *sqlParser) sum() string {
	l := p.cat()
	for p.isOp("+") {
		p.pos++
		l = fmt.Sprintf("(.add %s %s)", l, p.cat())
	}
	return l
}
func (p *sqlParser) cat() string {
	l := p.prim()
	for p.isOp("||") {
		p.pos++
		l = fmt.Sprintf("(.concat %s %s)", l, p.prim())
	}
	return l
}
func (p *sqlParser) prim() string {
	t := p.next()
	switch t.kind {
	case "num":
		return fmt.Sprintf("(.lit (.int %s))", t.text)
	case "par":
		n := 0
		if t.text == "" {
			p.nextPar++
			n = p.nextPar
		} else {
			n, _ = strconv.Atoi(t.text)
			if n > p.nextPar {
				p.nextPar = n
			}
		}
		if p.args == nil {
			return fmt.Sprintf("(.par %q)", p.roleName(n))
		}
		if n < 1 || n > len(p.args) {
			fail("sql: placeholder ?%d has no argument (%d given) in %q", n, len(p.args), p.src)
		}
		if p.args[n-1] == "\x00" {
			return fmt.Sprintf("(.par %q)", p.roleName(n))
		}
		return p.args[n-1]
	case "op":
		if t.text == "(" {
			e := p.expr()
			p.expectOp(")")
			return e
		}
	case "id":
		switch t.text {
		case "null":
			return "(.lit .null)"
		case "true":
			return "(.lit (.int 1))"
		case "false":
			return "(.lit (.int 0))"
		case "iif":
			p.expectOp("(")
			c := p.expr()
			p.expectOp(",")
			a := p.expr()
			p.expectOp(",")
			b := p.expr()
			p.expectOp(")")
			return fmt.Sprintf("(.iif %s %s %s)", c, a, b)
		}
		if c, ok := sqlCols[t.text]; ok {
			return fmt.Sprintf("(.col %s)", c)
		}
		if strings.HasPrefix(t.text, "excluded.") {
			if c, ok := sqlCols[strings.TrimPrefix(t.text, "excluded.")]; ok {
				if v, ok := p.excluded[c]; ok {
					return v
				}
				// a column the VALUES list does not mention: its default; the tie lemma fails on this rather than guess
				fail("sql: excluded.%s is not in the VALUES list of %q", c, p.src)
			}
		}
	}
	fail("sql: unexpected token %v in %q", t, p.src)
	return ""
}

func (p *sqlParser) sets() string {
	// SET items are emitted sorted by column (every right-hand side sees the old row and a column is assigned once, so the order means nothing);
	// the signature records, per column, whether it is assigned a literal (`N` = NULL, digits = that integer)
	type item struct{ col, term, sig string }
	var items []item
	seen := map[string]bool{}
	for {
		c := p.col()
		if seen[c] {
			fail("sql: column %s assigned twice in %q", c, p.src)
		}
		seen[c] = true
		p.expectOp("=")
		p.role = strings.TrimPrefix(c, ".")
		e := p.expr()
		p.role = ""
		sig := strings.TrimPrefix(c, ".")
		if e == "(.lit .null)" {
			sig += "N"
		} else if strings.HasPrefix(e, "(.lit (.int ") {
			sig += strings.TrimSuffix(strings.TrimPrefix(e, "(.lit (.int "), "))")
		}
		items = append(items, item{c, fmt.Sprintf("(%s, %s)", c, e), sig})
		if !p.isOp(",") {
			break
		}
		p.pos++
	}
	sort.Slice(items, func(i, j int) bool { return items[i].col < items[j].col })
	p.lastSetCols = nil
	var terms []string
	for _, it := range items {
		p.lastSetCols = append(p.lastSetCols, it.sig)
		terms = append(terms, it.term)
	}
	return "[" + strings.Join(terms, ", ") + "]"
}

func (p *sqlParser) table() {
	t := p.next()
	if t.kind != "id" || t.text != "documents" {
		fail("sql: expected table documents in %q", p.src)
	}
}

// statement returns (kind, Lean term).
func (p *sqlParser) statement() (string, string) {
	switch {
	case p.isKw("update"):
		p.pos++
		p.table()
		p.expectKw("set")
		sets := p.sets()
		cond := "(.lit (.int 1))"
		if p.isKw("where") {
			p.pos++
			cond = p.expr()
		}
		if p.peek().kind != "eof" {
			fail("sql: trailing tokens in %q", p.src)
		}
		p.sig = "upd_" + sortedCols(p.lastSetCols) + "__by_" + condSig(cond)
		return "Update", fmt.Sprintf("{ sets := %s,\n    cond := %s }", sets, cond)
	case p.isKw("insert"):
		p.pos++
		p.expectKw("into")
		p.table()
		p.expectOp("(")
		var cols []string
		for {
			cols = append(cols, p.col())
			if !p.isOp(",") {
				break
			}
			p.pos++
		}
		p.expectOp(")")
		p.expectKw("values")
		p.expectOp("(")
		var vals []string
		for {
			if len(vals) < len(cols) {
				p.role = strings.TrimPrefix(cols[len(vals)], ".")
			}
			vals = append(vals, p.expr())
			p.role = ""
			if !p.isOp(",") {
				break
			}
			p.pos++
		}
		p.expectOp(")")
		if len(cols) != len(vals) {
			fail("sql: %d columns, %d values in %q", len(cols), len(vals), p.src)
		}
		conflict := "none"
		p.excluded = map[string]string{}
		for i, c := range cols {
			p.excluded[c] = vals[i]
		}
		if p.isKw("on") {
			p.pos++
			p.expectKw("conflict")
			p.expectOp("(")
			c1 := p.col()
			p.expectOp(",")
			c2 := p.col()
			p.expectOp(")")
			if c1 != ".collection" || c2 != ".key" {
				fail("sql: conflict target is not (collection,key) in %q", p.src)
			}
			p.expectKw("do")
			p.expectKw("update")
			p.expectKw("set")
			sets := p.sets()
			cond := "(.lit (.int 1))"
			if p.isKw("where") {
				p.pos++
				cond = p.expr()
			}
			conflict = fmt.Sprintf("some (%s,\n      %s)", sets, cond)
			p.sig = "ups_" + sortedCols(cols) + "__set_" + sortedCols(p.lastSetCols) + "__if_" + condSig(cond)
		} else {
			p.sig = "ins_" + sortedCols(cols)
		}
		if p.peek().kind != "eof" {
			fail("sql: trailing tokens in %q", p.src)
		}
		return "Upsert", fmt.Sprintf("{ cols := [%s],\n    vals := [%s],\n    conflict := %s }", strings.Join(cols, ", "), strings.Join(vals, ", "), conflict)
	}
	fail("sql: not an UPDATE / INSERT: %q", p.src)
	return "", ""
}

// goArgTerm turns a Go argument of Exec into a Lean `E`: integer constants become literals, everything else a placeholder named by its source text.
func goArgTerm(e ast.Expr, body *ast.BlockStmt) string {
	if tv, ok := info.Types[e]; ok && tv.Value != nil {
		if v, ok := constantToUint64(tv.Value); ok {
			return fmt.Sprintf("(.lit (.int %d))", v)
		}
	}
	// a parameter of the enclosing function, or a field selected from one (`c.id`, `e.key`): named by its source text;
	// anything else (a local variable, a closure parameter, a compound expression): named by its role in the statement
	root := e
	for {
		if s, ok := root.(*ast.SelectorExpr); ok {
			root = s.X
			continue
		}
		break
	}
	if id, ok := root.(*ast.Ident); ok {
		if obj := info.Uses[id]; obj != nil {
			if _, isVar := obj.(*types.Var); isVar && !(obj.Pos() >= body.Pos() && obj.Pos() <= body.End()) {
				return fmt.Sprintf("(.par %q)", types.ExprString(e))
			}
		}
	}
	return "\x00"
}

// constString: the value of an expression that is a string constant (a literal, a named constant, a concatenation of those).
func constString(e ast.Expr) (string, bool) {
	if tv, ok := info.Types[e]; ok && tv.Value != nil && tv.Value.Kind() == constant.String {
		return constant.StringVal(tv.Value), true
	}
	return "", false
}

type sqlLit struct {
	text string
	plus bool // appended with +=
	pos  token.Pos
}

// ---- naming by shape -------------------------------------------------------------------------------------------------------
// A statement is named after what it does (kind, assigned columns, the shape of its condition), not after the Go function it stands in:
// moving it to a helper, or renaming the function, changes no name. Statements whose terms are identical are emitted once.

func splitConjuncts(t string) []string {
	if strings.HasPrefix(t, "(.and ") && strings.HasSuffix(t, ")") {
		body := t[len("(.and ") : len(t)-1]
		depth := 0
		for i, c := range body {
			if c == '(' {
				depth++
			} else if c == ')' {
				depth--
				if depth == 0 {
					return append(splitConjuncts(body[:i+1]), splitConjuncts(strings.TrimSpace(body[i+1:]))...)
				}
			}
		}
	}
	return []string{t}
}

var conjShapes = []struct {
	re  *regexp.Regexp
	fmt string
}{
	{regexp.MustCompile(`^\(\.eq \(\.col \.(\w+)\) \(\.par "[^"]*"\)\)$`), "%s"},
	{regexp.MustCompile(`^\(\.eq \(\.col \.(\w+)\) \(\.lit \(\.int (\d+)\)\)\)$`), "%sIs%s"},
	{regexp.MustCompile(`^\(\.ne \(\.col \.(\w+)\) \(\.lit \(\.int (\d+)\)\)\)$`), "%sNot%s"},
	{regexp.MustCompile(`^\(\.notNull \(\.col \.(\w+)\)\)$`), "%sSet"},
	{regexp.MustCompile(`^\(\.isNull \(\.col \.(\w+)\)\)$`), "%sNull"},
	{regexp.MustCompile(`^\(\.le \(\.par "[^"]*"\) \(\.col \.(\w+)\)\)$`), "%sGe"},
	{regexp.MustCompile(`^\(\.lt \(\.par "[^"]*"\) \(\.col \.(\w+)\)\)$`), "%sGt"},
	{regexp.MustCompile(`^\(\.le \(\.col \.(\w+)\) \(\.par "[^"]*"\)\)$`), "%sLe"},
	{regexp.MustCompile(`^\(\.lt \(\.lit \(\.int 0\)\) \(\.col \.(\w+)\)\)$`), "%sPos"},
}

func condSig(t string) string {
	if t == "(.lit (.int 1))" {
		return "all"
	}
	var parts []string
	for _, c := range splitConjuncts(t) {
		sig := "x"
		for _, sh := range conjShapes {
			if m := sh.re.FindStringSubmatch(c); m != nil {
				args := make([]any, len(m)-1)
				for i := range args {
					args[i] = m[i+1]
				}
				sig = fmt.Sprintf(sh.fmt, args...)
				break
			}
		}
		if sig == "x" && strings.HasPrefix(c, "(.or ") {
			sig = "or"
		}
		parts = append(parts, sig)
	}
	sort.Strings(parts)
	return strings.Join(parts, "_")
}

func sortedCols(cols []string) string {
	c := make([]string, len(cols))
	for i, x := range cols {
		c[i] = strings.TrimPrefix(x, ".")
	}
	sort.Strings(c)
	return strings.Join(c, "_")
}

type sqlItem struct {
	fn, kind, term, sig, src string
}

func genSql(funcs map[string]*fn, names []string) string {
	var sb strings.Builder
	sb.WriteString("/- GENERATED by /verif/tools/gen from /repo. Do not edit. -/\nimport Rosmar.Sql\nnamespace Rosmar.Gen.Sql\nopen Rosmar.Sql\n\n")
	var index []string
	var items []sqlItem
	for _, n := range names {
		f := funcs[n]
		// literals directly in Exec calls, or assigned to a variable that is passed to Exec
		byVar := map[string][]sqlLit{}
		type call struct {
			lits []sqlLit
			args []ast.Expr
		}
		var calls []call
		isWrite := func(s string) bool {
			l := strings.ToLower(strings.TrimSpace(s))
			return (strings.HasPrefix(l, "update") || strings.HasPrefix(l, "insert")) && strings.Contains(l, "documents")
		}
		litOf := constString
		ast.Inspect(f.decl.Body, func(nd ast.Node) bool {
			switch t := nd.(type) {
			case *ast.AssignStmt:
				if len(t.Lhs) == 1 && len(t.Rhs) == 1 {
					if id, ok := t.Lhs[0].(*ast.Ident); ok {
						if s, ok := litOf(t.Rhs[0]); ok {
							if t.Tok == token.ADD_ASSIGN {
								byVar[id.Name] = append(byVar[id.Name], sqlLit{s, true, t.Pos()})
							} else if isWrite(s) {
								byVar[id.Name] = append(byVar[id.Name], sqlLit{s, false, t.Pos()})
							}
						}
					}
				}
			case *ast.ValueSpec:
				for i, id := range t.Names {
					if i < len(t.Values) {
						if s, ok := litOf(t.Values[i]); ok && isWrite(s) {
							byVar[id.Name] = append(byVar[id.Name], sqlLit{s, false, t.Pos()})
						}
					}
				}
			case *ast.CallExpr:
				sel, ok := t.Fun.(*ast.SelectorExpr)
				if !ok || sel.Sel.Name != "Exec" || len(t.Args) == 0 {
					return true
				}
				if s, ok := litOf(t.Args[0]); ok {
					if isWrite(s) {
						calls = append(calls, call{[]sqlLit{{s, false, t.Args[0].Pos()}}, t.Args[1:]})
					}
				} else if id, ok := t.Args[0].(*ast.Ident); ok {
					calls = append(calls, call{nil, t.Args[1:]})
					calls[len(calls)-1].lits = append(calls[len(calls)-1].lits, sqlLit{"\x00" + id.Name, false, t.Pos()})
				}
			}
			return true
		})
		for _, c := range calls {
			lits := c.lits
			if len(lits) == 1 && strings.HasPrefix(lits[0].text, "\x00") {
				lits = byVar[lits[0].text[1:]]
			}
			sort.SliceStable(lits, func(i, j int) bool { return lits[i].pos < lits[j].pos })
			var args []string
			for _, a := range c.args {
				args = append(args, goArgTerm(a, f.decl.Body))
			}
			for _, l := range lits {
				base := strings.ReplaceAll(n, ".", "_")
				if l.plus {
					s := strings.TrimSpace(l.text)
					if !strings.HasPrefix(strings.ToLower(s), "and ") {
						fail("sql: appended fragment is not `AND …`: %q in %s", l.text, n)
					}
					p := &sqlParser{toks: sqlLex(s[4:]), args: args, src: l.text}
					e := p.expr()
					if p.peek().kind != "eof" {
						fail("sql: trailing tokens in fragment %q", l.text)
					}
					_ = base
					items = append(items, sqlItem{n, "E", e, "frag_and_" + condSig(e), "fragment appended to the statement before it: " + strconv.Quote(s)})
					continue
				}
				p := &sqlParser{toks: sqlLex(l.text), args: args, src: l.text}
				kind, term := p.statement()
				items = append(items, sqlItem{n, kind, term, p.sig, strconv.Quote(strings.Join(strings.Fields(l.text), " "))})
			}
		}
	}
	// WHERE clauses of every statement that reads or deletes from `documents` (placeholders named by the column they are compared with)
	reWhere := regexp.MustCompile(`(?i)from\s+documents\s+where\s+`)
	for _, n := range names {
		f := funcs[n]
		count := 0
		ast.Inspect(f.decl.Body, func(nd ast.Node) bool {
			ex, isExpr := nd.(ast.Expr)
			if !isExpr {
				return true
			}
			str, ok := constString(ex)
			if !ok {
				return true
			}
			low := strings.ToLower(strings.TrimSpace(str))
			if strings.HasPrefix(low, "update") || strings.HasPrefix(low, "insert") {
				return false
			}
			defer func() {}()
			for _, loc := range reWhere.FindAllStringIndex(str, -1) {
				rest := str[loc[1]:]
				p := &sqlParser{toks: sqlLexMode(rest, true), src: rest}
				e := p.expr()
				var order []string
				if p.isKw("order") {
					p.pos++
					p.expectKw("by")
					for {
						order = append(order, p.col())
						if !p.isOp(",") {
							break
						}
						p.pos++
					}
				}
				count++
				sig := "sel_by_" + condSig(e)
				if len(order) > 0 {
					sig += "__order_" + strings.ReplaceAll(strings.Join(order, "_"), ".", "")
				}
				items = append(items, sqlItem{n, "Select", fmt.Sprintf("{ cond := %s,\n    orderBy := [%s] }", e, strings.Join(order, ", ")), sig,
					"… FROM documents WHERE " + strconv.Quote(strings.Join(strings.Fields(rest), " "))})
			}
			return false // the parts of a constant expression are not statements of their own
		})
	}
	// name by shape; identical terms are one definition; different terms of one shape are numbered in the order of their text
	bySig := map[string][]string{} // sig -> distinct terms
	for _, it := range items {
		found := false
		for _, t := range bySig[it.sig] {
			if t == it.term {
				found = true
			}
		}
		if !found {
			bySig[it.sig] = append(bySig[it.sig], it.term)
		}
	}
	nameOf := func(it sqlItem) string {
		ts := append([]string{}, bySig[it.sig]...)
		sort.Strings(ts)
		if len(ts) == 1 {
			return it.sig
		}
		for i, t := range ts {
			if t == it.term {
				return fmt.Sprintf("%s_v%d", it.sig, i+1)
			}
		}
		return it.sig
	}
	emitted := map[string]bool{}
	var uses []string
	sort.SliceStable(items, func(i, j int) bool { return nameOf(items[i]) < nameOf(items[j]) })
	for _, it := range items {
		name := nameOf(it)
		uses = append(uses, fmt.Sprintf("(%q, %q)", it.fn, name))
		if emitted[name] {
			continue
		}
		emitted[name] = true
		var where []string
		for _, o := range items {
			if nameOf(o) == name {
				where = append(where, "`"+o.fn+"`")
			}
		}
		fmt.Fprintf(&sb, "/-- %s: %s -/\ndef %s : %s :=\n  %s\n\n", strings.Join(where, ", "), it.src, name, it.kind, it.term)
		index = append(index, fmt.Sprintf("(%q, %q)", name, it.kind))
	}
	sort.Strings(uses)
	sb.WriteString("/-- The statements translated above. -/\ndef index : List (String × String) := [\n  " + strings.Join(index, ",\n  ") + "]\n\n")
	sb.WriteString("/-- Which Go function uses which statement / WHERE clause (function, definition). -/\ndef uses : List (String × String) := [\n  " + strings.Join(uses, ",\n  ") + "]\n\nend Rosmar.Gen.Sql\n")
	return sb.String()
}
