#!/usr/bin/env python3
"""For every `fixed` entry of known_findings.json: the witness must fail (monitor rule or divergence) on the parent of the
fix commit and pass on /repo's HEAD. Uses scratch worktrees under /tmp (removed afterwards)."""
import json, os, subprocess, sys
ROOT = os.path.dirname(os.path.dirname(os.path.abspath(__file__)))
known = json.load(open(os.path.join(ROOT, "known_findings.json")))
code = r'''
import sys; sys.path.insert(0, "%s/lib")
import vcheck as V, props, json
V.prepare({})
k = json.loads(sys.argv[1])
print("FAILS" if props.witness_still_fails(k["property"], k) else "PASSES")
''' % ROOT
ok = True
only = sys.argv[1:]
for k in known["fixed"]:
    if only and k["commit"] not in only:
        continue
    if "witness" not in k and k.get("kind") not in ("schedule", "shutdown"):
        continue
    res = {}
    for label, rev in (("parent", k["commit"] + "^"), ("head", "HEAD")):
        wt = "/tmp/vf_%s_%s" % (k["commit"], label)
        subprocess.run(["git", "-C", "/repo", "worktree", "remove", "--force", wt], capture_output=True)
        subprocess.run(["git", "-C", "/repo", "worktree", "add", "-q", wt, rev], check=True)
        # the parent may predate later hook commits: carry the current hook files over
        for f in ("verif_on.go", "verif_off.go"):
            subprocess.run(["cp", "/repo/" + f, wt + "/" + f])
        subprocess.run(["sed", "-i", 's/verifPoint("post.before", e.key, e.cas)/verifPoint("post.before", c.GetCollectionID(), e.key, e.cas)/',
                        wt + "/collection.go", wt + "/collection+xattrs.go"])
        p = subprocess.run([sys.executable, "-c", code, json.dumps(k)], env=dict(os.environ, VERIF_REPO=wt), capture_output=True, text=True)
        res[label] = (p.stdout.strip().splitlines() or ["ERROR " + p.stderr[-300:]])[-1]
        subprocess.run(["git", "-C", "/repo", "worktree", "remove", "--force", wt], capture_output=True)
    good = res["parent"] == "FAILS" and res["head"] == "PASSES"
    ok &= good
    print("%-8s %s %-40s parent=%s head=%s %s" % (k["property"], k["commit"], k.get("witness", k.get("signature")), res["parent"], res["head"], "" if good else "<<< CHECK"))
subprocess.run([sys.executable, "-c", "import sys; sys.path.insert(0, '%s/lib'); import vcheck as V; V.prepare({})" % ROOT])
sys.exit(0 if ok else 1)
