#!/usr/bin/env python3
"""Regenerate MANIFEST.json from lib/props.py (claimed checks) and lib/claims.py (texts, not_applicable)."""
import json, os, sys
ROOT = os.path.dirname(os.path.dirname(os.path.abspath(__file__)))
sys.path.insert(0, os.path.join(ROOT, "lib"))
import props, claims

all_ids = [json.loads(l)["id"] for l in open(os.path.join(ROOT, "properties.jsonl"))]
checks = []
for pid in all_ids:
    if pid not in props.PROPS or pid in claims.NOT_APPLICABLE or pid not in claims.CLAIMS:
        continue
    c = claims.CLAIMS[pid]
    checks.append({
        "property_id": pid,
        "quick_cmd": "./check %s --tier quick" % pid,
        "thorough_cmd": "./check %s --tier thorough" % pid,
        "evidence_file": "/verif/evidence/%s.json" % pid,
        "replay_cmd_template": "./check %s --replay {path}" % pid,
        "engine": "lean4-proof+correspondence",
        "level_claimed": {"category": "proof", "text": c["text"], "design_ref": c.get("design_ref", "DESIGN.md section 6, " + pid)},
        "level_note": c["note"],
        "technique": c["technique"],
    })
claimed = [c["property_id"] for c in checks]
na = [{"property_id": pid, "reason": claims.NOT_APPLICABLE.get(pid, "check not built yet (work in progress; DESIGN.md section 11 build order)")}
      for pid in all_ids if pid not in claimed]
m = {
    "version": 1,
    "setup_cmd": "./setup.sh",
    "hooks": {"guard": "verif", "enable": "go build -tags verif (the harness module in /verif/harness replaces github.com/couchbaselabs/rosmar => /repo)",
              "baseline_off_cmd": "cd /repo && go test -mod=mod -json -vet=off -count=1 -timeout 25m ./...",
              "source_commits": claims.HOOK_COMMITS, "add_only": True},
    "engines": [{"name": "lean4-proof+correspondence", "path": "/verif/lean, /verif/harness, /verif/check",
                 "serves_properties": claimed,
                 "kind_free_text": "Lean 4 theorems about an executable model of rosmar (lean/Rosmar), tied to /repo by a correspondence check: "
                                   "the Go harness runs generated operation programs on real rosmar (-tags verif) and the compiled Lean model "
                                   "(lean_exe drv) runs the same lines; outputs are diffed; trace monitors search for a failing input"}],
    "checks": checks,
    "not_applicable": na,
    "notes": claims.NOTES,
}
json.dump(m, open(os.path.join(ROOT, "MANIFEST.json"), "w"), indent=1)
print("claimed:", claimed, "not claimed:", [n["property_id"] for n in na])
