/-
  The key-value write and read entry points of `collection.go`, one function per API call,
  each written to read like the Go it models (post-`fix:` tree). Core-only.
-/
import Rosmar.Basic
import Rosmar.Pure
namespace Rosmar

/-- What an API call returns (the fields each call fills in are printed by the driver). -/
structure Out where
  err : Err := .ok
  cas : Nat := 0
  added : Bool := false
  val : Option String := none
  n : Nat := 0
  actual : Option Nat := none
  calls : Nat := 0
  seen : List String := []
  deriving Repr, Inhabited

def Out.isOk (o : Out) : Bool := o.err = .ok

/-- Result of the closure passed to `withNewCas`: an error, or new rows, the next row id, an event, the result. -/
abbrev TxnFn := (newCas now nextRowId : Nat) → Docs → Out ⊕ (Docs × Nat × Option Event × Out)

/-- The row-level core of a write: from the key's current row (if any) to an error, or to the new row
    (`none` = nothing written), the event to post and the result. `rowid` of a new row is assigned by `liftRow`. -/
abbrev RowFn := (newCas now : Nat) → Option Row → Out ⊕ (Option Row × Option Event × Out)

/-- Run a row-level write against the collection's table. -/
def liftRow (k : String) (f : RowFn) : TxnFn := fun newCas now nid docs =>
  match f newCas now (docs.get? k) with
  | .inl out => .inl out
  | .inr (none, ev, out) => .inr (docs, nid, ev, out)
  | .inr (some r', ev, out) =>
    match docs.get? k with
    | some old => .inr (docs.put k { r' with rowid := old.rowid }, nid, ev, out)
    | none => .inr (docs.put k { r' with rowid := nid }, nid + 1, ev, out)

/-- `scheduleExpirationAtOrBefore`. -/
def schedAtOrBefore (next exp : Nat) : Nat :=
  if exp = 0 then next else if next = 0 ∨ exp < next then exp else next

/-- `postNewEvent`: push to every live feed registered on the collection, then arm the expiry timer. -/
def postEvent (s : State) (c : String) (collId : Nat) (e : Event) : State :=
  { s with
    feeds := s.feeds.map (fun f =>
      if f.coll = c ∧ ¬ f.dump ∧ ¬ f.stopped then { f with pending := f.pending ++ [.ev e collId f.keysOnly] } else f)
    expNext := schedAtOrBefore s.expNext e.exp }

/-- The state after a committed `withNewCas` transaction (before its event is posted). -/
def commit (s : State) (c : String) (x : Coll) (newCas nid : Nat) (docs' : Docs) : State :=
  ({ s with hlc := newCas, lastCas := newCas, nextRowId := nid, acked := newCas :: s.acked }).setColl c
    { x with docs := docs', lastCas := newCas }

/-- `withNewCas`: one transaction that draws a CAS, runs the closure, advances both `lastCas` columns; then posts. -/
def withNewCas (s : State) (c : String) (fn : TxnFn) : State × Out :=
  match s.coll? c with
  | none => (s, { err := .closed })
  | some x =>
    let newCas := hlcNow s.hlc s.phys
    let s1 := { s with hlc := newCas }
    match fn newCas s.now s.nextRowId x.docs with
    | .inl out => (s1, out)
    | .inr (docs', nid, ev, out) =>
      let s2 := commit s c x newCas nid docs'
      match ev with
      | some e => (postEvent s2 c x.id e, out)
      | none => (s2, out)

/-! ### Add / AddRaw -/

def addRow (k : String) (exp : Nat) (val : String) (isJSON : Bool) : RowFn := fun newCas now old =>
  let exp := absExp now exp
  match old with
  | none =>
    .inr (some { rowid := 0, value := some val, cas := newCas, exp := exp, isJSON := isJSON, xattrs := [], tomb := false, rev := 1 },
      some { key := k, value := some val, isDeletion := false, isJSON := isJSON, xattrs := [], cas := newCas, exp := exp, rev := 1 },
      { added := true })
  | some r =>
    if r.tomb then
      .inr (some { r with value := some val, xattrs := [], cas := newCas, exp := exp, isJSON := isJSON, tomb := false, rev := r.rev + 1 },
        some { key := k, value := some val, isDeletion := false, isJSON := isJSON, xattrs := [], cas := newCas, exp := exp, rev := r.rev + 1 },
        { added := true })
    else
      .inr (none, none, { added := false })

def addFn (k : String) (exp : Nat) (val : String) (isJSON : Bool) : TxnFn := liftRow k (addRow k exp val isJSON)

/-- `Add` (`json = true`) and `AddRaw` (`json = false`: datatype from `looksLikeJSON`). -/
def opAdd (s : State) (c k : String) (exp : Nat) (val : String) (json : Bool) : State × Out :=
  withNewCas s c (addFn k exp val (if json then true else looksLikeJSON val))

/-! ### Set / SetRaw / Incr share `_set` -/

/-- `_set`: the new row, the xattrs kept, the new revision, the expiry stored. -/
def setCore (old : Option Row) (exp : Nat) (preserveExp : Bool) (val : String) (isJSON : Bool) (newCas : Nat) :
    Row × Xattrs × Nat × Nat :=
  match old with
  | none =>
    ({ rowid := 0, value := some val, cas := newCas, exp := exp, isJSON := isJSON, xattrs := [], tomb := false, rev := 1 }, [], 1, exp)
  | some r =>
    let xattrs := if r.value.isSome then r.xattrs else []   -- cleared whenever resurrecting a tombstone
    let exp' := if preserveExp then r.exp else exp
    ({ r with value := some val, xattrs := xattrs, cas := newCas, exp := exp', isJSON := isJSON, rev := r.rev + 1, tomb := false },
      xattrs, r.rev + 1, exp')

def setRow (k : String) (exp : Nat) (preserveExp : Bool) (val : String) (isJSON : Bool) : RowFn := fun newCas now old =>
  let exp := absExp now exp
  let (r', xattrs, rev, expStored) := setCore old exp preserveExp val isJSON newCas
  let evExp := if preserveExp then expStored else exp
  .inr (some r',
    some { key := k, value := some val, isDeletion := false, isJSON := isJSON, xattrs := xattrs, cas := newCas, exp := evExp, rev := rev },
    {})

def setFn (k : String) (exp : Nat) (preserveExp : Bool) (val : String) (isJSON : Bool) : TxnFn :=
  liftRow k (setRow k exp preserveExp val isJSON)

/-- `Set` (`raw = false`, stored as JSON) and `SetRaw` (`raw = true`). -/
def opSet (s : State) (c k : String) (exp : Nat) (preserveExp : Bool) (val : String) (raw : Bool) : State × Out :=
  withNewCas s c (setFn k exp preserveExp val (!raw))

/-- Canonical decimal `uint64` text, as `json.Unmarshal` into a `uint64` accepts it. -/
def parseUInt64 (s : String) : Option Nat :=
  let cs := s.toList
  if cs.isEmpty then none
  else if ¬ cs.all Char.isDigit then none
  else if cs.length > 1 ∧ cs.head? = some '0' then none
  else
    let n := cs.foldl (fun a c => a * 10 + (c.toNat - 48)) 0
    if n < 2 ^ 64 then some n else none

def incrRow (k : String) (amt deflt exp : Nat) : RowFn := fun newCas now old =>
  let exp := absExp now exp
  let cur : Option (Option Nat) :=   -- none = unreadable, some none = missing
    match old with
    | none => some none
    | some r =>
      match r.value with
      | none => some none
      | some v => match parseUInt64 v with
        | some n => some (some n)
        | none => none
  match cur with
  | none => .inl { err := .badJson }
  | some cur =>
    let result := match cur with
      | some n => (n + amt) % 2 ^ 64
      | none => deflt
    let raw := toString result
    let (r', xattrs, rev, _) := setCore old exp false raw true newCas
    .inr (some r',
      some { key := k, value := some raw, isDeletion := false, isJSON := true, xattrs := xattrs, cas := newCas, exp := exp, rev := rev },
      { n := result })

def incrFn (k : String) (amt deflt exp : Nat) : TxnFn := liftRow k (incrRow k amt deflt exp)

def opIncr (s : State) (c k : String) (amt deflt exp : Nat) : State × Out :=
  withNewCas s c (incrFn k amt deflt exp)

/-! ### WriteCas -/

structure WOpts where
  raw : Bool := false
  addOnly : Bool := false
  append : Bool := false
  deriving Repr, Inhabited

def wcasRow (k : String) (exp cas : Nat) (val : Option String) (o : WOpts) : RowFn := fun newCas now old =>
  let isJSON := (!(o.raw || o.append)) && val.isSome
  match old, cas with
  | none, (_ + 1) => .inl { err := .missing }
  | _, _ =>
    let rev := (match old with | some r => r.rev | none => 0) + 1
    let exp := absExp now exp
    let tomb := val.isNone
    -- the statement chosen, applied: `some row` when a row was inserted or updated
    let written : Option Row :=
      if o.append then
        match old with
        | some r =>
          match r.value with
          | some v =>
            if r.cas = cas then
              some { r with value := val.map (v ++ ·), cas := newCas, exp := exp, isJSON := isJSON, rev := rev,
                            xattrs := if r.tomb then [] else r.xattrs, tomb := tomb }
            else none
          | none => none
        | none => none
      else if o.addOnly ∨ cas = 0 then
        match old with
        | none =>
          some { rowid := 0, value := val, cas := newCas, exp := exp, isJSON := isJSON, xattrs := [], tomb := tomb, rev := rev }
        | some r =>
          if r.tomb then
            some { r with value := val, xattrs := [], cas := newCas, exp := exp, isJSON := isJSON, tomb := tomb, rev := rev }
          else none
      else
        match old with
        | some r =>
          if r.cas = cas then
            some { r with value := val, cas := newCas, exp := exp, isJSON := isJSON, rev := rev,
                          xattrs := if r.tomb then [] else r.xattrs, tomb := tomb }
          else none
        | none => none
    match written with
    | none =>
      -- nothing inserted or updated: why not?
      match old with
      | none => .inl { err := .missing }
      | some r =>
        if r.value.isNone then .inl { err := .missing }
        else if o.addOnly then .inl { err := .keyExists }
        else .inl { err := .casMismatch, actual := some r.cas }
    | some r' =>
      .inr (some r',
        some { key := k, value := r'.value, isDeletion := val.isNone, isJSON := isJSON, xattrs := r'.xattrs, cas := newCas, exp := exp, rev := rev },
        { cas := newCas })

def wcasFn (k : String) (exp cas : Nat) (val : Option String) (o : WOpts) : TxnFn := liftRow k (wcasRow k exp cas val o)

def opWriteCas (s : State) (c k : String) (exp cas : Nat) (val : Option String) (o : WOpts) : State × Out :=
  withNewCas s c (wcasFn k exp cas val o)

/-! ### Remove / Delete -/

def removeRow (k : String) (ifCas : Option Nat) : RowFn := fun newCas _ old =>
  match old with
  | none => .inl { err := .missing }
  | some r =>
    if ifCas.isSome ∧ ifCas ≠ some r.cas then .inl { err := .casMismatch, actual := some r.cas }
    else
      let xattrs := Xattrs.systemOnly r.xattrs   -- deleting a doc removes user xattrs but not system ones
      .inr (some { r with value := none, cas := newCas, exp := 0, isJSON := false, xattrs := xattrs, tomb := true, rev := r.rev + 1 },
        some { key := k, value := none, isDeletion := true, isJSON := false, xattrs := xattrs, cas := newCas, exp := 0, rev := r.rev + 1 },
        { cas := newCas })

def removeFn (k : String) (ifCas : Option Nat) : TxnFn := liftRow k (removeRow k ifCas)

def opRemove (s : State) (c k : String) (cas : Nat) : State × Out := withNewCas s c (removeFn k (some cas))
def opDelete (s : State) (c k : String) : State × Out := withNewCas s c (removeFn k none)

/-! ### Touch / GetAndTouchRaw -/

def touchRow (exp : Nat) : RowFn := fun _ now old =>
  let exp := absExp now exp
  match old with
  | none => .inl { err := .missing }
  | some r =>
    match r.value with
    | none => .inl { err := .missing, cas := r.cas }
    | some v => .inr (some { r with exp := exp, rev := r.rev + 1 }, none, { cas := r.cas, val := some v })

def touchFn (k : String) (exp : Nat) : TxnFn := liftRow k (touchRow exp)

/-- No event is posted for a touch; the timer is armed directly when the call succeeded. -/
def armOnSuccess (r : State × Out) (exp : Nat) : State × Out :=
  if r.2.err = .ok then ({ r.1 with expNext := schedAtOrBefore r.1.expNext exp }, r.2) else r

def opTouch (s : State) (c k : String) (exp : Nat) : State × Out :=
  armOnSuccess (withNewCas s c (touchFn k exp)) (absExp s.now exp)

/-! ### PurgeTombstones: one transaction, no CAS -/

def opPurge (s : State) : State × Out :=
  let n := (s.colls.map (fun p => (p.2.docs.filter (fun d => d.2.value.isNone)).length)).foldl (· + ·) 0
  ({ s with colls := s.colls.map (fun p => (p.1, { p.2 with docs := p.2.docs.filter (fun d => d.2.value.isSome) })) }, { n := n })

/-! ### Reads -/

/-- `getRaw`: value, cas, error class. -/
def getRaw (s : State) (c k : String) : Err × Option String × Nat :=
  match s.row? c k with
  | none => (.missing, none, 0)
  | some r => match r.value with
    | none => (.missing, none, r.cas)
    | some v => (.ok, some v, r.cas)

def exists_ (s : State) (c k : String) : Bool :=
  match s.row? c k with
  | some r => r.value.isSome
  | none => false

def getExpiry (s : State) (c k : String) : Err × Nat :=
  match s.row? c k with
  | some r => (.ok, r.exp)
  | none => (.missing, 0)

end Rosmar
