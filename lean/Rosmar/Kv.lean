/-
  The key-value write and read entry points of `collection.go`, one function per API call,
  each written to read like the Go it models (post-`fix:` tree). Core-only.
-/
import Rosmar.Basic
import Rosmar.Pure
namespace Rosmar

/-- What an API call returns (the fields each call fills in are printed by the driver). -/
structure Out where
  err : Err := .ok
  cas : Nat := 0
  added : Bool := false
  val : Option String := none
  n : Nat := 0
  actual : Option Nat := none
  calls : Nat := 0
  seen : List String := []
  deriving Repr, Inhabited

def Out.isOk (o : Out) : Bool := o.err = .ok

/-- Result of the closure passed to `withNewCas`: an error, or new rows, the next row id, an event, the result. -/
abbrev TxnFn := (newCas now nextRowId : Nat) → Docs → Out ⊕ (Docs × Nat × Option Event × Out)

/-- `scheduleExpirationAtOrBefore`. -/
def schedAtOrBefore (next exp : Nat) : Nat :=
  if exp = 0 then next else if next = 0 ∨ exp < next then exp else next

/-- `postNewEvent`: push to every live feed registered on the collection, then arm the expiry timer. -/
def postEvent (s : State) (c : String) (collId : Nat) (e : Event) : State :=
  { s with
    feeds := s.feeds.map (fun f =>
      if f.coll = c ∧ ¬ f.dump then { f with pending := f.pending ++ [.ev e collId f.keysOnly] } else f)
    expNext := schedAtOrBefore s.expNext e.exp }

/-- `withNewCas`: one transaction that draws a CAS, runs the closure, advances both `lastCas` columns; then posts. -/
def withNewCas (s : State) (c : String) (fn : TxnFn) : State × Out :=
  match s.coll? c with
  | none => (s, { err := .closed })
  | some x =>
    let newCas := hlcNow s.hlc s.phys
    let s1 := { s with hlc := newCas }
    match fn newCas s.now s.nextRowId x.docs with
    | .inl out => (s1, out)
    | .inr (docs', nid, ev, out) =>
      let s2 := ({ s1 with lastCas := newCas, nextRowId := nid }).setColl c { x with docs := docs', lastCas := newCas }
      match ev with
      | some e => (postEvent s2 c x.id e, out)
      | none => (s2, out)

/-! ### Add / AddRaw -/

def addFn (k : String) (exp : Nat) (val : String) (isJSON : Bool) : TxnFn := fun newCas now nid docs =>
  let exp := absExp now exp
  match docs.get? k with
  | none =>
    let r : Row := { rowid := nid, value := some val, cas := newCas, exp := exp, isJSON := isJSON, xattrs := [], tomb := false, rev := 1 }
    .inr (docs.put k r, nid + 1,
      some { key := k, value := some val, isDeletion := false, isJSON := isJSON, xattrs := [], cas := newCas, exp := exp, rev := 1 },
      { added := true })
  | some r =>
    if r.tomb then
      let r' : Row := { r with value := some val, xattrs := [], cas := newCas, exp := exp, isJSON := isJSON, tomb := false, rev := r.rev + 1 }
      .inr (docs.put k r', nid,
        some { key := k, value := some val, isDeletion := false, isJSON := isJSON, xattrs := [], cas := newCas, exp := exp, rev := r.rev + 1 },
        { added := true })
    else
      .inr (docs, nid, none, { added := false })

/-- `Add` (`json = true`) and `AddRaw` (`json = false`: datatype from `looksLikeJSON`). -/
def opAdd (s : State) (c k : String) (exp : Nat) (val : String) (json : Bool) : State × Out :=
  withNewCas s c (addFn k exp val (if json then true else looksLikeJSON val))

/-! ### Set / SetRaw / Incr share `_set` -/

/-- `_set`: returns the new docs, next row id, the xattrs kept, the new revision, the expiry stored. -/
def setCore (docs : Docs) (nid : Nat) (k : String) (exp : Nat) (preserveExp : Bool) (val : String) (isJSON : Bool) (newCas : Nat) :
    Docs × Nat × Xattrs × Nat × Nat :=
  match docs.get? k with
  | none =>
    let r : Row := { rowid := nid, value := some val, cas := newCas, exp := exp, isJSON := isJSON, xattrs := [], tomb := false, rev := 1 }
    (docs.put k r, nid + 1, [], 1, exp)
  | some r =>
    let xattrs := if r.value.isSome then r.xattrs else []   -- cleared whenever resurrecting a tombstone
    let exp' := if preserveExp then r.exp else exp
    let r' : Row := { r with value := some val, xattrs := xattrs, cas := newCas, exp := exp', isJSON := isJSON, rev := r.rev + 1, tomb := false }
    (docs.put k r', nid, xattrs, r.rev + 1, exp')

def setFn (k : String) (exp : Nat) (preserveExp : Bool) (val : String) (isJSON : Bool) : TxnFn := fun newCas now nid docs =>
  let exp := absExp now exp
  let (docs', nid', xattrs, rev, expStored) := setCore docs nid k exp preserveExp val isJSON newCas
  let evExp := if preserveExp then expStored else exp
  .inr (docs', nid',
    some { key := k, value := some val, isDeletion := false, isJSON := isJSON, xattrs := xattrs, cas := newCas, exp := evExp, rev := rev },
    {})

/-- `Set` (`raw = false`, stored as JSON) and `SetRaw` (`raw = true`). -/
def opSet (s : State) (c k : String) (exp : Nat) (preserveExp : Bool) (val : String) (raw : Bool) : State × Out :=
  withNewCas s c (setFn k exp preserveExp val (!raw))

/-- Canonical decimal `uint64` text, as `json.Unmarshal` into a `uint64` accepts it. -/
def parseUInt64 (s : String) : Option Nat :=
  let cs := s.toList
  if cs.isEmpty then none
  else if ¬ cs.all Char.isDigit then none
  else if cs.length > 1 ∧ cs.head? = some '0' then none
  else
    let n := cs.foldl (fun a c => a * 10 + (c.toNat - 48)) 0
    if n < 2 ^ 64 then some n else none

def incrFn (k : String) (amt deflt exp : Nat) : TxnFn := fun newCas now nid docs =>
  let exp := absExp now exp
  let cur : Option (Option Nat) :=   -- none = unreadable, some none = missing
    match docs.get? k with
    | none => some none
    | some r =>
      match r.value with
      | none => some none
      | some v => match parseUInt64 v with
        | some n => some (some n)
        | none => none
  match cur with
  | none => .inl { err := .badJson }
  | some cur =>
    let result := match cur with
      | some n => (n + amt) % 2 ^ 64
      | none => deflt
    let raw := toString result
    let (docs', nid', xattrs, rev, _) := setCore docs nid k exp false raw true newCas
    .inr (docs', nid',
      some { key := k, value := some raw, isDeletion := false, isJSON := true, xattrs := xattrs, cas := newCas, exp := exp, rev := rev },
      { n := result })

def opIncr (s : State) (c k : String) (amt deflt exp : Nat) : State × Out :=
  withNewCas s c (incrFn k amt deflt exp)

/-! ### WriteCas -/

structure WOpts where
  raw : Bool := false
  addOnly : Bool := false
  append : Bool := false
  deriving Repr, Inhabited

def wcasFn (k : String) (exp cas : Nat) (val : Option String) (o : WOpts) : TxnFn := fun newCas now nid docs =>
  let isJSON := (!(o.raw || o.append)) && val.isSome
  let old := docs.get? k
  match old, cas with
  | none, (_ + 1) => .inl { err := .missing }
  | _, _ =>
    let rev := (match old with | some r => r.rev | none => 0) + 1
    let exp := absExp now exp
    let tomb := val.isNone
    -- the statement chosen, applied: `some row` when a row was inserted or updated
    let written : Option (Row × Nat) :=
      if o.append then
        match old with
        | some r =>
          match r.value with
          | some v =>
            if r.cas = cas then
              some ({ r with value := val.map (v ++ ·), cas := newCas, exp := exp, isJSON := isJSON, rev := rev,
                             xattrs := if r.tomb then [] else r.xattrs, tomb := tomb }, nid)
            else none
          | none => none
        | none => none
      else if o.addOnly ∨ cas = 0 then
        match old with
        | none =>
          some ({ rowid := nid, value := val, cas := newCas, exp := exp, isJSON := isJSON, xattrs := [], tomb := tomb, rev := rev }, nid + 1)
        | some r =>
          if r.tomb then
            some ({ r with value := val, xattrs := [], cas := newCas, exp := exp, isJSON := isJSON, tomb := tomb, rev := rev }, nid)
          else none
      else
        match old with
        | some r =>
          if r.cas = cas then
            some ({ r with value := val, cas := newCas, exp := exp, isJSON := isJSON, rev := rev,
                           xattrs := if r.tomb then [] else r.xattrs, tomb := tomb }, nid)
          else none
        | none => none
    match written with
    | none =>
      -- nothing inserted or updated: why not?
      match old with
      | none => .inl { err := .missing }
      | some r =>
        if r.value.isNone then .inl { err := .missing }
        else if o.addOnly then .inl { err := .keyExists }
        else .inl { err := .casMismatch, actual := some r.cas }
    | some (r', nid') =>
      .inr (docs.put k r', nid',
        some { key := k, value := r'.value, isDeletion := val.isNone, isJSON := isJSON, xattrs := r'.xattrs, cas := newCas, exp := exp, rev := rev },
        { cas := newCas })

def opWriteCas (s : State) (c k : String) (exp cas : Nat) (val : Option String) (o : WOpts) : State × Out :=
  withNewCas s c (wcasFn k exp cas val o)

/-! ### Remove / Delete -/

def removeFn (k : String) (ifCas : Option Nat) : TxnFn := fun newCas _ nid docs =>
  match docs.get? k with
  | none => .inl { err := .missing }
  | some r =>
    if ifCas.isSome ∧ ifCas ≠ some r.cas then .inl { err := .casMismatch, actual := some r.cas }
    else
      let xattrs := Xattrs.systemOnly r.xattrs   -- deleting a doc removes user xattrs but not system ones
      let r' : Row := { r with value := none, cas := newCas, exp := 0, isJSON := false, xattrs := xattrs, tomb := true, rev := r.rev + 1 }
      .inr (docs.put k r', nid,
        some { key := k, value := none, isDeletion := true, isJSON := false, xattrs := xattrs, cas := newCas, exp := 0, rev := r.rev + 1 },
        { cas := newCas })

def opRemove (s : State) (c k : String) (cas : Nat) : State × Out := withNewCas s c (removeFn k (some cas))
def opDelete (s : State) (c k : String) : State × Out := withNewCas s c (removeFn k none)

/-! ### Touch / GetAndTouchRaw -/

def touchFn (k : String) (exp : Nat) : TxnFn := fun _ now nid docs =>
  let exp := absExp now exp
  match docs.get? k with
  | none => .inl { err := .missing }
  | some r =>
    match r.value with
    | none => .inl { err := .missing, cas := r.cas }
    | some v =>
      .inr (docs.put k { r with exp := exp, rev := r.rev + 1 }, nid, none, { cas := r.cas, val := some v })

def opTouch (s : State) (c k : String) (exp : Nat) : State × Out :=
  let (s', out) := withNewCas s c (touchFn k exp)
  -- no event is posted for a touch; the timer is armed directly
  if out.isOk then ({ s' with expNext := schedAtOrBefore s'.expNext (absExp s.now exp) }, out) else (s', out)

/-! ### PurgeTombstones: one transaction, no CAS -/

def opPurge (s : State) : State × Out :=
  let n := (s.colls.map (fun p => (p.2.docs.filter (fun d => d.2.value.isNone)).length)).foldl (· + ·) 0
  ({ s with colls := s.colls.map (fun p => (p.1, { p.2 with docs := p.2.docs.filter (fun d => d.2.value.isSome) })) }, { n := n })

/-! ### Reads -/

/-- `getRaw`: value, cas, error class. -/
def getRaw (s : State) (c k : String) : Err × Option String × Nat :=
  match s.row? c k with
  | none => (.missing, none, 0)
  | some r => match r.value with
    | none => (.missing, none, r.cas)
    | some v => (.ok, some v, r.cas)

def exists_ (s : State) (c k : String) : Bool :=
  match s.row? c k with
  | some r => r.value.isSome
  | none => false

def getExpiry (s : State) (c k : String) : Err × Nat :=
  match s.row? c k with
  | some r => (.ok, r.exp)
  | none => (.missing, 0)

end Rosmar
