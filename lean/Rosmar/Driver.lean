/-
  Line protocol of the model driver: parse one harness line into an `Op`, print a `Resp` exactly as the
  Go harness prints the implementation's result. Not part of any theorem's statement. Core-only.
-/
import Rosmar.Step
import Rosmar.Registry
import Rosmar.Query
import Rosmar.FeedLife
namespace Rosmar.Driver
open Rosmar

structure Line where
  op : String
  pos : List String
  args : List (String × String)
  deriving Repr, Inhabited

def splitFirstEq (t : String) : Option (String × String) :=
  match t.splitOn "=" with
  | [] => none
  | [_] => none
  | k :: rest => some (k, "=".intercalate rest)

def parseLine (s : String) : Line :=
  let toks := (s.splitOn " ").filter (· ≠ "")
  match toks with
  | [] => { op := "", pos := [], args := [] }
  | op :: rest =>
    rest.foldl (fun l t =>
      match splitFirstEq t with
      | some kv => { l with args := l.args ++ [kv] }
      | none => { l with pos := l.pos ++ [t] }) { op := op, pos := [], args := [] }

namespace Line
def get? (l : Line) (k : String) : Option String := (l.args.find? (·.1 = k)).map (·.2)
def nat (l : Line) (k : String) (d : Nat := 0) : Nat := ((l.get? k).bind String.toNat?).getD d
def flag (l : Line) (k : String) : Bool := l.nat k != 0
def str (l : Line) (k : String) (d : String := "") : String := (l.get? k).getD d
def prefixed (l : Line) (p : String) : List (String × String) :=
  l.args.filterMap (fun a => if a.1.startsWith p then some ((a.1.drop p.length).toString, a.2) else none)
def p0 (l : Line) : String := l.pos.headD ""
def p1 (l : Line) : String := (l.pos.drop 1).headD ""
end Line

def sets (l : Line) : Sets :=
  (l.prefixed "x.").map (fun a => (a.1, some a.2)) ++ (l.prefixed "xnil.").map (fun a => (a.1, none))

def dels (l : Line) : Option (List String) :=
  let ds := (l.prefixed "d.").map (·.1)
  if ds.isEmpty then (if l.flag "dempty" then some [] else none) else some ds

def macros (l : Line) : Macros :=
  (l.prefixed "m.").map (fun a => (a.1, if a.2 = "crc" then MacroKind.crc else MacroKind.cas))

def names (l : Line) : List String :=
  let n := l.str "n"
  if n = "" then [] else n.splitOn ","

/-- Top-level members of a JSON object text as an xattr list (SetWithMeta stores the caller's bytes). -/
def xattrsOfText (t : Option String) : Xattrs :=
  match t with
  | none => []
  | some txt =>
    match J.parse txt with
    | some (.obj fs) =>
      let rec go : Fields → Xattrs
        | .nil => []
        | .cons k v rest => Xattrs.set (go rest) k v.print
      go fs
    | _ => []

def parseUpdSteps (s : String) : List UpdStep :=
  (s.splitOn ";").map (fun st =>
    if st.startsWith "set:" then UpdStep.set (st.drop 4).toString
    else if st = "del" then .del
    else if st.startsWith "delif:" then .delif (st.drop 6).toString
    else if st.startsWith "setifnil:" then .setifnil (st.drop 9).toString
    else if st = "cancel" then .cancel
    else if st = "err" then .err
    else if st = "retry" then .retry
    else if st.startsWith "exp:" then
      match ((st.drop 4).toString.splitOn ":") with
      | [e] => .exp (e.toNat?.getD 0) none
      | e :: rest => let b := ":".intercalate rest; .exp (e.toNat?.getD 0) (if b = "" then none else some b)
      | [] => .err
    else .err)

def parseWuSteps (s : String) : List WuStep :=
  (s.splitOn ";").map (fun st =>
    if st.startsWith "doc:" then WuStep.doc (st.drop 4).toString
    else if st = "xonly" then .xonly
    else if st = "tomb" then .tomb
    else if st = "retry" then .retry
    else .err)

def toOp (l : Line) : Option Op :=
  let c := l.p0
  let k := l.p1
  let exp := l.nat "exp"
  match l.op with
  | "clock" => some (.clock (l.nat "t"))
  | "now" => some (.now (l.nat "s"))
  | "add" => some (.add c k exp (l.str "v") (l.flag "json"))
  | "set" => some (.set c k exp (l.flag "pe") (l.str "v") (l.flag "raw"))
  | "wcas" =>
    let o := l.nat "opt"
    some (.wcas c k exp (l.nat "cas") (l.get? "v") { raw := o % 2 = 1, addOnly := o / 2 % 2 = 1, append := o / 16 % 2 = 1 })
  | "remove" => some (.remove c k (l.nat "cas"))
  | "delete" => some (.delete c k)
  | "touch" => some (.touch c k exp)
  | "gat" => some (.touch c k exp)
  | "incr" => some (.incr c k (l.nat "amt") (l.nat "def") exp)
  | "setx" => some (.setx c k (sets l))
  | "rmx" => some (.rmx c k ((dels l).getD []) (l.nat "cas"))
  | "updx" => some (.updx c k exp (l.nat "cas") (sets l) (macros l))
  | "wwx" => some (.wwx c k exp (l.nat "cas") (l.get? "v") (sets l) (dels l) (l.flag "pe") (macros l))
  | "wtx" => some (.wtx c k exp (l.nat "cas") (sets l) (dels l) (l.flag "delbody") (macros l))
  | "wrx" => some (.wrx c k exp (l.get? "v") (sets l) (l.flag "pe") (macros l))
  | "uxdb" => some (.uxdb c k (l.str "xk") exp (l.nat "cas") (l.get? "xv") (macros l))
  | "delx" => some (.delx c k ((dels l).getD []))
  | "dsp" => some (.dsp c k ((dels l).getD []))
  | "swm" => some (.wmeta c k (l.nat "old") (l.nat "new") exp (xattrsOfText (l.get? "x")) (l.get? "v") (l.nat "dt" % 2 = 1) false)
  | "dwm" => some (.wmeta c k (l.nat "old") (l.nat "new") exp (xattrsOfText (l.get? "x")) none false true)
  | "purge" => some .purge
  | "update" => some (.update c k exp (parseUpdSteps (l.str "cb" "cancel")))
  | "wuwx" => some (.wuwx c k (names l) (parseWuSteps (l.str "cb" "err")) (sets l) (dels l) (macros l)
      ((l.get? "cbexp").bind String.toNat?) (l.flag "pe"))
  | "feed" =>
    let bf := match l.str "bf" "none" with
      | "none" => Backfill.none
      | "resume" => Backfill.resume
      | n => .from (n.toNat?.getD 0)
    some (.startFeed c k bf (l.flag "dump") (l.flag "keysonly") (l.str "prefix"))
  | "stopfeed" => some (.stopFeed c)
  | "drain" => some (.drain c)
  | "fire" => some .fire
  | "expstate" => some .expState
  | "reopenmem" => some .expState   -- every handle of an in-memory bucket closed, bucket opened again by name: nothing changes
  | "rb" => some (.rb c k (names l))
  | "lastcas" => some (.lastCas c)
  | "keys" => some (.keys c)
  | "draw" => some .draw
  | "wsd" => some (.wsd c k (l.str "path") (l.nat "cas") (l.get? "v"))
  | "sdi" => some (.sdi c k (l.str "path") (l.nat "cas") (l.get? "v"))
  | "gsd" => some (.gsd c k (l.str "path"))
  | "restart" => some (.restart (l.nat "hlc"))
  | _ => none

/-! ### Printing -/

def optS (v : Option String) : String := match v with | none => "~" | some s => "=" ++ s

def fmtXMap (m : Option Xattrs) : String :=
  match m with
  | none => "~"
  | some l => "{" ++ ",".intercalate (l.map (fun p => p.1 ++ "=" ++ p.2)) ++ "}"

def actualS (o : Out) : String :=
  match o.err, o.actual with
  | .casMismatch, some a => s!" actual={a}"
  | _, _ => ""

def fmtItem : FeedItem → String
  | .beginBackfill => "ev:begin"
  | .endBackfill => "ev:end"
  | .ev e collId keysOnlyLive =>
    let hasX := !e.xattrs.isEmpty
    let dt := (if e.isJSON then 1 else 0) + (if hasX then 4 else 0)
    let (v, x) : Option String × String :=
      if hasX then
        if keysOnlyLive then (none, "decode-error")
        else ((match e.value with | some "" => none | v => v), fmtXMap (some e.xattrs))
      else ((if keysOnlyLive then none else e.value), "~")
    let op := if e.isDeletion then "del" else "mut"
    s!"ev:\{k={e.key};op={op};dt={dt};v{optS v};x={x};cas={e.cas};exp={e.exp};rev={e.rev};coll={collId - 1}}"

def fmtRow : Option Row → String
  | none => "row=0"
  | some r =>
    let x := if r.xattrs.isEmpty then "~" else "=" ++ Xattrs.text r.xattrs
    s!"row=1 v{optS r.value} cas={r.cas} exp={r.exp} json={if r.isJSON then 1 else 0} x{x} tomb={if r.tomb then 1 else 0} rev={r.rev}"

def fmtRead (r : ReadBack) : String :=
  let (ge, gv, gc) := r.getRaw
  let (ee, en) := r.getExpiry
  let (we, wb, wc, wx) := r.gwx
  let (xe, xc, xx) := r.gx
  fmtRow r.row ++ s!" | gr={ge.name}:{optS gv}:{gc} g={ge.name}:{optS gv}:{gc} ex=ok:{r.exists_} ge={ee.name}:{en}" ++
    s!" gwx={we.name}:{optS wb}:{wc}:{fmtXMap wx} gx={xe.name}:{xc}:{fmtXMap xx}"

def fmtResp (l : Line) (resp : Resp) : String :=
  match resp with
  | .read r => fmtRead r
  | .items its => s!"r=ok n={its.length} " ++ " ".intercalate (its.map fmtItem)
  | .lastCas b c h => s!"r=ok bucket={b} coll={c} hlc={h}"
  | .keys ks => "r=ok keys=" ++ ",".intercalate ks
  | .next n => s!"r=ok next={n}"
  | .reopened h n => s!"r=ok hlc={h} next={n}"
  | .out o =>
    let r := "r=" ++ o.err.name
    match l.op with
    | "add" => s!"{r} added={o.added}"
    | "wcas" | "remove" | "updx" | "wwx" | "wtx" | "wrx" | "uxdb" => s!"{r} cas={o.cas}{actualS o}"
    | "wsd" => s!"{r} cas={o.cas}{actualS o}"
    | "touch" | "setx" | "draw" => s!"{r} cas={o.cas}"
    | "gat" | "gsd" => s!"{r} cas={o.cas} v{optS o.val}"
    | "incr" => s!"{r} n={if o.err = .ok then o.n else 0}"
    | "rmx" | "swm" | "dwm" | "sdi" => s!"{r}{actualS o}"
    | "purge" => s!"{r} n={o.n}"
    | "update" | "wuwx" => s!"{r} cas={o.cas} calls={o.calls} seen=" ++ ",".intercalate o.seen
    | _ => r

end Rosmar.Driver

namespace Rosmar.Driver
open Rosmar.Registry

def regNames : List String := ["A", "B"]
def regUrls : List String := ["d0", "d1", "d2", "d3"]

def toROp (l : Line) : Option ROp :=
  match l.op with
  | "open" =>
    let mode := match l.nat "mode" with | 1 => Mode.createNew | 2 => Mode.reOpenExisting | _ => Mode.createOrOpen
    some (.open_ l.p0 (l.str "url") (l.str "name") mode)
  | "hclose" => some (.close l.p0)
  | "cad" => some (.cad l.p0)
  | "put" => some (.put l.p0 l.p1 (l.str "v"))
  | "get" => some (.get l.p0 l.p1)
  | _ => none

def regLine (r : Reg) (l : Line) : Reg × String :=
  match toROp l with
  | none => (r, "r=model-unknown-op")
  | some op =>
    let (r', e, v) := rstep r op
    let vs := match op with | .get _ _ => " v" ++ optS v | _ => ""
    (r', "r=" ++ e.name ++ vs ++ " | " ++ snapshot r' regNames regUrls)

end Rosmar.Driver

namespace Rosmar.Driver
open Rosmar.FeedLife

def insertSortedFeed (x : LFeed) : List LFeed → List LFeed
  | [] => [x]
  | y :: ys => if x.id < y.id then x :: y :: ys else y :: insertSortedFeed x ys

def lifeLine (st : Life) (l : Line) : Life × String :=
  let sorted := fun (s : Life) => s.feeds.foldr insertSortedFeed []
  match l.op with
  | "hopen" => (lstep st (.openHandle l.p0), "r=ok")
  | "mkcoll" => (st, "r=ok")     -- (the harness prints the row id; ignored by the comparison for this profile)
  | "feed" => (lstep st (.start l.p0 l.p1 (l.flag "dump")), "r=ok")
  | "stopfeed" => (lstep st (.term l.p0), "r=ok")
  | "dropcoll" => (lstep st (.drop l.p0), "r=ok")
  | "hclose" => (lstep st (.closeHandle l.p0), "r=ok")
  | "cadh" => (lstep st .deleteBucket, "r=ok")
  | "mfeed" =>
    -- a bucket-level feed over several collections: one member per collection under the same id
    ((l.p1.splitOn ",").foldl (fun s c => lstep s (.start l.p0 c false)) st, "r=ok")
  | "lifestate" =>
    -- a bucket-level feed's done channel closes when all of its members have ended
    let ids := ((sorted st).map (·.id)).eraseDups
    (st, "r=ok " ++ " ".intercalate (ids.map (fun id =>
      id ++ "=" ++ (if (st.feeds.filter (fun f => f.id == id)).all (·.ended) then "1" else "0"))) ++ " afterdone=0")
  | "probe" =>
    (st, "r=ok " ++ " ".intercalate (((sorted st).filter (fun f => f.coll == l.p0)).map (fun f => f.id ++ "=" ++ (if f.ended then "0" else "1"))))
  | _ => (st, "r=model-unknown-op")

end Rosmar.Driver
