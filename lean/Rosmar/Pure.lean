/-
  Pure helper functions of rosmar: the hybrid logical clock step, expiry arithmetic,
  `looksLikeJSON`, CRC32c and the CAS macro string. Core-only.
-/
namespace Rosmar

/-- `HybridLogicalClock.Now`: returns the new high-water mark (which is also the timestamp handed out). -/
def hlcNow (highest phys : Nat) : Nat :=
  let physical := phys - phys % 65536      -- `&^ 0xFFFF`
  if highest ≥ physical then highest + 1 else physical

/-- `updateLatestTime`. -/
def hlcUpdate (highest last : Nat) : Nat := if last > highest then last else highest

def maxDeltaTtl : Nat := 60 * 60 * 24 * 30

/-- `absoluteExpiry` with the wall clock as a parameter. -/
def absExp (now exp : Nat) : Nat :=
  if exp ≤ maxDeltaTtl ∧ exp > 0 then exp + now else exp

/-- `looksLikeJSON`. -/
def looksLikeJSON (s : String) : Bool :=
  let cs := s.toList
  cs.length ≥ 2 && cs.head? = some '{' && cs.getLast? = some '}'

/-! ### CRC32c (Castagnoli), bitwise; only used to print `$document` and macro expansions. -/

def crcStep (crc : UInt32) : UInt32 :=
  if crc &&& 1 = 1 then (crc >>> 1) ^^^ 0x82F63B78 else crc >>> 1

def crcByte (crc : UInt32) (b : UInt8) : UInt32 :=
  let c := crc ^^^ b.toUInt32
  crcStep (crcStep (crcStep (crcStep (crcStep (crcStep (crcStep (crcStep c)))))))

def crc32c (s : String) : UInt32 :=
  (s.toUTF8.foldl crcByte 0xFFFFFFFF) ^^^ 0xFFFFFFFF

def hexDigit (n : Nat) : Char :=
  if n < 10 then Char.ofNat (48 + n) else Char.ofNat (87 + n)

def hexByte (n : Nat) : String := String.ofList [hexDigit (n / 16 % 16), hexDigit (n % 16)]

/-- `encodedCRC32c`: "0x%08x". -/
def crcString (body : Option String) : String :=
  let c := (crc32c (body.getD "")).toNat
  "0x" ++ hexByte (c / 16777216) ++ hexByte (c / 65536 % 256) ++ hexByte (c / 256 % 256) ++ hexByte (c % 256)

/-- `casAsString`: "0x" followed by the 8 little-endian bytes in hex. -/
def casString (cas : Nat) : String :=
  "0x" ++ String.join ((List.range 8).map (fun i => hexByte (cas / 256 ^ i % 256)))

end Rosmar
