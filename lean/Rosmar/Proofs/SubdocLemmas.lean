/-
  The JSON object algebra behind sub-document writes (C18): get/set/erase on field lists, and the path operations.
-/
import Rosmar.Proofs.Invariant
namespace Rosmar

namespace Fields

theorem get?_set_same : ∀ (fs : Fields) (k : String) (v : J), (fs.set k v).get? k = some v
  | .nil, k, v => by simp [set, get?]
  | .cons k0 v0 rest, k, v => by
    unfold set
    split
    · rename_i h; simp [get?, h]
    · rename_i h; simp [get?, h, get?_set_same rest k v]

theorem get?_set_other : ∀ (fs : Fields) (k k' : String) (v : J), k' ≠ k → (fs.set k v).get? k' = fs.get? k'
  | .nil, k, k', v, h => by simp [set, get?, Ne.symm h]
  | .cons k0 v0 rest, k, k', v, h => by
    unfold set
    split
    · rename_i h0; subst h0; simp [get?, Ne.symm h]
    · by_cases h1 : k0 = k'
      · simp [get?, h1]
      · simp [get?, h1, get?_set_other rest k k' v h]

theorem get?_erase_same : ∀ (fs : Fields) (k : String), (fs.erase k).get? k = none
  | .nil, k => by simp [erase, get?]
  | .cons k0 v0 rest, k => by
    unfold erase
    split
    · exact get?_erase_same rest k
    · rename_i h; simp [get?, h, get?_erase_same rest k]

theorem get?_erase_other : ∀ (fs : Fields) (k k' : String), k' ≠ k → (fs.erase k).get? k' = fs.get? k'
  | .nil, k, k', h => by simp [erase, get?]
  | .cons k0 v0 rest, k, k', h => by
    unfold erase
    split
    · rename_i h0; subst h0; simp [get?, Ne.symm h, get?_erase_other rest k0 k' h]
    · by_cases h1 : k0 = k'
      · simp [get?, h1]
      · simp [get?, h1, get?_erase_other rest k k' h]

end Fields

/-- A top-level property of a document (`none` for a non-object). -/
def topGet : J → String → Option J
  | .obj fs, k => fs.get? k
  | .atom _, _ => none

/-- **Every other top-level property is preserved** by a sub-document set or remove at any depth. -/
theorem upsertAt_top_frame : ∀ (path : List String) (d d' : J) (v : Option J), upsertAt d path v = .inr d' →
    ∀ q, path.head? ≠ some q → topGet d' q = topGet d q := by
  intro path
  induction path with
  | nil => intro d d' v h; cases d <;> simp [upsertAt] at h
  | cons p rest ih =>
    intro d d' v h q hq
    have hpq : q ≠ p := fun e => hq (by simp [e])
    cases d with
    | atom s => cases rest <;> simp [upsertAt] at h
    | obj fs =>
      cases rest with
      | nil =>
        cases v with
        | some x => simp [upsertAt] at h; subst h; simp [topGet, Fields.get?_set_other _ _ _ _ hpq]
        | none => simp [upsertAt] at h; subst h; simp [topGet, Fields.get?_erase_other _ _ _ hpq]
      | cons r rs =>
        simp only [upsertAt] at h
        split at h
        · cases h
        · split at h
          · cases h
          · split at h
            · cases h
            · cases h; simp [topGet, Fields.get?_set_other _ _ _ _ hpq]

/-- **Reading back what was set**: after setting a (non-null) value at a path, that path evaluates to the value. -/
theorem eval_after_set : ∀ (path : List String) (d d' : J) (x : J), path ≠ [] → x.isNullAtom = false →
    upsertAt d path (some x) = .inr d' → evalSubdocPath d' path = .inr x := by
  intro path
  induction path with
  | nil => intro d d' x h; exact absurd rfl h
  | cons p rest ih =>
    intro d d' x _ hx h
    cases d with
    | atom s => cases rest <;> simp [upsertAt] at h
    | obj fs =>
      cases rest with
      | nil =>
        simp [upsertAt] at h; subst h
        simp [evalSubdocPath, Fields.get?_set_same, hx]
      | cons r rs =>
        simp only [upsertAt] at h
        split at h
        · cases h
        · rename_i child hchild
          split at h
          · cases h
          · split at h
            · cases h
            · rename_i child' hrec
              cases h
              have hc := ih child child' x (by simp) hx hrec
              -- the rebuilt child is an object (it contains the path), hence not the null atom
              have hnn : child'.isNullAtom = false := by
                cases child' with
                | obj _ => rfl
                | atom s => cases rs <;> simp [evalSubdocPath] at hc
              simp [evalSubdocPath, Fields.get?_set_same, hnn, hc]

/-- **Removing**: after removing the property at a path (whose parents exist), the path no longer resolves. -/
theorem eval_after_remove : ∀ (path : List String) (d d' : J), path ≠ [] →
    upsertAt d path none = .inr d' → evalSubdocPath d' path = .inl .pathNotFound := by
  intro path
  induction path with
  | nil => intro d d' h; exact absurd rfl h
  | cons p rest ih =>
    intro d d' _ h
    cases d with
    | atom s => cases rest <;> simp [upsertAt] at h
    | obj fs =>
      cases rest with
      | nil =>
        simp [upsertAt] at h; subst h
        simp [evalSubdocPath, Fields.get?_erase_same]
      | cons r rs =>
        simp only [upsertAt] at h
        split at h
        · cases h
        · split at h
          · cases h
          · split at h
            · cases h
            · rename_i child' hrec
              cases h
              have hc := ih _ child' (by simp) hrec
              cases hn : child'.isNullAtom with
              | true => simp [evalSubdocPath, Fields.get?_set_same, hn]
              | false => simp [evalSubdocPath, Fields.get?_set_same, hn, hc]

end Rosmar
