/-
  Foundational lemmas: association lists, collections in the state, and the generic lifting of
  row-level facts through `liftRow`, `withNewCas`, `step` and `run`.
-/
import Rosmar.Step
namespace Rosmar

/-! ### Docs -/

@[simp] theorem Docs.get?_nil (k : String) : Docs.get? [] k = none := rfl

theorem Docs.get?_put_same (docs : Docs) (k : String) (r : Row) : (docs.put k r).get? k = some r := by
  induction docs with
  | nil => simp [Docs.put, Docs.get?]
  | cons hd tl ih =>
    obtain ⟨k0, r0⟩ := hd
    by_cases h : k0 = k
    · simp [Docs.put, Docs.get?, h]
    · simp [Docs.put, Docs.get?, h, ih]

theorem Docs.get?_put_other (docs : Docs) (k k' : String) (r : Row) (h : k' ≠ k) :
    (docs.put k r).get? k' = docs.get? k' := by
  induction docs with
  | nil => simp [Docs.put, Docs.get?, Ne.symm h]
  | cons hd tl ih =>
    obtain ⟨k0, r0⟩ := hd
    by_cases h0 : k0 = k
    · subst h0
      simp [Docs.put, Docs.get?, Ne.symm h]
    · by_cases h1 : k0 = k'
      · subst h1
        simp [Docs.put, Docs.get?, h0]
      · simp [Docs.put, Docs.get?, h0, h1, ih]

theorem Docs.get?_put (docs : Docs) (k k' : String) (r : Row) :
    (docs.put k r).get? k' = if k' = k then some r else docs.get? k' := by
  by_cases h : k' = k
  · subst h; simp [Docs.get?_put_same]
  · simp [h, Docs.get?_put_other _ _ _ _ h]

/-- Every stored row satisfies `P`. -/
def DocsAll (P : Row → Prop) (docs : Docs) : Prop := ∀ p ∈ docs, P p.2

theorem Docs.get?_mem (docs : Docs) (k : String) (r : Row) (h : docs.get? k = some r) : (k, r) ∈ docs := by
  induction docs with
  | nil => simp at h
  | cons hd tl ih =>
    obtain ⟨k0, r0⟩ := hd
    by_cases hk : k0 = k
    · subst hk
      simp [Docs.get?] at h
      simp [h]
    · simp [Docs.get?, hk] at h
      exact List.mem_cons_of_mem _ (ih h)

theorem DocsAll.get {P : Row → Prop} {docs : Docs} (h : DocsAll P docs) (k : String) (r : Row) (hg : docs.get? k = some r) : P r :=
  h (k, r) (Docs.get?_mem docs k r hg)

theorem DocsAll.nil (P : Row → Prop) : DocsAll P [] := by
  intro p h; simp at h

theorem DocsAll.put {P : Row → Prop} {docs : Docs} (h : DocsAll P docs) (k : String) (r : Row) (hr : P r) :
    DocsAll P (docs.put k r) := by
  induction docs with
  | nil => intro p hp; simp [Docs.put] at hp; subst hp; exact hr
  | cons hd tl ih =>
    obtain ⟨k0, r0⟩ := hd
    have htl : DocsAll P tl := fun p hp => h p (List.mem_cons_of_mem _ hp)
    intro p hp
    unfold Docs.put at hp
    split at hp
    · simp at hp
      rcases hp with rfl | hp
      · exact hr
      · exact htl p hp
    · simp at hp
      rcases hp with rfl | hp
      · exact h _ (by simp)
      · exact ih htl p hp

theorem DocsAll.filter {P : Row → Prop} {docs : Docs} (h : DocsAll P docs) (f : String × Row → Bool) :
    DocsAll P (docs.filter f) := fun p hp => h p (List.mem_filter.mp hp).1

/-! ### Collections in the state -/

theorem collsFind_map_same (l : List (String × Coll)) (c : String) (x x0 : Coll)
    (h : (l.find? (fun p => p.1 = c)).map (·.2) = some x0) :
    ((l.map (fun p => if p.1 = c then (p.1, x) else p)).find? (fun p => p.1 = c)).map (·.2) = some x := by
  induction l with
  | nil => simp at h
  | cons hd tl ih =>
    obtain ⟨c0, y⟩ := hd
    by_cases hc : c0 = c
    · simp [List.find?, hc]
    · simp [List.find?, hc] at h ⊢
      simpa using ih (by simpa using h)

theorem collsFind_map_other (l : List (String × Coll)) (c c' : String) (x : Coll) (h : c' ≠ c) :
    ((l.map (fun p => if p.1 = c then (p.1, x) else p)).find? (fun p => p.1 = c')).map (·.2)
      = (l.find? (fun p => p.1 = c')).map (·.2) := by
  induction l with
  | nil => simp
  | cons hd tl ih =>
    obtain ⟨c0, y⟩ := hd
    by_cases hc : c0 = c
    · subst hc
      have : ¬ (c0 = c') := fun e => h e.symm
      simp [List.find?, this]
      simpa using ih
    · by_cases hc' : c0 = c'
      · subst hc'
        simp [List.find?, hc]
      · simp [List.find?, hc, hc']
        simpa using ih

theorem State.coll?_setColl_same (s : State) (c : String) (x x0 : Coll) (h : s.coll? c = some x0) :
    (s.setColl c x).coll? c = some x := by
  unfold State.coll? State.setColl at *
  exact collsFind_map_same s.colls c x x0 h

theorem State.coll?_setColl_other (s : State) (c c' : String) (x : Coll) (h : c' ≠ c) :
    (s.setColl c x).coll? c' = s.coll? c' := by
  unfold State.coll? State.setColl
  exact collsFind_map_other s.colls c c' x h

end Rosmar

namespace Rosmar

/-! ### Lifting row-level facts -/

/-- Every stored row of every collection satisfies `P`. -/
def StateAll (P : Row → Prop) (s : State) : Prop := ∀ p ∈ s.colls, DocsAll P p.2.docs

theorem State.coll?_mem (s : State) (c : String) (x : Coll) (h : s.coll? c = some x) : ∃ p ∈ s.colls, p.2 = x := by
  unfold State.coll? at h
  cases hf : s.colls.find? (fun p => p.1 = c) with
  | none => rw [hf] at h; simp at h
  | some p =>
    rw [hf] at h
    simp at h
    exact ⟨p, List.mem_of_find?_eq_some hf, h⟩

theorem StateAll.coll {P : Row → Prop} {s : State} (hs : StateAll P s) (c : String) (x : Coll) (h : s.coll? c = some x) :
    DocsAll P x.docs := by
  obtain ⟨p, hp, rfl⟩ := s.coll?_mem c x h
  exact hs p hp

theorem StateAll.setColl {P : Row → Prop} {s : State} (hs : StateAll P s) (c : String) (x : Coll) (hx : DocsAll P x.docs) :
    StateAll P (s.setColl c x) := by
  intro p hp
  unfold State.setColl at hp
  simp only [List.mem_map] at hp
  obtain ⟨q, hq, rfl⟩ := hp
  split
  · exact hx
  · exact hs q hq

theorem StateAll.of_colls_eq {P : Row → Prop} {s s' : State} (h : s'.colls = s.colls) (hs : StateAll P s) : StateAll P s' := by
  intro p hp
  exact hs p (h ▸ hp)

/-- A row-level write establishes `P` for the row it stores, given `P` of the row it read. -/
def RowFn.Establishes (P : Row → Prop) (f : RowFn) : Prop :=
  ∀ nc now old r' ev o, (∀ r, old = some r → P r) → f nc now old = .inr (some r', ev, o) → ∀ n, P { r' with rowid := n }

theorem liftRow_docsAll {P : Row → Prop} {f : RowFn} (hf : f.Establishes P) (k : String) (nc now nid : Nat) (docs docs' : Docs)
    (nid' : Nat) (ev : Option Event) (o : Out) (hd : DocsAll P docs)
    (h : liftRow k f nc now nid docs = .inr (docs', nid', ev, o)) : DocsAll P docs' := by
  have hold : ∀ r, docs.get? k = some r → P r := fun r hr => hd.get k r hr
  unfold liftRow at h
  cases hfr : f nc now (docs.get? k) with
  | inl out => rw [hfr] at h; cases h
  | inr p =>
    obtain ⟨ro, ev', o'⟩ := p
    rw [hfr] at h
    cases ro with
    | none => simp only at h; cases h; exact hd
    | some r' =>
      simp only at h
      cases hg : docs.get? k with
      | none =>
        rw [hg] at h; simp only at h; cases h
        exact hd.put k _ (hf nc now _ r' _ _ hold hfr _)
      | some old =>
        rw [hg] at h; simp only at h; cases h
        exact hd.put k _ (hf nc now _ r' _ _ hold hfr _)

theorem postEvent_coll? (s : State) (c : String) (id : Nat) (e : Event) (c' : String) :
    (postEvent s c id e).coll? c' = s.coll? c' := rfl

/-- A transaction closure preserves `DocsAll P`. -/
def TxnFn.Preserves (P : Row → Prop) (fn : TxnFn) : Prop :=
  ∀ nc now nid docs docs' nid' ev o, DocsAll P docs → fn nc now nid docs = .inr (docs', nid', ev, o) → DocsAll P docs'

theorem liftRow_preserves {P : Row → Prop} {f : RowFn} (hf : f.Establishes P) (k : String) : (liftRow k f).Preserves P :=
  fun nc now nid docs docs' nid' ev o hd h => liftRow_docsAll hf k nc now nid docs docs' nid' ev o hd h

theorem withNewCas_stateAll {P : Row → Prop} {fn : TxnFn} (hfn : fn.Preserves P) (s : State) (c : String)
    (hs : StateAll P s) : StateAll P (withNewCas s c fn).1 := by
  unfold withNewCas
  split
  · exact hs
  · rename_i x hx
    simp only
    split
    · exact StateAll.of_colls_eq rfl hs
    · rename_i docs' nid ev out hfn'
      have hd' : DocsAll P docs' := hfn _ _ _ _ _ _ _ _ (hs.coll c x hx) hfn'
      have h2 : StateAll P (commit s c x (hlcNow s.hlc s.phys) nid docs') :=
        StateAll.setColl (StateAll.of_colls_eq rfl hs) c _ hd'
      split
      · exact StateAll.of_colls_eq rfl h2
      · exact h2

/-- `Q` holds of every row function an entry point can run (with the key it runs it on). -/
structure Family (Q : String → RowFn → Prop) : Prop where
  add : ∀ k exp v j, Q k (addRow k exp v j)
  set : ∀ k exp pe v j, Q k (setRow k exp pe v j)
  incr : ∀ k amt d exp, Q k (incrRow k amt d exp)
  wcas : ∀ k exp cas v o, Q k (wcasRow k exp cas v o)
  remove : ∀ k ifCas, Q k (removeRow k ifCas)
  touch : ∀ k exp, Q k (touchRow exp)
  wwx : ∀ k val edits ifCas exp o m, Q k (wwxRow k val edits ifCas exp o m)
  delx : ∀ k names, Q k (delxRow k names)
  dsp : ∀ k names, Q k (dspRow k names)

end Rosmar
