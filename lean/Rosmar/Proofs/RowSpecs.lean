/-
  Row-level specifications shared by several properties: every write function bumps the revision by one
  and describes the row it stores faithfully in the event it posts (C08, C09, C17).
-/
import Rosmar.Proofs.Effect
namespace Rosmar

/-- The revision number of a key: 0 while it has no row. -/
def revOf : Option Row → Nat
  | some r => r.rev
  | none => 0

/-- The event that faithfully describes a stored row (what `asFeedEvent` is given for a live mutation,
    and what the backfill query reads back). -/
def eventOf (k : String) (r : Row) : Event :=
  { key := k, value := r.value, isDeletion := r.value.isNone, isJSON := r.isJSON, xattrs := r.xattrs,
    cas := r.cas, exp := r.exp, rev := r.rev }

/-- A row-level write bumps the revision by exactly one and posts (if anything) the faithful event of the stored row. -/
def RowFn.Faithful (k : String) (f : RowFn) : Prop :=
  ∀ nc now old r' ev o, f nc now old = .inr (some r', ev, o) →
    r'.rev = revOf old + 1 ∧ r'.cas = nc ∧ (∀ e, ev = some e → e = eventOf k r')

/-- ... and does post one. -/
def RowFn.Posts (f : RowFn) : Prop :=
  ∀ nc now old r' ev o, f nc now old = .inr (some r', ev, o) → ev.isSome

/-- A call that stores nothing posts nothing. -/
def RowFn.QuietWhenIdle (f : RowFn) : Prop :=
  ∀ nc now old ev o, f nc now old = .inr (none, ev, o) → ev = none

theorem addRow_faithful (k : String) (exp : Nat) (v : String) (j : Bool) : (addRow k exp v j).Faithful k := by
  intro nc now old r' ev o h
  unfold addRow at h
  split at h
  · cases h; simp [revOf, eventOf]
  · split at h
    · cases h; simp [revOf, eventOf]
    · cases h

theorem addRow_posts (k : String) (exp : Nat) (v : String) (j : Bool) : (addRow k exp v j).Posts := by
  intro nc now old r' ev o h
  unfold addRow at h
  split at h
  · cases h; rfl
  · split at h
    · cases h; rfl
    · cases h

theorem addRow_quiet (k : String) (exp : Nat) (v : String) (j : Bool) : (addRow k exp v j).QuietWhenIdle := by
  intro nc now old ev o h
  unfold addRow at h
  split at h
  · cases h
  · split at h
    · cases h
    · cases h; rfl

theorem setRow_faithful (k : String) (exp : Nat) (pe : Bool) (v : String) (j : Bool) : (setRow k exp pe v j).Faithful k := by
  intro nc now old r' ev o h
  unfold setRow at h
  simp only at h
  cases h
  unfold setCore
  cases old with
  | none => cases pe <;> simp [revOf, eventOf]
  | some r => cases pe <;> simp [revOf, eventOf]

theorem setRow_posts (k : String) (exp : Nat) (pe : Bool) (v : String) (j : Bool) : (setRow k exp pe v j).Posts := by
  intro nc now old r' ev o h
  unfold setRow at h; simp only at h; cases h; rfl

theorem incrRow_faithful (k : String) (amt d exp : Nat) : (incrRow k amt d exp).Faithful k := by
  intro nc now old r' ev o h
  unfold incrRow at h
  simp only at h
  split at h
  · cases h
  · cases h
    unfold setCore
    cases old with
    | none => simp [revOf, eventOf]
    | some r => simp [revOf, eventOf]

theorem incrRow_posts (k : String) (amt d exp : Nat) : (incrRow k amt d exp).Posts := by
  intro nc now old r' ev o h
  unfold incrRow at h; simp only at h
  split at h
  · cases h
  · cases h; rfl

theorem wcasRow_faithful (k : String) (exp cas : Nat) (v : Option String) (o : WOpts) : (wcasRow k exp cas v o).Faithful k := by
  intro nc now old r' ev out h
  unfold wcasRow at h
  split at h
  · cases h
  · simp only at h
    split at h
    · split at h
      · cases h
      · split at h
        · cases h
        · split at h <;> cases h
    · rename_i r'' hw
      cases h
      split at hw
      · split at hw
        · split at hw
          · split at hw
            · cases hw; cases v <;> simp [revOf, eventOf]
            · cases hw
          · cases hw
        · cases hw
      · split at hw
        · split at hw
          · cases hw; cases v <;> simp [revOf, eventOf]
          · split at hw
            · cases hw; cases v <;> simp [revOf, eventOf]
            · cases hw
        · split at hw
          · split at hw
            · cases hw; cases v <;> simp [revOf, eventOf]
            · cases hw
          · cases hw

theorem wcasRow_posts (k : String) (exp cas : Nat) (v : Option String) (o : WOpts) : (wcasRow k exp cas v o).Posts := by
  intro nc now old r' ev out h
  unfold wcasRow at h
  split at h
  · cases h
  · simp only at h
    split at h
    · split at h
      · cases h
      · split at h
        · cases h
        · split at h <;> cases h
    · cases h; rfl

theorem removeRow_faithful (k : String) (ifCas : Option Nat) : (removeRow k ifCas).Faithful k := by
  intro nc now old r' ev o h
  unfold removeRow at h
  split at h
  · cases h
  · split at h
    · cases h
    · cases h; simp [revOf, eventOf]

theorem removeRow_posts (k : String) (ifCas : Option Nat) : (removeRow k ifCas).Posts := by
  intro nc now old r' ev o h
  unfold removeRow at h
  split at h
  · cases h
  · split at h
    · cases h
    · cases h; rfl

theorem wwxRow_faithful (k : String) (val : ValArg) (edits : List XEdit) (ifCas exp : Option Nat) (o : XOpts)
    (m : List (String × MacroKind)) : (wwxRow k val edits ifCas exp o m).Faithful k := by
  intro nc now old r' ev out h
  unfold wwxRow at h
  simp only at h
  split at h
  · cases h
  · rename_i hpre
    split at h
    · cases h
    · split at h
      · cases h
      · split at h
        · cases h
        · cases h
          refine ⟨?_, rfl, ?_⟩
          · -- the revision read is the old row's
            simp only
            cases old with
            | none =>
              simp only at hpre
              split at hpre
              · cases hpre
              · split at hpre
                · cases hpre
                · cases hpre; simp [revOf]
            | some r =>
              simp only at hpre
              split at hpre
              · split at hpre
                · cases hpre
                · cases hpre; simp [revOf]
              · split at hpre
                · cases hpre
                · cases hpre; simp [revOf]
          · intro e he; cases he; simp [eventOf]

theorem wwxRow_posts (k : String) (val : ValArg) (edits : List XEdit) (ifCas exp : Option Nat) (o : XOpts)
    (m : List (String × MacroKind)) : (wwxRow k val edits ifCas exp o m).Posts := by
  intro nc now old r' ev out h
  unfold wwxRow at h
  simp only at h
  split at h
  · cases h
  · split at h
    · cases h
    · split at h
      · cases h
      · split at h
        · cases h
        · cases h; rfl

theorem delxRow_faithful (k : String) (names : List String) : (delxRow k names).Faithful k := by
  intro nc now old r' ev o h
  unfold delxRow at h
  split at h
  · cases h
  · split at h
    · cases h
    · cases h; simp [revOf, eventOf]

theorem delxRow_posts (k : String) (names : List String) : (delxRow k names).Posts := by
  intro nc now old r' ev o h
  unfold delxRow at h
  split at h
  · cases h
  · split at h
    · cases h
    · cases h; rfl

theorem dspRow_faithful (k : String) (names : List String) : (dspRow k names).Faithful k := by
  intro nc now old r' ev o h
  unfold dspRow at h
  split at h
  · cases h
  · split at h
    · cases h
    · cases h; simp [revOf, eventOf]

theorem dspRow_posts (k : String) (names : List String) : (dspRow k names).Posts := by
  intro nc now old r' ev o h
  unfold dspRow at h
  split at h
  · cases h
  · split at h
    · cases h
    · cases h; rfl

/-- A touch bumps the revision, keeps the CAS and posts nothing (the exemption C08 grants). -/
theorem touchRow_spec (exp : Nat) (nc now : Nat) (old : Option Row) (r' : Row) (ev : Option Event) (o : Out)
    (h : touchRow exp nc now old = .inr (some r', ev, o)) :
    ∃ r, old = some r ∧ r'.rev = r.rev + 1 ∧ r'.cas = r.cas ∧ r'.value = r.value ∧ r'.xattrs = r.xattrs ∧
      r'.exp = absExp now exp ∧ ev = none ∧ o.cas = r.cas := by
  unfold touchRow at h
  simp only at h
  split at h
  · cases h
  · rename_i r
    split at h
    · cases h
    · cases h; exact ⟨r, rfl, rfl, rfl, rfl, rfl, rfl, rfl, rfl⟩

/-- WithMeta writes store the caller's CAS; the event is faithful exactly when the call is well-formed. -/
theorem wmetaRow_faithful (k : String) (oldCas newCas exp : Nat) (xs : Xattrs) (body : Option String) (j d : Bool)
    (hwf : d = body.isNone) (nc now : Nat) (old : Option Row) (r' : Row) (ev : Option Event) (o : Out)
    (h : wmetaRow k oldCas newCas exp xs body j d nc now old = .inr (some r', ev, o)) :
    r'.rev = revOf old + 1 ∧ r'.cas = newCas ∧ ev = some (eventOf k r') := by
  unfold wmetaRow at h
  simp only at h
  split at h <;> split at h <;> first
    | (cases h; done)
    | (cases h; subst hwf; simp [revOf, eventOf])

end Rosmar
