/-
  The expiry manager's invariant (C14): whenever some stored document has an expiry, the timer is armed
  for a time no later than the earliest of them.
-/
import Rosmar.Proofs.Families
namespace Rosmar

/-- The timer covers expiry `e`: it is armed, for `e` or earlier. -/
def Covers (next e : Nat) : Prop := e > 0 → next ≠ 0 ∧ next ≤ e

def ExpInv (s : State) : Prop := ∀ p ∈ s.colls, ∀ d ∈ p.2.docs, Covers s.expNext d.2.exp

theorem covers_sched (n e x : Nat) (h : Covers n x) : Covers (schedAtOrBefore n e) x := by
  intro hx
  obtain ⟨h1, h2⟩ := h hx
  unfold schedAtOrBefore
  split
  · exact ⟨h1, h2⟩
  · split
    · rename_i he hlt
      rcases hlt with h0 | hlt
      · exact absurd h0 h1
      · exact ⟨he, by omega⟩
    · exact ⟨h1, h2⟩

theorem covers_sched_self (n e : Nat) : Covers (schedAtOrBefore n e) e := by
  intro he
  unfold schedAtOrBefore
  split
  · omega
  · split
    · exact ⟨by omega, Nat.le_refl _⟩
    · rename_i h; simp at h; exact ⟨h.1, h.2⟩

theorem Docs.mem_put (docs : Docs) (k : String) (r : Row) (d : String × Row) (h : d ∈ docs.put k r) : d = (k, r) ∨ d ∈ docs := by
  induction docs with
  | nil => simp [Docs.put] at h; exact Or.inl h
  | cons hd tl ih =>
    obtain ⟨k0, r0⟩ := hd
    unfold Docs.put at h
    split at h
    · rename_i hk
      simp at h
      rcases h with rfl | h
      · exact Or.inl (by rw [hk])
      · exact Or.inr (List.mem_cons_of_mem _ h)
    · simp at h
      rcases h with rfl | h
      · exact Or.inr (by simp)
      · rcases ih h with h' | h'
        · exact Or.inl h'
        · exact Or.inr (List.mem_cons_of_mem _ h')

/-- A row function arms the timer for what it stores: the row has no expiry, or the event it posts carries it. -/
def EvArms (_k : String) (f : RowFn) : Prop :=
  ∀ nc now old r' ev o, f nc now old = .inr (some r', ev, o) → r'.exp = 0 ∨ ∃ e, ev = some e ∧ e.exp = r'.exp

theorem evArms_txn : TxnFamily EvArms := by
  have mk : ∀ (k : String) (f : RowFn), EvFaithful k f → f.Posts → EvArms k f := by
    intro k f hf hp nc now old r' ev o h
    right
    have hs := hp nc now old r' ev o h
    cases ev with
    | none => simp at hs
    | some e => exact ⟨e, rfl, by rw [hf nc now old r' (some e) o h e rfl]; rfl⟩
  exact
    { add := fun k exp v j => mk k _ (evFaithful_family.add k exp v j) (addRow_posts k exp v j)
      set := fun k exp pe v j => mk k _ (evFaithful_family.set k exp pe v j) (setRow_posts k exp pe v j)
      incr := fun k a d e => mk k _ (evFaithful_family.incr k a d e) (incrRow_posts k a d e)
      wcas := fun k e c v o => mk k _ (evFaithful_family.wcas k e c v o) (wcasRow_posts k e c v o)
      remove := fun k ic => mk k _ (evFaithful_family.remove k ic) (removeRow_posts k ic)
      wwx := fun k val ed ic ex o m => mk k _ (evFaithful_family.wwx k val ed ic ex o m) (wwxRow_posts k val ed ic ex o m)
      delx := fun k n => mk k _ (evFaithful_family.delx k n) (delxRow_posts k n)
      dsp := fun k n => mk k _ (evFaithful_family.dsp k n) (dspRow_posts k n) }

/-- The state reached from `s` by replacing collection `c`'s table and then (perhaps) scheduling: the invariant holds
    when the new table's rows are covered. -/
theorem expInv_of_docs (s s' : State) (c : String) (x : Coll) (hs : ExpInv s)
    (hmono : ∀ e, Covers s.expNext e → Covers s'.expNext e)
    (hcolls : ∀ p ∈ s'.colls, p ∈ s.colls ∨ (p.1 = c ∧ p.2.docs = x.docs))
    (hx : ∀ d ∈ x.docs, Covers s'.expNext d.2.exp) : ExpInv s' := by
  intro p hp d hd
  rcases hcolls p hp with h | ⟨_, h⟩
  · exact hmono _ (hs p h d hd)
  · rw [h] at hd; exact hx d hd

theorem mem_setColl (s : State) (c : String) (x : Coll) (p : String × Coll) (hp : p ∈ (s.setColl c x).colls) :
    p ∈ s.colls ∨ (p.1 = c ∧ p.2 = x) := by
  unfold State.setColl at hp
  simp only [List.mem_map] at hp
  obtain ⟨q, hq, rfl⟩ := hp
  split
  · rename_i h; exact Or.inr ⟨h, rfl⟩
  · exact Or.inl hq

theorem withNewCas_expInv (s : State) (c k : String) (f : RowFn) (hf : EvArms k f) (hs : ExpInv s) :
    ExpInv (withNewCas s c (liftRow k f)).1 := by
  unfold withNewCas
  cases hx : s.coll? c with
  | none => exact hs
  | some x =>
    simp only
    obtain ⟨px, hpx, hpx2⟩ := s.coll?_mem c x hx
    have hxdocs : ∀ d ∈ x.docs, Covers s.expNext d.2.exp := fun d hd => hs px hpx d (hpx2 ▸ hd)
    cases hfn : liftRow k f (hlcNow s.hlc s.phys) s.now s.nextRowId x.docs with
    | inl out => exact hs
    | inr q =>
      obtain ⟨docs', nid, ev, out⟩ := q
      simp only
      -- rows of docs' are old rows or the row just stored; the stored row's expiry is carried by the event
      have hdocs : ∀ d ∈ docs', d ∈ x.docs ∨ (d.2.exp = 0 ∨ ∃ e, ev = some e ∧ e.exp = d.2.exp) := by
        intro d hd
        unfold liftRow at hfn
        cases hfr : f (hlcNow s.hlc s.phys) s.now (x.docs.get? k) with
        | inl o => rw [hfr] at hfn; cases hfn
        | inr pr =>
          obtain ⟨ro, ev', o'⟩ := pr
          rw [hfr] at hfn
          cases ro with
          | none => simp only at hfn; cases hfn; exact Or.inl hd
          | some r' =>
            have harm := hf _ _ _ _ _ _ hfr
            simp only at hfn
            cases hg : x.docs.get? k with
            | none =>
              rw [hg] at hfn; simp only at hfn; cases hfn
              rcases Docs.mem_put _ _ _ _ hd with rfl | h
              · exact Or.inr harm
              · exact Or.inl h
            | some old =>
              rw [hg] at hfn; simp only at hfn; cases hfn
              rcases Docs.mem_put _ _ _ _ hd with rfl | h
              · exact Or.inr harm
              · exact Or.inl h
      have hcommit : ∀ p ∈ (commit s c x (hlcNow s.hlc s.phys) nid docs').colls, p ∈ s.colls ∨ (p.1 = c ∧ p.2.docs = docs') := by
        intro p hp
        unfold commit at hp
        rcases mem_setColl _ _ _ _ hp with h | ⟨h1, h2⟩
        · exact Or.inl h
        · exact Or.inr ⟨h1, by rw [h2]⟩
      cases ev with
      | none =>
        refine expInv_of_docs s _ c { x with docs := docs' } hs (fun e h => h) hcommit ?_
        intro d hd
        rcases hdocs d hd with h | h | ⟨e, he, _⟩
        · exact hxdocs d h
        · intro hpos; omega
        · cases he
      | some e =>
        refine expInv_of_docs s _ c { x with docs := docs' } hs (fun x' h => covers_sched _ _ _ h) hcommit ?_
        intro d hd
        show Covers (schedAtOrBefore s.expNext e.exp) d.2.exp
        rcases hdocs d hd with h | h | ⟨e', he, hexp⟩
        · exact covers_sched _ _ _ (hxdocs d h)
        · intro hpos; omega
        · cases he; rw [← hexp]; exact covers_sched_self _ _

/-! ### `min(exp)` over the whole store -/

def minStep (a : Nat) (d : String × Row) : Nat := if d.2.exp > 0 ∧ (a = 0 ∨ d.2.exp < a) then d.2.exp else a

theorem foldl_minStep (l : List (String × Row)) : ∀ a,
    (a ≠ 0 → l.foldl minStep a ≠ 0 ∧ l.foldl minStep a ≤ a) ∧
    (∀ d ∈ l, d.2.exp > 0 → l.foldl minStep a ≠ 0 ∧ l.foldl minStep a ≤ d.2.exp) := by
  induction l with
  | nil => intro a; exact ⟨fun h => ⟨h, Nat.le_refl _⟩, fun d hd => by simp at hd⟩
  | cons hd tl ih =>
    intro a
    simp only [List.foldl]
    obtain ⟨ih1, ih2⟩ := ih (minStep a hd)
    have hstep : (a ≠ 0 → minStep a hd ≠ 0 ∧ minStep a hd ≤ a) ∧ (hd.2.exp > 0 → minStep a hd ≠ 0 ∧ minStep a hd ≤ hd.2.exp) := by
      unfold minStep
      constructor
      · intro ha; split
        · rename_i h; rcases h.2 with h0 | hlt
          · exact absurd h0 ha
          · exact ⟨by omega, by omega⟩
        · exact ⟨ha, Nat.le_refl _⟩
      · intro hpos; split
        · exact ⟨by omega, Nat.le_refl _⟩
        · rename_i h; simp at h; have := h hpos; exact ⟨this.1, this.2⟩
    refine ⟨?_, ?_⟩
    · intro ha
      obtain ⟨h1, h2⟩ := hstep.1 ha
      obtain ⟨h3, h4⟩ := ih1 h1
      exact ⟨h3, by omega⟩
    · intro d hd hpos
      rcases List.mem_cons.mp hd with rfl | hd'
      · obtain ⟨h1, h2⟩ := hstep.2 hpos
        obtain ⟨h3, h4⟩ := ih1 h1
        exact ⟨h3, by omega⟩
      · exact ih2 d hd' hpos

theorem minExp_covers (s : State) : ∀ p ∈ s.colls, ∀ d ∈ p.2.docs, Covers (minExp s) d.2.exp := by
  have hdef : minExp s = s.colls.foldl (fun acc p => p.2.docs.foldl minStep acc) 0 := rfl
  rw [hdef]
  generalize s.colls = l
  have gen : ∀ (l : List (String × Coll)) (a : Nat),
      (a ≠ 0 → l.foldl (fun acc p => p.2.docs.foldl minStep acc) a ≠ 0 ∧ l.foldl (fun acc p => p.2.docs.foldl minStep acc) a ≤ a) ∧
      (∀ p ∈ l, ∀ d ∈ p.2.docs, d.2.exp > 0 →
        l.foldl (fun acc p => p.2.docs.foldl minStep acc) a ≠ 0 ∧ l.foldl (fun acc p => p.2.docs.foldl minStep acc) a ≤ d.2.exp) := by
    intro l
    induction l with
    | nil => intro a; exact ⟨fun h => ⟨h, Nat.le_refl _⟩, fun p hp => by simp at hp⟩
    | cons hd tl ih =>
      intro a
      simp only [List.foldl]
      obtain ⟨ih1, ih2⟩ := ih (hd.2.docs.foldl minStep a)
      obtain ⟨f1, f2⟩ := foldl_minStep hd.2.docs a
      refine ⟨?_, ?_⟩
      · intro ha
        obtain ⟨h1, h2⟩ := f1 ha
        obtain ⟨h3, h4⟩ := ih1 h1
        exact ⟨h3, by omega⟩
      · intro p hp d hd' hpos
        rcases List.mem_cons.mp hp with rfl | hp'
        · obtain ⟨h1, h2⟩ := f2 d hd' hpos
          obtain ⟨h3, h4⟩ := ih1 h1
          exact ⟨h3, by omega⟩
        · exact ih2 p hp' d hd' hpos
  intro p hp d hd hpos
  exact (gen l 0).2 p hp d hd hpos

/-- After the sweep the timer is re-armed from the earliest expiry left: the invariant holds whatever held before. -/
theorem opFireExpiry_expInv (s : State) : ExpInv (opFireExpiry s) := by
  unfold opFireExpiry
  simp only
  generalize (List.foldl _ _ _ : State) = s1
  split
  · rename_i hm
    intro p hp d hd hpos
    obtain ⟨h1, h2⟩ := minExp_covers s1 p hp d hd hpos
    show schedAtOrBefore s1.expNext (minExp s1) ≠ 0 ∧ schedAtOrBefore s1.expNext (minExp s1) ≤ d.2.exp
    unfold schedAtOrBefore
    split
    · omega
    · split
      · exact ⟨h1, h2⟩
      · rename_i h; simp at h; exact ⟨h.1, by omega⟩
  · rename_i hm
    intro p hp d hd hpos
    obtain ⟨h1, _⟩ := minExp_covers s1 p hp d hd hpos
    omega

theorem reopen_expInv (s : State) (p : Nat) : ExpInv (reopen s p) := by
  intro q hq d hd
  exact minExp_covers s q hq d hd

theorem ExpInv.frame {s s' : State} (hc : s'.colls = s.colls) (he : s'.expNext = s.expNext) (h : ExpInv s) : ExpInv s' := by
  intro p hp d hd
  rw [he]; exact h p (hc ▸ hp) d hd

theorem touchRow_exp (exp nc now : Nat) (old : Option Row) (r' : Row) (ev : Option Event) (o : Out)
    (h : touchRow exp nc now old = .inr (some r', ev, o)) : r'.exp = absExp now exp ∧ ev = none ∧ o.err = .ok := by
  obtain ⟨r, _, _, _, _, _, h6, h7, _⟩ := touchRow_spec exp nc now old r' ev o h
  refine ⟨h6, h7, ?_⟩
  unfold touchRow at h
  simp only at h
  split at h
  · cases h
  · split at h
    · cases h
    · cases h; rfl

/-- `Touch`: the transaction stores the new expiry without an event; arming the timer right after restores the invariant. -/
theorem opTouch_expInv (s : State) (c k : String) (exp : Nat) (hs : ExpInv s) : ExpInv (opTouch s c k exp).1 := by
  unfold opTouch armOnSuccess withNewCas
  cases hx : s.coll? c with
  | none =>
    simp only
    split
    · exact fun p hp d hd => covers_sched _ _ _ (hs p hp d hd)
    · exact hs
  | some x =>
    simp only
    obtain ⟨px, hpx, hpx2⟩ := s.coll?_mem c x hx
    have hxdocs : ∀ d ∈ x.docs, Covers s.expNext d.2.exp := fun d hd => hs px hpx d (hpx2 ▸ hd)
    cases hfn : touchFn k exp (hlcNow s.hlc s.phys) s.now s.nextRowId x.docs with
    | inl out =>
      simp only
      split
      · exact fun p hp d hd => covers_sched _ _ _ (hs p hp d hd)
      · exact hs
    | inr q =>
      obtain ⟨docs', nid, ev, out⟩ := q
      have hdocs : (∀ d ∈ docs', d ∈ x.docs ∨ d.2.exp = absExp s.now exp) ∧ ev = none ∧ out.err = .ok := by
        unfold touchFn liftRow at hfn
        cases hfr : touchRow exp (hlcNow s.hlc s.phys) s.now (x.docs.get? k) with
        | inl o => rw [hfr] at hfn; cases hfn
        | inr pr =>
          obtain ⟨ro, ev', o'⟩ := pr
          rw [hfr] at hfn
          cases ro with
          | none => exact absurd hfr (by apply (noneStored_quiet k).2.2.2.2.1)
          | some r' =>
            obtain ⟨h1, h2, h3⟩ := touchRow_exp _ _ _ _ _ _ _ hfr
            simp only at hfn
            cases hg : x.docs.get? k with
            | none =>
              rw [hg] at hfn; simp only at hfn; cases hfn
              exact ⟨fun d hd => (Docs.mem_put _ _ _ _ hd).elim (fun h => Or.inr (by rw [h]; exact h1)) Or.inl, h2, h3⟩
            | some old =>
              rw [hg] at hfn; simp only at hfn; cases hfn
              exact ⟨fun d hd => (Docs.mem_put _ _ _ _ hd).elim (fun h => Or.inr (by rw [h]; exact h1)) Or.inl, h2, h3⟩
      obtain ⟨hd', hev, hok⟩ := hdocs
      subst hev
      simp only [hok, if_true]
      intro p hp d hd
      show Covers (schedAtOrBefore s.expNext (absExp s.now exp)) d.2.exp
      unfold commit at hp
      rcases mem_setColl _ _ _ _ hp with h | ⟨_, h2⟩
      · exact covers_sched _ _ _ (hs p h d hd)
      · rw [h2] at hd
        rcases hd' d hd with h | h
        · exact covers_sched _ _ _ (hxdocs d h)
        · rw [h]; exact covers_sched_self _ _

theorem opWriteWithMeta_expInv (s : State) (c k : String) (old new exp : Nat) (xs : Xattrs) (body : Option String) (j d : Bool)
    (hs : ExpInv s) : ExpInv (opWriteWithMeta s c k old new exp xs body j d).1 := by
  unfold opWriteWithMeta
  cases hx : s.coll? c with
  | none => exact hs
  | some x =>
    simp only
    obtain ⟨px, hpx, hpx2⟩ := s.coll?_mem c x hx
    have hxdocs : ∀ d ∈ x.docs, Covers s.expNext d.2.exp := fun d hd => hs px hpx d (hpx2 ▸ hd)
    cases hfn : liftRow k (wmetaRow k old new exp xs body j d) new s.now s.nextRowId x.docs with
    | inl out => exact hs
    | inr q =>
      obtain ⟨docs', nid, ev, out⟩ := q
      simp only
      have hdocs : ∀ dd ∈ docs', dd ∈ x.docs ∨ ∃ e, ev = some e ∧ e.exp = dd.2.exp := by
        intro dd hdd
        unfold liftRow at hfn
        cases hfr : wmetaRow k old new exp xs body j d new s.now (x.docs.get? k) with
        | inl o => rw [hfr] at hfn; cases hfn
        | inr pr =>
          obtain ⟨ro, ev', o'⟩ := pr
          rw [hfr] at hfn
          have hspec : ∃ r', ro = some r' ∧ ∃ e, ev' = some e ∧ e.exp = r'.exp := by
            unfold wmetaRow at hfr
            simp only at hfr
            split at hfr <;> split at hfr <;> first
              | (cases hfr; done)
              | (cases hfr; exact ⟨_, rfl, _, rfl, rfl⟩)
          obtain ⟨r', rfl, e, rfl, hexp⟩ := hspec
          simp only at hfn
          cases hg : x.docs.get? k with
          | none =>
            rw [hg] at hfn; simp only at hfn; cases hfn
            exact (Docs.mem_put _ _ _ _ hdd).elim (fun h => Or.inr ⟨e, rfl, by rw [h]; exact hexp⟩) Or.inl
          | some o0 =>
            rw [hg] at hfn; simp only at hfn; cases hfn
            exact (Docs.mem_put _ _ _ _ hdd).elim (fun h => Or.inr ⟨e, rfl, by rw [h]; exact hexp⟩) Or.inl
      have hcolls : ∀ p ∈ (({ s with nextRowId := nid } : State).setColl c { x with docs := docs' }).colls, p ∈ s.colls ∨ (p.1 = c ∧ p.2.docs = docs') := by
        intro p hp
        rcases mem_setColl _ _ _ _ hp with h | ⟨h1, h2⟩
        · exact Or.inl h
        · exact Or.inr ⟨h1, by rw [h2]⟩
      cases ev with
      | none =>
        refine expInv_of_docs s _ c { x with docs := docs' } hs (fun e h => h) hcolls ?_
        intro dd hdd
        rcases hdocs dd hdd with h | ⟨e, he, _⟩
        · exact hxdocs dd h
        · cases he
      | some e =>
        refine expInv_of_docs s _ c { x with docs := docs' } hs (fun x' h => covers_sched _ _ _ h) hcolls ?_
        intro dd hdd
        show Covers (schedAtOrBefore s.expNext e.exp) dd.2.exp
        rcases hdocs dd hdd with h | ⟨e', he, hexp⟩
        · exact covers_sched _ _ _ (hxdocs dd h)
        · cases he; rw [← hexp]; exact covers_sched_self _ _

theorem expInv_step : StepInvariant (fun _ => True) ExpInv where
  txn :=
    { add := fun k exp v j s c h => withNewCas_expInv s c k _ (evArms_txn.add k exp v j) h
      set := fun k exp pe v j s c h => withNewCas_expInv s c k _ (evArms_txn.set k exp pe v j) h
      incr := fun k a d e s c h => withNewCas_expInv s c k _ (evArms_txn.incr k a d e) h
      wcas := fun k e cs v o s c h => withNewCas_expInv s c k _ (evArms_txn.wcas k e cs v o) h
      remove := fun k ic s c h => withNewCas_expInv s c k _ (evArms_txn.remove k ic) h
      wwx := fun k val ed ic ex o m s c h => withNewCas_expInv s c k _ (evArms_txn.wwx k val ed ic ex o m) h
      delx := fun k n s c h => withNewCas_expInv s c k _ (evArms_txn.delx k n) h
      dsp := fun k n s c h => withNewCas_expInv s c k _ (evArms_txn.dsp k n) h }
  touchOp := fun s c k exp h => opTouch_expInv s c k exp h
  wmeta := fun s c k old new exp xs body j d _ h => opWriteWithMeta_expInv s c k old new exp xs body j d h
  draw := fun s h => ExpInv.frame rfl rfl h
  restart := fun s p _ _ => reopen_expInv s p
  purge := fun s _ h => by
    intro p hp d hd
    simp only [opPurge, List.mem_map] at hp
    obtain ⟨q, hq, rfl⟩ := hp
    exact h q hq d (List.mem_filter.mp hd).1
  arm := fun s e h => fun p hp d hd => covers_sched _ _ _ (h p hp d hd)
  fire := fun s _ => opFireExpiry_expInv s
  clock := fun s t h => ExpInv.frame rfl rfl h
  now := fun s n h => ExpInv.frame rfl rfl h
  feeds := fun s fs h => ExpInv.frame rfl rfl h

theorem initState_expInv : ExpInv initState := by
  intro p hp d hd
  simp [initState] at hp
  rcases hp with rfl | rfl | rfl <;> simp at hd

end Rosmar
