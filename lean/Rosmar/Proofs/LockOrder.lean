import Rosmar.Shutdown

/-! Lock ordering: if every acquisition goes up a ranking, no set of threads is deadlocked. -/

namespace Rosmar.Shutdown

variable {L : Type}

/-- A thread respects a ranking when the lock it waits for ranks above every lock it holds. -/
def Respects (rank : L → Nat) (t : Thread L) : Prop :=
  ∀ l, t.waits = some l → ∀ h ∈ t.held, rank h < rank l

def waitRank (rank : L → Nat) (t : Thread L) : Nat :=
  match t.waits with
  | some l => rank l
  | none => 0

theorem waitRank_le_sum (rank : L → Nat) (ts : List (Thread L)) (t : Thread L) (h : t ∈ ts) :
    waitRank rank t ≤ (ts.map (waitRank rank)).sum := by
  induction ts with
  | nil => cases h
  | cons a as ih =>
    simp only [List.map_cons, List.sum_cons]
    cases h with
    | head => omega
    | tail _ h' => have := ih h'; omega

/-- In a deadlocked set whose members respect the ranking, some member waits at every rank: impossible. -/
theorem deadlock_unbounded (rank : L → Nat) (ts : List (Thread L)) (hr : ∀ t ∈ ts, Respects rank t)
    (hd : Deadlocked ts) : ∀ k, ∃ t ∈ ts, k ≤ waitRank rank t := by
  intro k
  induction k with
  | zero =>
    cases ts with
    | nil => exact absurd rfl hd.1
    | cons a as => exact ⟨a, List.mem_cons_self, Nat.zero_le _⟩
  | succ k ih =>
    obtain ⟨t, ht, hk⟩ := ih
    obtain ⟨l, hw, t', ht', hl⟩ := hd.2 t ht
    obtain ⟨l', hw', _⟩ := hd.2 t' ht'
    refine ⟨t', ht', ?_⟩
    have h1 : rank l < rank l' := hr t' ht' l' hw' l hl
    have h2 : waitRank rank t = rank l := by unfold waitRank; rw [hw]
    have h3 : waitRank rank t' = rank l' := by unfold waitRank; rw [hw']
    omega

theorem no_deadlock (rank : L → Nat) (ts : List (Thread L)) (hr : ∀ t ∈ ts, Respects rank t) : ¬ Deadlocked ts := by
  intro hd
  obtain ⟨t, ht, hk⟩ := deadlock_unbounded rank ts hr hd ((ts.map (waitRank rank)).sum + 1)
  have := waitRank_le_sum rank ts t ht
  omega

/-- With the acquisitions a thread can perform given as a list of `(held, acquired)` edges: a ranking that rises along every
edge rules out deadlock among threads whose (held, waited-for) pairs are all edges. -/
theorem ranked_edges_no_deadlock [DecidableEq L] (edges : List (L × L)) (rank : L → Nat)
    (hrank : ∀ e ∈ edges, rank e.1 < rank e.2) (ts : List (Thread L))
    (hts : ∀ t ∈ ts, ∀ l, t.waits = some l → ∀ h ∈ t.held, (h, l) ∈ edges) : ¬ Deadlocked ts :=
  no_deadlock rank ts (fun t ht l hw h hh => hrank (h, l) (hts t ht l hw h hh))

theorem deadlockedB_iff (ts : List (Thread String)) : deadlockedB ts = true ↔ Deadlocked ts := by
  unfold deadlockedB Deadlocked
  simp only [Bool.and_eq_true, Bool.not_eq_true', List.isEmpty_eq_false_iff, List.all_eq_true, ne_eq]
  constructor
  · rintro ⟨h1, h2⟩
    refine ⟨h1, fun t ht => ?_⟩
    have := h2 t ht
    cases hw : t.waits with
    | none => simp [hw] at this
    | some l =>
      simp only [hw, List.any_eq_true, List.contains_eq_mem, decide_eq_true_eq] at this
      exact ⟨l, rfl, this⟩
  · rintro ⟨h1, h2⟩
    refine ⟨h1, fun t ht => ?_⟩
    obtain ⟨l, hw, t', ht', hl⟩ := h2 t ht
    simp only [hw, List.any_eq_true, List.contains_eq_mem, decide_eq_true_eq]
    exact ⟨t', ht', hl⟩

end Rosmar.Shutdown
