/-
  Feed bookkeeping: what `withNewCas` does to the feeds, and properties of the backfill query (C08, C09).
-/
import Rosmar.Proofs.Clock
namespace Rosmar

/-- The feeds after a single transaction: every live feed of the collection gets the posted event appended, once;
    nothing else changes; without an event nothing changes at all. -/
theorem withNewCas_feeds (s : State) (c : String) (fn : TxnFn) :
    (withNewCas s c fn).1.feeds =
      match s.coll? c with
      | none => s.feeds
      | some x =>
        match fn (hlcNow s.hlc s.phys) s.now s.nextRowId x.docs with
        | .inr (_, _, some e, _) =>
          s.feeds.map (fun f => if f.coll = c ∧ ¬ f.dump ∧ ¬ f.stopped then { f with pending := f.pending ++ [.ev e x.id f.keysOnly] } else f)
        | _ => s.feeds := by
  unfold withNewCas
  cases hx : s.coll? c with
  | none => rfl
  | some x =>
    simp only
    cases hfn : fn (hlcNow s.hlc s.phys) s.now s.nextRowId x.docs with
    | inl out => rfl
    | inr q =>
      obtain ⟨docs', nid, ev, out⟩ := q
      cases ev with
      | none => simp [commit, State.setColl]
      | some e => simp [postEvent, commit, State.setColl]

/-! ### sorting by CAS -/

theorem insertByCas_perm (x : String × Row) (l : List (String × Row)) : (insertByCas x l).Perm (x :: l) := by
  induction l with
  | nil => simp [insertByCas]
  | cons y ys ih =>
    unfold insertByCas
    split
    · exact List.Perm.refl _
    · exact (List.Perm.cons y ih).trans (List.Perm.swap x y ys)

theorem sortByCas_perm (l : List (String × Row)) : (sortByCas l).Perm l := by
  induction l with
  | nil => simp [sortByCas]
  | cons x xs ih =>
    simp only [sortByCas, List.foldr] at ih ⊢
    exact (insertByCas_perm x _).trans (List.Perm.cons x ih)

theorem insertByCas_sorted (x : String × Row) (l : List (String × Row)) (h : l.Pairwise (fun a b => a.2.cas ≤ b.2.cas)) :
    (insertByCas x l).Pairwise (fun a b => a.2.cas ≤ b.2.cas) := by
  induction l with
  | nil => simp [insertByCas]
  | cons y ys ih =>
    unfold insertByCas
    rw [List.pairwise_cons] at h
    split
    · rename_i hlt
      rw [List.pairwise_cons]
      refine ⟨?_, List.pairwise_cons.mpr h⟩
      intro a ha
      rcases List.mem_cons.mp ha with rfl | ha
      · omega
      · have := h.1 a ha; omega
    · rename_i hge
      rw [List.pairwise_cons]
      refine ⟨?_, ih h.2⟩
      intro a ha
      have hp := (insertByCas_perm x ys).mem_iff.mp ha
      rcases List.mem_cons.mp hp with rfl | ha'
      · omega
      · exact h.1 a ha'

theorem sortByCas_sorted (l : List (String × Row)) : (sortByCas l).Pairwise (fun a b => a.2.cas ≤ b.2.cas) := by
  induction l with
  | nil => simp [sortByCas]
  | cons x xs ih =>
    simp only [sortByCas, List.foldr] at ih ⊢
    exact insertByCas_sorted x _ ih

theorem mem_backfillRows (docs : Docs) (start : Nat) (p : String × Row) :
    p ∈ backfillRows docs start ↔ p ∈ docs ∧ p.2.cas ≥ start := by
  unfold backfillRows
  rw [(sortByCas_perm _).mem_iff, List.mem_filter]
  simp

end Rosmar
