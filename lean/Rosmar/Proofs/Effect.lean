/-
  The state-level effect of a single-row write: what `withNewCas s c (liftRow k f)` does to every row
  of every collection, and what it returns, in terms of the row-level function `f` alone.
-/
import Rosmar.Proofs.Lemmas
namespace Rosmar

theorem State.row?_def (s : State) (c k : String) : s.row? c k = (s.coll? c).bind (fun x => x.docs.get? k) := by
  unfold State.row?; cases s.coll? c <;> rfl

/-- The row a successful row-level write stores: the new row with the identity of the row it replaces. -/
def storedRow (old : Option Row) (nid : Nat) (r' : Row) : Row :=
  { r' with rowid := match old with | some o => o.rowid | none => nid }

theorem liftRow_get?_same (k : String) (f : RowFn) (nc now nid : Nat) (docs docs' : Docs) (nid' : Nat) (ev : Option Event) (o : Out)
    (h : liftRow k f nc now nid docs = .inr (docs', nid', ev, o)) :
    (∃ ev' , f nc now (docs.get? k) = .inr (none, ev', o) ∧ docs' = docs) ∨
    (∃ r' ev', f nc now (docs.get? k) = .inr (some r', ev', o) ∧ docs'.get? k = some (storedRow (docs.get? k) nid r')) := by
  unfold liftRow at h
  cases hfr : f nc now (docs.get? k) with
  | inl out => rw [hfr] at h; cases h
  | inr p =>
    obtain ⟨ro, ev', o'⟩ := p
    rw [hfr] at h
    cases ro with
    | none => simp only at h; cases h; exact Or.inl ⟨_, rfl, rfl⟩
    | some r' =>
      simp only at h
      cases hg : docs.get? k with
      | none =>
        rw [hg] at h; simp only at h; cases h
        exact Or.inr ⟨r', _, rfl, by simp [Docs.get?_put_same, storedRow]⟩
      | some old =>
        rw [hg] at h; simp only at h; cases h
        exact Or.inr ⟨r', _, rfl, by simp [Docs.get?_put_same, storedRow]⟩

theorem liftRow_get?_other (k k' : String) (hk : k' ≠ k) (f : RowFn) (nc now nid : Nat) (docs docs' : Docs) (nid' : Nat)
    (ev : Option Event) (o : Out) (h : liftRow k f nc now nid docs = .inr (docs', nid', ev, o)) :
    docs'.get? k' = docs.get? k' := by
  unfold liftRow at h
  cases hfr : f nc now (docs.get? k) with
  | inl out => rw [hfr] at h; cases h
  | inr p =>
    obtain ⟨ro, ev', o'⟩ := p
    rw [hfr] at h
    cases ro with
    | none => simp only at h; cases h; rfl
    | some r' =>
      simp only at h
      cases hg : docs.get? k with
      | none => rw [hg] at h; simp only at h; cases h; exact Docs.get?_put_other _ _ _ _ hk
      | some old => rw [hg] at h; simp only at h; cases h; exact Docs.get?_put_other _ _ _ _ hk

/-- Other collections are untouched by a write addressed to `c` (frame, C11). -/
theorem withNewCas_coll?_other (s : State) (c c' : String) (fn : TxnFn) (h : c' ≠ c) :
    (withNewCas s c fn).1.coll? c' = s.coll? c' := by
  unfold withNewCas
  split
  · rfl
  · simp only
    split
    · rfl
    · split
      · rw [postEvent_coll?]; unfold commit; rw [State.coll?_setColl_other _ _ _ _ h]; rfl
      · unfold commit; rw [State.coll?_setColl_other _ _ _ _ h]; rfl

theorem withNewCas_row?_other_coll (s : State) (c c' k' : String) (fn : TxnFn) (h : c' ≠ c) :
    (withNewCas s c fn).1.row? c' k' = s.row? c' k' := by
  rw [State.row?_def, State.row?_def, withNewCas_coll?_other s c c' fn h]

/-- The outcome of a single-row write, read off the row function. -/
inductive RowOutcome (f : RowFn) (s : State) (c k : String) (s' : State) (out : Out) : Prop where
  | noColl (h : s.coll? c = none) (hrow : ∀ c' k', s'.row? c' k' = s.row? c' k') (ho : out.err = .closed)
  | failed (hf : f (hlcNow s.hlc s.phys) s.now (s.row? c k) = .inl out) (hrow : ∀ c' k', s'.row? c' k' = s.row? c' k')
  | unchanged (ev : Option Event) (hf : f (hlcNow s.hlc s.phys) s.now (s.row? c k) = .inr (none, ev, out))
      (hrow : ∀ c' k', s'.row? c' k' = s.row? c' k')
  | wrote (r' : Row) (ev : Option Event) (hf : f (hlcNow s.hlc s.phys) s.now (s.row? c k) = .inr (some r', ev, out))
      (hrow : s'.row? c k = some (storedRow (s.row? c k) s.nextRowId r'))
      (hother : ∀ c' k', (c' ≠ c ∨ k' ≠ k) → s'.row? c' k' = s.row? c' k')

theorem withNewCas_liftRow_outcome (s : State) (c k : String) (f : RowFn) :
    RowOutcome f s c k (withNewCas s c (liftRow k f)).1 (withNewCas s c (liftRow k f)).2 := by
  unfold withNewCas
  cases hx : s.coll? c with
  | none => exact .noColl hx (fun _ _ => rfl) rfl
  | some x =>
    simp only
    have hrow : s.row? c k = x.docs.get? k := by rw [State.row?_def, hx]; rfl
    cases hfn : liftRow k f (hlcNow s.hlc s.phys) s.now s.nextRowId x.docs with
    | inl out =>
      simp only
      refine .failed ?_ (fun _ _ => rfl)
      unfold liftRow at hfn
      rw [hrow]
      cases hfr : f (hlcNow s.hlc s.phys) s.now (x.docs.get? k) with
      | inl o => rw [hfr] at hfn; simp only at hfn; cases hfn; rfl
      | inr p =>
        obtain ⟨ro, ev', o'⟩ := p
        rw [hfr] at hfn
        cases ro with
        | none => simp only at hfn; cases hfn
        | some r' => simp only at hfn; cases hg : x.docs.get? k <;> rw [hg] at hfn <;> simp only at hfn <;> cases hfn
    | inr q =>
      obtain ⟨docs', nid, ev, out⟩ := q
      simp only
      -- rows of the state after the write, whatever is posted
      have hcoll : ∀ (s2 : State), (∀ c', s2.coll? c' = (commit s c x (hlcNow s.hlc s.phys) nid docs').coll? c') →
          (s2.row? c k = docs'.get? k) ∧ (∀ c' k', (c' ≠ c ∨ k' ≠ k) → s2.row? c' k' = (if c' = c then docs'.get? k' else s.row? c' k')) := by
        intro s2 h2
        have hsame : s2.coll? c = some { x with docs := docs', lastCas := hlcNow s.hlc s.phys } := by
          rw [h2]; unfold commit; rw [State.coll?_setColl_same _ _ _ x (by simpa [State.coll?] using hx)]
        refine ⟨by rw [State.row?_def, hsame]; rfl, ?_⟩
        intro c' k' _
        by_cases hc : c' = c
        · subst hc; simp only [if_true]; rw [State.row?_def, hsame]; rfl
        · simp only [hc, if_false]
          rw [State.row?_def, State.row?_def, h2]; unfold commit; rw [State.coll?_setColl_other _ _ _ _ hc]; rfl
      have fin : ∀ (s2 : State), (∀ c', s2.coll? c' = (commit s c x (hlcNow s.hlc s.phys) nid docs').coll? c') → RowOutcome f s c k s2 out := by
        intro s2 h2
        obtain ⟨h2a, h2b⟩ := hcoll s2 h2
        rcases liftRow_get?_same k f _ _ _ _ _ _ _ _ hfn with ⟨ev', hf, hd⟩ | ⟨r', ev', hf, hd⟩
        · subst hd
          refine .unchanged ev' (by rw [hrow]; exact hf) ?_
          intro c' k'
          by_cases hck : c' = c ∧ k' = k
          · obtain ⟨rfl, rfl⟩ := hck; rw [h2a, hrow]
          · have : c' ≠ c ∨ k' ≠ k := by
              by_cases hc : c' = c
              · exact Or.inr (fun hk => hck ⟨hc, hk⟩)
              · exact Or.inl hc
            rw [h2b c' k' this]
            split
            · rename_i hc; subst hc; rw [State.row?_def, hx]; rfl
            · rfl
        · refine .wrote r' ev' (by rw [hrow]; exact hf) (by rw [h2a, hd, hrow]) ?_
          intro c' k' hne
          rw [h2b c' k' hne]
          split
          · rename_i hc
            subst hc
            have hk : k' ≠ k := by rcases hne with h | h; exact absurd rfl h; exact h
            rw [liftRow_get?_other k k' hk f _ _ _ _ _ _ _ _ hfn, State.row?_def, hx]; rfl
          · rfl
      cases ev with
      | some e => exact fin _ (fun c' => by rw [postEvent_coll?])
      | none => exact fin _ (fun c' => rfl)

end Rosmar
