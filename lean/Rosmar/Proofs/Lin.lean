/-
  Optimistic concurrency holds across arbitrary interference (C03): while a document's CAS is unchanged its body is
  unchanged, whatever other operations ran in between — so a write conditional on the CAS that was read is stored on top
  of exactly the version that was read.
-/
import Rosmar.Proofs.Clock
import Rosmar.Proofs.Shape
namespace Rosmar

/-- A stored row either gets the CAS just drawn, or keeps both its CAS and its body (a touch). -/
def CasFreshOrSame (_k : String) (f : RowFn) : Prop :=
  ∀ nc now old r' ev o, f nc now old = .inr (some r', ev, o) →
    r'.cas = nc ∨ (r'.cas = casOf old ∧ r'.value = old.bind (·.value) ∧ r'.xattrs = (old.map (·.xattrs)).getD [])

theorem casFreshOrSame_family : Family CasFreshOrSame where
  add k exp v j := fun nc now old r' ev o h => Or.inl (addRow_faithful k exp v j nc now old r' ev o h).2.1
  set k exp pe v j := fun nc now old r' ev o h => Or.inl (setRow_faithful k exp pe v j nc now old r' ev o h).2.1
  incr k a d e := fun nc now old r' ev o h => Or.inl (incrRow_faithful k a d e nc now old r' ev o h).2.1
  wcas k e c v o := fun nc now old r' ev out h => Or.inl (wcasRow_faithful k e c v o nc now old r' ev out h).2.1
  remove k ic := fun nc now old r' ev o h => Or.inl (removeRow_faithful k ic nc now old r' ev o h).2.1
  touch k exp := fun nc now old r' ev o h => by
    obtain ⟨r, rfl, _, h3, h4, h5, _, _, _⟩ := touchRow_spec exp nc now old r' ev o h
    exact Or.inr ⟨by simpa [casOf] using h3, by simpa using h4, by simpa using h5⟩
  wwx k val ed ic ex o m := fun nc now old r' ev out h => Or.inl (wwxRow_faithful k val ed ic ex o m nc now old r' ev out h).2.1
  delx k n := fun nc now old r' ev o h => Or.inl (delxRow_faithful k n nc now old r' ev o h).2.1
  dsp k n := fun nc now old r' ev o h => Or.inl (dspRow_faithful k n nc now old r' ev o h).2.1

/-- "Version `cas0` of `(c, k)` has body `b0` and xattrs `x0`": as long as the key still carries CAS `cas0`, it still
    has that body and those xattrs. `cas0` is a CAS the clock has already passed. -/
def VersionInv (c k : String) (cas0 : Nat) (b0 : Option String) (x0 : Xattrs) (s : State) : Prop :=
  cas0 ≤ s.hlc ∧ (casOf (s.row? c k) = cas0 → (s.row? c k).bind (·.value) = b0 ∧ ((s.row? c k).map (·.xattrs)).getD [] = x0)

theorem withNewCas_versionInv (c k : String) (cas0 : Nat) (hpos : cas0 ≠ 0) (b0 : Option String) (x0 : Xattrs)
    (c' k' : String) (f : RowFn) (hf : CasFreshOrSame k' f) (s : State) (h : VersionInv c k cas0 b0 x0 s) :
    VersionInv c k cas0 b0 x0 (withNewCas s c' (liftRow k' f)).1 := by
  obtain ⟨hle, hver⟩ := h
  have hgt := hlcNow_gt s.hlc s.phys
  have hhlc : s.hlc ≤ (withNewCas s c' (liftRow k' f)).1.hlc := by
    unfold withNewCas
    split
    · exact Nat.le_refl _
    · simp only
      split
      · exact Nat.le_of_lt hgt
      · split <;> (simp only [postEvent, commit, State.setColl]; exact Nat.le_of_lt hgt)
  refine ⟨Nat.le_trans hle hhlc, ?_⟩
  cases withNewCas_liftRow_outcome s c' k' f with
  | noColl _ hr _ => rw [hr]; exact hver
  | failed _ hr => rw [hr]; exact hver
  | unchanged _ _ hr => rw [hr]; exact hver
  | wrote r' ev hfw hr hother =>
    by_cases hck : c = c' ∧ k = k'
    · obtain ⟨rfl, rfl⟩ := hck
      rw [hr]
      intro hc
      rcases hf _ _ _ _ _ _ hfw with hnew | ⟨hsame, hval, hx⟩
      · exfalso
        simp only [casOf, storedRow] at hc
        omega
      · have hc0 : casOf (s.row? c k) = cas0 := by simp only [casOf, storedRow] at hc; rw [← hsame]; exact hc
        obtain ⟨hb, hxx⟩ := hver hc0
        refine ⟨?_, ?_⟩
        · simp only [storedRow, Option.bind]; rw [hval]; exact hb
        · simp only [storedRow, Option.map, Option.getD]; rw [hx]; exact hxx
    · have hne : c ≠ c' ∨ k ≠ k' := by
        by_cases h1 : c = c'
        · exact Or.inr (fun h2 => hck ⟨h1, h2⟩)
        · exact Or.inl h1
      rw [hother c k hne]; exact hver

theorem VersionInv.frame {c k : String} {cas0 : Nat} {b0 : Option String} {x0 : Xattrs} {s s' : State}
    (hh : s.hlc ≤ s'.hlc) (hr : s'.row? c k = s.row? c k) (h : VersionInv c k cas0 b0 x0 s) : VersionInv c k cas0 b0 x0 s' := by
  obtain ⟨h1, h2⟩ := h
  exact ⟨Nat.le_trans h1 hh, by rw [hr]; exact h2⟩

/-- Operations under which the version relation is claimed: everything but the WithMeta writes (which choose their own
    CAS), purges and process restarts. -/
def Op.Regular : Op → Prop
  | .wmeta .. => False
  | .restart _ => False
  | .purge => False
  | _ => True


theorem versionInv_step (c k : String) (cas0 : Nat) (hpos : cas0 ≠ 0) (b0 : Option String) (x0 : Xattrs) :
    StepInvariant Op.Regular (VersionInv c k cas0 b0 x0) where
  txn := (casFreshOrSame_family.toTxn).mapInv (fun k' f hf s c' h => withNewCas_versionInv c k cas0 hpos b0 x0 c' k' f hf s h)
  touchOp := fun s c' k' exp h => by
    unfold opTouch
    have h1 := withNewCas_versionInv c k cas0 hpos b0 x0 c' k' _ (casFreshOrSame_family.touch k' exp) s h
    exact VersionInv.frame (by rw [armOnSuccess_hlc]; exact Nat.le_refl _) (armOnSuccess_row? ..) h1
  wmeta := fun s c' k' old new exp xs body j d hw _ => absurd hw (by simp [Op.Regular])
  draw := fun s h => VersionInv.frame (Nat.le_of_lt (hlcNow_gt _ _)) rfl h
  restart := fun s p hw _ => absurd hw (by simp [Op.Regular])
  purge := fun s hw _ => absurd hw (by simp [Op.Regular])
  arm := fun s e h => VersionInv.frame (Nat.le_refl _) rfl h
  fire := fun s h => fire_of_txn (fun k' s c' h => withNewCas_versionInv c k cas0 hpos b0 x0 c' k' _ (casFreshOrSame_family.remove k' none) s h)
    (fun s e h => VersionInv.frame (Nat.le_refl _) rfl h) s h
  clock := fun s t h => VersionInv.frame (Nat.le_refl _) rfl h
  now := fun s n h => VersionInv.frame (Nat.le_refl _) rfl h
  feeds := fun s fs h => VersionInv.frame (Nat.le_refl _) rfl h

end Rosmar
