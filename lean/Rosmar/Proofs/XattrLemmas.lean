/-
  The xattr map algebra and what `writeWithXattrs` does to body, expiry and xattrs (C07).
-/
import Rosmar.Proofs.Coherence
namespace Rosmar

namespace Xattrs

theorem get?_set_same (xs : Xattrs) (k v : String) : get? (set xs k v) k = some v := by
  induction xs with
  | nil => simp [set, get?]
  | cons hd tl ih =>
    obtain ⟨k0, v0⟩ := hd
    unfold set
    split
    · simp [get?]
    · split
      · rename_i h; simp [get?, h]
      · rename_i h1 h2
        have : k0 ≠ k := fun e => h2 e.symm
        simp [get?, this, ih]

theorem get?_set_other (xs : Xattrs) (k k' v : String) (h : k' ≠ k) : get? (set xs k v) k' = get? xs k' := by
  induction xs with
  | nil => simp [set, get?, Ne.symm h]
  | cons hd tl ih =>
    obtain ⟨k0, v0⟩ := hd
    unfold set
    split
    · simp [get?, Ne.symm h]
    · split
      · rename_i h2; subst h2; simp [get?, Ne.symm h]
      · by_cases h0 : k0 = k'
        · simp [get?, h0]
        · simp [get?, h0, ih]

theorem get?_erase_same (xs : Xattrs) (k : String) : get? (erase xs k) k = none := by
  induction xs with
  | nil => simp [erase, get?]
  | cons hd tl ih =>
    obtain ⟨k0, v0⟩ := hd
    unfold erase
    split
    · exact ih
    · rename_i h; simp [get?, h, ih]

theorem get?_erase_other (xs : Xattrs) (k k' : String) (h : k' ≠ k) : get? (erase xs k) k' = get? xs k' := by
  induction xs with
  | nil => simp [erase, get?]
  | cons hd tl ih =>
    obtain ⟨k0, v0⟩ := hd
    unfold erase
    split
    · rename_i h0; subst h0; simp [get?, Ne.symm h, ih]
    · by_cases h0 : k0 = k'
      · simp [get?, h0]
      · simp [get?, h0, ih]

end Xattrs

/-- One step of `applyEdits`. -/
def applyEdit (macros : Macros) (newCas : Nat) (body : Option String) (acc : Err ⊕ Xattrs) (e : XEdit) : Err ⊕ Xattrs :=
  match acc with
  | .inl err => .inl err
  | .inr xs =>
    match e.2 with
    | some txt =>
      match J.parse txt with
      | none => .inl .badXattrJson
      | some j =>
        match expandMacros e.1 j macros newCas body with
        | .inl err => .inl err
        | .inr j' => .inr (Xattrs.set xs e.1 j'.canon.print)
    | none =>
      match Xattrs.get? xs e.1 with
      | some _ => .inr (Xattrs.erase xs e.1)
      | none => .inl .pathNotFound

theorem applyEdits_eq_foldl (xs : Xattrs) (edits : List XEdit) (m : Macros) (nc : Nat) (body : Option String) :
    applyEdits xs edits m nc body = edits.foldl (applyEdit m nc body) (.inr xs) := rfl

theorem foldl_applyEdit_inl (edits : List XEdit) (m : Macros) (nc : Nat) (body : Option String) (e : Err) :
    edits.foldl (applyEdit m nc body) (.inl e) = .inl e := by
  induction edits with
  | nil => rfl
  | cons hd tl ih => simpa [List.foldl, applyEdit] using ih

/-- **Frame**: an xattr the call does not name is left byte-for-byte intact. -/
theorem applyEdits_frame (edits : List XEdit) (m : Macros) (nc : Nat) (body : Option String) :
    ∀ (xs res : Xattrs), applyEdits xs edits m nc body = .inr res →
      ∀ n, (∀ e ∈ edits, e.1 ≠ n) → Xattrs.get? res n = Xattrs.get? xs n := by
  induction edits with
  | nil => intro xs res h n _; simp [applyEdits] at h; subst h; rfl
  | cons hd tl ih =>
    intro xs res h n hn
    rw [applyEdits_eq_foldl, List.foldl] at h
    have hhd : hd.1 ≠ n := hn hd (List.mem_cons_self)
    cases hstep : applyEdit m nc body (.inr xs) hd with
    | inl e => rw [hstep, foldl_applyEdit_inl] at h; cases h
    | inr xs1 =>
      rw [hstep] at h
      have := ih xs1 res h n (fun e he => hn e (List.mem_cons_of_mem _ he))
      rw [this]
      unfold applyEdit at hstep
      simp only at hstep
      split at hstep
      · split at hstep
        · cases hstep
        · split at hstep
          · cases hstep
          · cases hstep; exact Xattrs.get?_set_other _ _ _ _ (Ne.symm hhd)
      · split at hstep
        · cases hstep; exact Xattrs.get?_erase_other _ _ _ (Ne.symm hhd)
        · cases hstep

/-- The read-and-check prefix of `writeWithXattrs`: value, isJSON, prevCas, exp, xattrs, rev of the document as the call sees it. -/
def wwxPre (val : ValArg) (ifCas : Option Nat) (o : XOpts) (old : Option Row) : Out ⊕ (Option String × Bool × Nat × Nat × Xattrs × Nat) :=
  match old with
  | some r =>
    if r.tomb ∧ val.isBody then
      if ifCasNonzero ifCas then .inl { err := .keyExists }
      else .inr (r.value, r.isJSON, r.cas, r.exp, [], r.rev)
    else if o.insertDoc then .inl { err := .keyExists }
    else .inr (r.value, r.isJSON, r.cas, r.exp, r.xattrs, r.rev)
  | none =>
    if o.requireExistingDoc then .inl { err := .missing }
    else if ifCasNonzero ifCas then .inl { err := .casMismatch, actual := some 0 }
    else .inr (none, false, 0, 0, [], 0)

/-- The body step: new value, datatype, and the xattrs the edits start from. -/
def wwxBody (val : ValArg) (value0 : Option String) (isJSON0 : Bool) (xattrs0 : Xattrs) : Option String × Bool × Xattrs :=
  match val with
  | .keep => (value0, isJSON0, xattrs0)
  | .delete => (none, false, Xattrs.systemOnly xattrs0)
  | .body b => (some b, true, xattrs0)

theorem wwxRow_eq (k : String) (val : ValArg) (edits : List XEdit) (ifCas exp : Option Nat) (o : XOpts) (m : Macros)
    (nc now : Nat) (old : Option Row) :
    wwxRow k val edits ifCas exp o m nc now old =
      match wwxPre val ifCas o old with
      | .inl out => .inl out
      | .inr (value0, isJSON0, prevCas, exp0, xattrs0, rev0) =>
        if value0.isNone ∧ o.deleteBody ∧ o.requireExistingDoc then .inl { err := .missing }
        else if ifCasMismatch ifCas prevCas then .inl { err := .casMismatch, actual := some prevCas }
        else
          match applyEdits (wwxBody val value0 isJSON0 xattrs0).2.2 edits m nc (wwxBody val value0 isJSON0 xattrs0).1 with
          | .inl err => .inl { err := err }
          | .inr xattrs =>
            let value := (wwxBody val value0 isJSON0 xattrs0).1
            let expStored := match exp with | some e => absExp now e | none => exp0
            .inr (some { rowid := 0, value := value, cas := nc, exp := expStored, isJSON := (wwxBody val value0 isJSON0 xattrs0).2.1,
                         xattrs := xattrs, tomb := value.isNone, rev := rev0 + 1 },
              some { key := k, value := value, isDeletion := value.isNone, isJSON := (wwxBody val value0 isJSON0 xattrs0).2.1,
                     xattrs := xattrs, cas := nc, exp := expStored, rev := rev0 + 1 },
              { cas := nc }) := by
  unfold wwxRow wwxPre wwxBody
  cases old <;> cases val <;> rfl

/-- **What `writeWithXattrs` stores**: the CAS just drawn; the body given (or the old one, or none when deleting);
    the expiry given (or the old one); and as xattrs the edits applied — with macros expanded against *that* CAS and
    *that* body — to the xattrs `wwxPre`/`wwxBody` start from. -/
theorem wwxRow_effect (k : String) (val : ValArg) (edits : List XEdit) (ifCas exp : Option Nat) (o : XOpts) (m : Macros)
    (nc now : Nat) (old : Option Row) (r' : Row) (ev : Option Event) (out : Out)
    (h : wwxRow k val edits ifCas exp o m nc now old = .inr (some r', ev, out)) :
    ∃ value0 isJSON0 prevCas exp0 xattrs0 rev0, wwxPre val ifCas o old = .inr (value0, isJSON0, prevCas, exp0, xattrs0, rev0) ∧
      r'.cas = nc ∧
      r'.value = (wwxBody val value0 isJSON0 xattrs0).1 ∧
      r'.exp = (match exp with | some e => absExp now e | none => exp0) ∧
      applyEdits (wwxBody val value0 isJSON0 xattrs0).2.2 edits m r'.cas r'.value = .inr r'.xattrs := by
  rw [wwxRow_eq] at h
  split at h
  · cases h
  · rename_i value0 isJSON0 prevCas exp0 xattrs0 rev0 hpre
    split at h
    · cases h
    · split at h
      · cases h
      · split at h
        · cases h
        · rename_i xs hx
          cases h
          exact ⟨value0, isJSON0, prevCas, exp0, xattrs0, rev0, hpre, rfl, rfl, by cases exp <;> rfl, hx⟩

/-- Where the edits start from: the old xattrs — except that resurrecting a tombstone starts from none, and deleting
    the body keeps only the system ones. -/
theorem wwxPre_xattrs (val : ValArg) (ifCas : Option Nat) (o : XOpts) (old : Option Row)
    (value0 : Option String) (isJSON0 : Bool) (prevCas exp0 : Nat) (xattrs0 : Xattrs) (rev0 : Nat)
    (h : wwxPre val ifCas o old = .inr (value0, isJSON0, prevCas, exp0, xattrs0, rev0)) :
    (value0 = old.bind (·.value)) ∧ (exp0 = (old.map (·.exp)).getD 0) ∧
    (xattrs0 = match old with
      | none => []
      | some r => if r.tomb ∧ val.isBody then [] else r.xattrs) := by
  unfold wwxPre at h
  cases old with
  | none =>
    simp only at h
    split at h
    · cases h
    · split at h
      · cases h
      · cases h; exact ⟨rfl, rfl, rfl⟩
  | some r =>
    simp only at h
    split at h
    · rename_i ht
      split at h
      · cases h
      · cases h; exact ⟨rfl, rfl, by simp [ht]⟩
    · rename_i ht
      split at h
      · cases h
      · cases h; exact ⟨rfl, rfl, by simp [ht]⟩

/-- **A body-only write to a live document leaves its xattrs intact** (Set / SetRaw / Incr / WriteCas / Update). -/
theorem bodyOnly_keeps_xattrs (k : String) (r : Row) (hco : RowCoh r) (hlive : r.value ≠ none) (nc now : Nat) :
    (∀ exp pe v j r' ev o, setRow k exp pe v j nc now (some r) = .inr (some r', ev, o) → r'.xattrs = r.xattrs) ∧
    (∀ a d e r' ev o, incrRow k a d e nc now (some r) = .inr (some r', ev, o) → r'.xattrs = r.xattrs) ∧
    (∀ e c v o r' ev out, wcasRow k e c (some v) o nc now (some r) = .inr (some r', ev, out) → r'.xattrs = r.xattrs) := by
  have hs : r.value.isSome = true := by cases hv : r.value <;> simp_all
  have ht : r.tomb = false := by
    cases h : r.tomb with
    | false => rfl
    | true => exact absurd (hco.mp h) hlive
  refine ⟨?_, ?_, ?_⟩
  · intro exp pe v j r' ev o h
    simp [setRow, setCore, hs] at h
    obtain ⟨rfl, _, _⟩ := h; rfl
  · intro a d e r' ev o h
    unfold incrRow at h
    simp only at h
    split at h
    · cases h
    · simp [setCore, hs] at h
      obtain ⟨rfl, _, _⟩ := h; rfl
  · intro e c v o r' ev out h
    exact (wcasRow_shape k e c (some v) o nc now (some r) r' ev out h).2.2 r rfl ht

end Rosmar
