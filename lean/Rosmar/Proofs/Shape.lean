/-
  Every single-row entry point is `runShape s op.shape`: rejected by its argument checks, or exactly one
  `withNewCas s c (liftRow k f)` transaction. Lets the property theorems quantify over all of them at once.
-/
import Rosmar.Proofs.RowSpecs
import Rosmar.Proofs.Invariant
namespace Rosmar

theorem armOnSuccess_coll? (r : State × Out) (exp : Nat) (c : String) : (armOnSuccess r exp).1.coll? c = r.1.coll? c := by
  unfold armOnSuccess; split <;> rfl

theorem armOnSuccess_row? (r : State × Out) (exp : Nat) (c k : String) : (armOnSuccess r exp).1.row? c k = r.1.row? c k := by
  unfold armOnSuccess; split <;> rfl

theorem armOnSuccess_feeds (r : State × Out) (exp : Nat) : (armOnSuccess r exp).1.feeds = r.1.feeds := by
  unfold armOnSuccess; split <;> rfl

theorem armOnSuccess_hlc (r : State × Out) (exp : Nat) : (armOnSuccess r exp).1.hlc = r.1.hlc := by
  unfold armOnSuccess; split <;> rfl

theorem armOnSuccess_snd (r : State × Out) (exp : Nat) : (armOnSuccess r exp).2 = r.2 := by
  unfold armOnSuccess; split <;> rfl

/-- A single-row call is `runShape` of its shape (for `touch`, up to arming the expiry timer). -/
theorem step_shape (s : State) (op : Op) (sh : OpShape) (h : op.shape = some sh) :
    (∀ c' k', (step s op).1.row? c' k' = (runShape s sh).1.row? c' k') ∧
    (step s op).2 = .out (runShape s sh).2 ∧
    (∀ c', (step s op).1.coll? c' = (runShape s sh).1.coll? c') := by
  cases op <;> simp only [Op.shape, Option.some.injEq, reduceCtorEq] at h <;> subst h
  case touch c k exp =>
    simp only [step, opTouch, touchFn, runShape]
    exact ⟨fun _ _ => armOnSuccess_row? .., by rw [armOnSuccess_snd], fun _ => armOnSuccess_coll? ..⟩
  all_goals exact ⟨fun _ _ => rfl, rfl, fun _ => rfl⟩

/-- A rejected call returns its error and leaves the whole state alone. -/
theorem step_rejected (s : State) (op : Op) (e : Err) (h : op.shape = some (.rejected e)) : step s op = (s, .out { err := e }) := by
  cases op <;> simp only [Op.shape, Option.some.injEq, reduceCtorEq] at h
  all_goals first
    | cases h
    | (simp only [step, opSetXattrs, opRemoveXattrs, opUpdateXattrs, opWriteWithXattrs, opWriteTombstoneWithXattrs,
        opWriteResurrectionWithXattrs, opUpdateXattrDeleteBody, h, runShape])

end Rosmar

namespace Rosmar

theorem wwxShape_family {Q : String → RowFn → Prop} (hQ : Family Q) (c k : String) (val : ValArg) (edits : List XEdit)
    (ifCas exp : Option Nat) (o : XOpts) (m : Macros) (c' k' : String) (f : RowFn)
    (h : wwxShape c k val edits ifCas exp o m = .row c' k' f) : c' = c ∧ Q k' f := by
  unfold wwxShape at h
  split at h
  · cases h
  · cases h; exact ⟨rfl, hQ.wwx ..⟩

/-- Whatever single-row entry point is called, the row function it runs belongs to the family, on the addressed collection. -/
theorem shape_family {Q : String → RowFn → Prop} (hQ : Family Q) (op : Op) (c k : String) (f : RowFn)
    (h : op.shape = some (.row c k f)) : Q k f := by
  cases op <;> simp only [Op.shape, Option.some.injEq, reduceCtorEq] at h
  case add => cases h; exact hQ.add ..
  case set => cases h; exact hQ.set ..
  case wcas => cases h; exact hQ.wcas ..
  case remove => cases h; exact hQ.remove ..
  case delete => cases h; exact hQ.remove ..
  case touch => cases h; exact hQ.touch ..
  case incr => cases h; exact hQ.incr ..
  case delx => cases h; exact hQ.delx ..
  case dsp => cases h; exact hQ.dsp ..
  case setx => exact (wwxShape_family hQ _ _ _ _ _ _ _ _ _ _ _ h).2
  case rmx => exact (wwxShape_family hQ _ _ _ _ _ _ _ _ _ _ _ h).2
  case uxdb => exact (wwxShape_family hQ _ _ _ _ _ _ _ _ _ _ _ h).2
  case updx =>
    unfold shapeUpdateXattrs at h
    split at h
    · cases h
    · exact (wwxShape_family hQ _ _ _ _ _ _ _ _ _ _ _ h).2
  case wwx =>
    unfold shapeWriteWithXattrs at h
    split at h; · cases h
    split at h; · cases h
    split at h; · cases h
    split at h
    · cases h
    · exact (wwxShape_family hQ _ _ _ _ _ _ _ _ _ _ _ h).2
  case wtx =>
    unfold shapeWriteTombstoneWithXattrs at h
    split at h; · cases h
    split at h; · cases h
    split at h; · cases h
    split at h
    · cases h
    · exact (wwxShape_family hQ _ _ _ _ _ _ _ _ _ _ _ h).2
  case wrx =>
    unfold shapeWriteResurrectionWithXattrs at h
    split at h
    · cases h
    · split at h
      · cases h
      · exact (wwxShape_family hQ _ _ _ _ _ _ _ _ _ _ _ h).2

/-- The outcome of any single-row entry point, in terms of its row function. -/
theorem step_outcome (s : State) (op : Op) (c k : String) (f : RowFn) (h : op.shape = some (.row c k f)) :
    ∃ out, (step s op).2 = .out out ∧ RowOutcome f s c k (step s op).1 out := by
  obtain ⟨hrows, hout, _⟩ := step_shape s op _ h
  refine ⟨_, hout, ?_⟩
  simp only [runShape] at hrows ⊢
  cases withNewCas_liftRow_outcome s c k f with
  | noColl hc hr herr => exact .noColl hc (fun c' k' => by rw [hrows, hr]) herr
  | failed hf hr => exact .failed hf (fun c' k' => by rw [hrows, hr])
  | unchanged ev hf hr => exact .unchanged ev hf (fun c' k' => by rw [hrows, hr])
  | wrote r' ev hf hr ho => exact .wrote r' ev hf (by rw [hrows, hr]) (fun c' k' hne => by rw [hrows, ho c' k' hne])

end Rosmar
