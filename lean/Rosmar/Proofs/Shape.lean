/-
  Every single-row entry point is `runShape s op.shape`: rejected by its argument checks, or exactly one
  `withNewCas s c (liftRow k f)` transaction. Lets the property theorems quantify over all of them at once.
-/
import Rosmar.Proofs.RowSpecs
import Rosmar.Proofs.Invariant
namespace Rosmar

theorem armOnSuccess_coll? (r : State × Out) (exp : Nat) (c : String) : (armOnSuccess r exp).1.coll? c = r.1.coll? c := by
  unfold armOnSuccess; split <;> rfl

theorem armOnSuccess_row? (r : State × Out) (exp : Nat) (c k : String) : (armOnSuccess r exp).1.row? c k = r.1.row? c k := by
  unfold armOnSuccess; split <;> rfl

theorem armOnSuccess_snd (r : State × Out) (exp : Nat) : (armOnSuccess r exp).2 = r.2 := by
  unfold armOnSuccess; split <;> rfl

/-- A single-row call is `runShape` of its shape (for `touch`, up to arming the expiry timer). -/
theorem step_shape (s : State) (op : Op) (sh : OpShape) (h : op.shape = some sh) :
    (∀ c' k', (step s op).1.row? c' k' = (runShape s sh).1.row? c' k') ∧
    (step s op).2 = .out (runShape s sh).2 ∧
    (∀ c', (step s op).1.coll? c' = (runShape s sh).1.coll? c') := by
  cases op <;> simp only [Op.shape, Option.some.injEq, reduceCtorEq] at h <;> subst h
  case touch c k exp =>
    simp only [step, opTouch, touchFn, runShape]
    exact ⟨fun _ _ => armOnSuccess_row? .., by rw [armOnSuccess_snd], fun _ => armOnSuccess_coll? ..⟩
  all_goals exact ⟨fun _ _ => rfl, rfl, fun _ => rfl⟩

/-- A rejected call returns its error and leaves the whole state alone. -/
theorem step_rejected (s : State) (op : Op) (e : Err) (h : op.shape = some (.rejected e)) : step s op = (s, .out { err := e }) := by
  cases op <;> simp only [Op.shape, Option.some.injEq, reduceCtorEq] at h
  all_goals first
    | cases h
    | (simp only [step, opSetXattrs, opRemoveXattrs, opUpdateXattrs, opWriteWithXattrs, opWriteTombstoneWithXattrs,
        opWriteResurrectionWithXattrs, opUpdateXattrDeleteBody, h, runShape])

end Rosmar
