/-
  Facts that hold of every row function of every single-row entry point (as `Family` instances).
-/
import Rosmar.Proofs.Insert
namespace Rosmar

/-- The event posted (if any) is the faithful description of the stored row. -/
def EvFaithful (k : String) (f : RowFn) : Prop :=
  ∀ nc now old r' ev o, f nc now old = .inr (some r', ev, o) → ∀ e, ev = some e → e = eventOf k r'

/-- A write that gives the document a new CAS (the one just drawn) posts an event; the only write that does not
    give a new CAS (a touch) posts none. Nothing is posted when nothing is stored. -/
def OneEventPerNewCas (_k : String) (f : RowFn) : Prop :=
  (∀ nc now old r' ev o, f nc now old = .inr (some r', ev, o) →
    (r'.cas = nc ∧ ev.isSome) ∨ (r'.cas = casOf old ∧ ev = none)) ∧
  (∀ nc now old ev o, f nc now old = .inr (none, ev, o) → ev = none)

/-- A call that stores a row reports success. -/
def OkOnWrite (_k : String) (f : RowFn) : Prop :=
  ∀ nc now old r' ev o, f nc now old = .inr (some r', ev, o) → o.err = .ok

theorem evFaithful_family : Family EvFaithful where
  add k exp v j := fun nc now old r' ev o h => (addRow_faithful k exp v j nc now old r' ev o h).2.2
  set k exp pe v j := fun nc now old r' ev o h => (setRow_faithful k exp pe v j nc now old r' ev o h).2.2
  incr k a d e := fun nc now old r' ev o h => (incrRow_faithful k a d e nc now old r' ev o h).2.2
  wcas k e c v o := fun nc now old r' ev out h => (wcasRow_faithful k e c v o nc now old r' ev out h).2.2
  remove k ic := fun nc now old r' ev o h => (removeRow_faithful k ic nc now old r' ev o h).2.2
  touch k exp := fun nc now old r' ev o h e he => by
    obtain ⟨r, _, _, _, _, _, _, h7, _⟩ := touchRow_spec exp nc now old r' ev o h
    rw [h7] at he; cases he
  wwx k val ed ic ex o m := fun nc now old r' ev out h => (wwxRow_faithful k val ed ic ex o m nc now old r' ev out h).2.2
  delx k n := fun nc now old r' ev o h => (delxRow_faithful k n nc now old r' ev o h).2.2
  dsp k n := fun nc now old r' ev o h => (dspRow_faithful k n nc now old r' ev o h).2.2

theorem noneStored_quiet (k : String) :
    (∀ exp pe v j nc now old ev o, setRow k exp pe v j nc now old ≠ .inr (none, ev, o)) ∧
    (∀ a d e nc now old ev o, incrRow k a d e nc now old ≠ .inr (none, ev, o)) ∧
    (∀ e c v o nc now old ev out, wcasRow k e c v o nc now old ≠ .inr (none, ev, out)) ∧
    (∀ ic nc now old ev o, removeRow k ic nc now old ≠ .inr (none, ev, o)) ∧
    (∀ exp nc now old ev o, touchRow exp nc now old ≠ .inr (none, ev, o)) ∧
    (∀ val ed ic ex o m nc now old ev out, wwxRow k val ed ic ex o m nc now old ≠ .inr (none, ev, out)) ∧
    (∀ n nc now old ev o, delxRow k n nc now old ≠ .inr (none, ev, o)) ∧
    (∀ n nc now old ev o, dspRow k n nc now old ≠ .inr (none, ev, o)) := by
  refine ⟨?_, ?_, ?_, ?_, ?_, ?_, ?_, ?_⟩
  · intro exp pe v j nc now old ev o h; unfold setRow at h; simp only at h; cases h
  · intro a d e nc now old ev o h; unfold incrRow at h; simp only at h; split at h <;> cases h
  · intro e c v o nc now old ev out h
    unfold wcasRow at h
    split at h
    · cases h
    · simp only at h
      split at h
      · split at h
        · cases h
        · split at h
          · cases h
          · split at h <;> cases h
      · cases h
  · intro ic nc now old ev o h; unfold removeRow at h
    split at h
    · cases h
    · split at h <;> cases h
  · intro exp nc now old ev o h; unfold touchRow at h; simp only at h
    split at h
    · cases h
    · split at h <;> cases h
  · intro val ed ic ex o m nc now old ev out h
    unfold wwxRow at h; simp only at h
    split at h
    · cases h
    · split at h
      · cases h
      · split at h
        · cases h
        · split at h <;> cases h
  · intro n nc now old ev o h; unfold delxRow at h
    split at h
    · cases h
    · split at h <;> cases h
  · intro n nc now old ev o h; unfold dspRow at h
    split at h
    · cases h
    · split at h <;> cases h

theorem oneEventPerNewCas_family : Family OneEventPerNewCas where
  add k exp v j := ⟨fun nc now old r' ev o h =>
      Or.inl ⟨(addRow_faithful k exp v j nc now old r' ev o h).2.1, addRow_posts k exp v j nc now old r' ev o h⟩,
    addRow_quiet k exp v j⟩
  set k exp pe v j := ⟨fun nc now old r' ev o h =>
      Or.inl ⟨(setRow_faithful k exp pe v j nc now old r' ev o h).2.1, setRow_posts k exp pe v j nc now old r' ev o h⟩,
    fun nc now old ev o h => by exact absurd h (by apply (noneStored_quiet k).1)⟩
  incr k a d e := ⟨fun nc now old r' ev o h =>
      Or.inl ⟨(incrRow_faithful k a d e nc now old r' ev o h).2.1, incrRow_posts k a d e nc now old r' ev o h⟩,
    fun nc now old ev o h => by exact absurd h (by apply (noneStored_quiet k).2.1)⟩
  wcas k e c v o := ⟨fun nc now old r' ev out h =>
      Or.inl ⟨(wcasRow_faithful k e c v o nc now old r' ev out h).2.1, wcasRow_posts k e c v o nc now old r' ev out h⟩,
    fun nc now old ev out h => by exact absurd h (by apply (noneStored_quiet k).2.2.1)⟩
  remove k ic := ⟨fun nc now old r' ev o h =>
      Or.inl ⟨(removeRow_faithful k ic nc now old r' ev o h).2.1, removeRow_posts k ic nc now old r' ev o h⟩,
    fun nc now old ev o h => by exact absurd h (by apply (noneStored_quiet k).2.2.2.1)⟩
  touch k exp := ⟨fun nc now old r' ev o h => by
      obtain ⟨r, rfl, _, h3, _, _, _, h7, _⟩ := touchRow_spec exp nc now old r' ev o h
      exact Or.inr ⟨by simpa [casOf] using h3, h7⟩,
    fun nc now old ev o h => by exact absurd h (by apply (noneStored_quiet k).2.2.2.2.1)⟩
  wwx k val ed ic ex o m := ⟨fun nc now old r' ev out h =>
      Or.inl ⟨(wwxRow_faithful k val ed ic ex o m nc now old r' ev out h).2.1, wwxRow_posts k val ed ic ex o m nc now old r' ev out h⟩,
    fun nc now old ev out h => by exact absurd h (by apply (noneStored_quiet k).2.2.2.2.2.1)⟩
  delx k n := ⟨fun nc now old r' ev o h =>
      Or.inl ⟨(delxRow_faithful k n nc now old r' ev o h).2.1, delxRow_posts k n nc now old r' ev o h⟩,
    fun nc now old ev o h => by exact absurd h (by apply (noneStored_quiet k).2.2.2.2.2.2.1)⟩
  dsp k n := ⟨fun nc now old r' ev o h =>
      Or.inl ⟨(dspRow_faithful k n nc now old r' ev o h).2.1, dspRow_posts k n nc now old r' ev o h⟩,
    fun nc now old ev o h => by exact absurd h (by apply (noneStored_quiet k).2.2.2.2.2.2.2)⟩

theorem okOnWrite_family : Family OkOnWrite where
  add k exp v j := fun nc now old r' ev o h => by
    unfold addRow at h
    split at h
    · cases h; rfl
    · split at h
      · cases h; rfl
      · cases h
  set k exp pe v j := fun nc now old r' ev o h => by unfold setRow at h; simp only at h; cases h; rfl
  incr k a d e := fun nc now old r' ev o h => by
    unfold incrRow at h; simp only at h
    split at h
    · cases h
    · cases h; rfl
  wcas k e c v o := fun nc now old r' ev out h => by
    unfold wcasRow at h
    split at h
    · cases h
    · simp only at h
      split at h
      · split at h
        · cases h
        · split at h
          · cases h
          · split at h <;> cases h
      · cases h; rfl
  remove k ic := fun nc now old r' ev o h => by
    unfold removeRow at h
    split at h
    · cases h
    · split at h
      · cases h
      · cases h; rfl
  touch k exp := fun nc now old r' ev o h => by
    unfold touchRow at h; simp only at h
    split at h
    · cases h
    · split at h
      · cases h
      · cases h; rfl
  wwx k val ed ic ex o m := fun nc now old r' ev out h => by
    unfold wwxRow at h; simp only at h
    split at h
    · cases h
    · split at h
      · cases h
      · split at h
        · cases h
        · split at h
          · cases h
          · cases h; rfl
  delx k n := fun nc now old r' ev o h => by
    unfold delxRow at h
    split at h
    · cases h
    · split at h
      · cases h
      · cases h; rfl
  dsp k n := fun nc now old r' ev o h => by
    unfold dspRow at h
    split at h
    · cases h
    · split at h
      · cases h
      · cases h; rfl

end Rosmar
