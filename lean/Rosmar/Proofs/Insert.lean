/-
  Row-level facts about insert-style and CAS-conditional writes (C02, C06) and about what a failed call leaves behind (C01).
-/
import Rosmar.Proofs.Shape
import Rosmar.Proofs.Coherence
namespace Rosmar

/-- The key has no body: no row at all, or a row without a value. -/
def NoBody (old : Option Row) : Prop := ∀ r, old = some r → r.value = none

/-- The document's current CAS, 0 standing for "no such document". -/
def casOf : Option Row → Nat
  | some r => r.cas
  | none => 0

def OldCoh (old : Option Row) : Prop := ∀ r, old = some r → RowCoh r

/-! ### Add -/

theorem addRow_succeeds_iff (k : String) (exp : Nat) (v : String) (j : Bool) (nc now : Nat) (old : Option Row) (hc : OldCoh old) :
    (∃ r' ev o, addRow k exp v j nc now old = .inr (some r', ev, o)) ↔ NoBody old := by
  unfold addRow
  cases old with
  | none => simp [NoBody]
  | some r =>
    have := hc r rfl
    unfold RowCoh at this
    by_cases ht : r.tomb = true
    · simp [ht, NoBody, this.mp ht]
    · simp [ht, NoBody]
      intro hv; exact ht (this.mpr hv)

theorem addRow_refusal (k : String) (exp : Nat) (v : String) (j : Bool) (nc now : Nat) (old : Option Row) :
    (∃ r' ev o, addRow k exp v j nc now old = .inr (some r', ev, o) ∧ o.added = true) ∨
    addRow k exp v j nc now old = .inr (none, none, { added := false }) := by
  unfold addRow
  cases old with
  | none => left; exact ⟨_, _, _, rfl, rfl⟩
  | some r =>
    by_cases ht : r.tomb = true
    · left; simp only [ht, if_true]; exact ⟨_, _, _, rfl, rfl⟩
    · right; simp [ht]

/-! ### WriteCas -/

/-- Insert-style `WriteCas` (CAS 0, or `AddOnly` on an existing row; not `Append`): succeeds iff the key has no body. -/
theorem wcasRow_insert_iff (k : String) (exp cas : Nat) (v : Option String) (o : WOpts) (nc now : Nat) (old : Option Row)
    (hc : OldCoh old) (happ : o.append = false) (hins : cas = 0 ∨ (o.addOnly = true ∧ old ≠ none)) :
    (∃ r' ev out, wcasRow k exp cas v o nc now old = .inr (some r', ev, out)) ↔ NoBody old := by
  unfold wcasRow
  cases old with
  | none =>
    rcases hins with rfl | ⟨_, h⟩
    · simp [NoBody, happ]
    · exact absurd rfl h
  | some r =>
    have hco := hc r rfl
    unfold RowCoh at hco
    have hb : (o.addOnly = true ∨ cas = 0) := by rcases hins with h | ⟨h, _⟩; exact Or.inr h; exact Or.inl h
    by_cases ht : r.tomb = true
    · have hv := hco.mp ht
      cases cas with
      | zero => simp [happ, ht, NoBody, hv]
      | succ n =>
        have ha : o.addOnly = true := by rcases hins with h | ⟨h, _⟩; cases h; exact h
        simp [happ, ha, ht, NoBody, hv]
    · have hv : r.value ≠ none := fun h => ht (hco.mpr h)
      cases hv' : r.value with
      | none => exact absurd hv' hv
      | some b =>
        cases cas with
        | zero => simp [happ, ht, NoBody, hv']; split <;> simp
        | succ n =>
          have ha : o.addOnly = true := by rcases hins with h | ⟨h, _⟩; cases h; exact h
          simp [happ, ha, ht, NoBody, hv']

/-- CAS-conditional `WriteCas` (a non-zero CAS without `AddOnly`): it is applied only to the version it names. -/
theorem wcasRow_conditional (k : String) (exp cas : Nat) (v : Option String) (o : WOpts) (nc now : Nat) (old : Option Row)
    (hcas : cas ≠ 0) (hadd : o.addOnly = false) (r' : Row) (ev : Option Event) (out : Out)
    (h : wcasRow k exp cas v o nc now old = .inr (some r', ev, out)) : casOf old = cas := by
  unfold wcasRow at h
  cases old with
  | none =>
    cases cas with
    | zero => exact absurd rfl hcas
    | succ n => simp at h
  | some r =>
    cases cas with
    | zero => exact absurd rfl hcas
    | succ n =>
      simp only [hadd] at h
      by_cases hr : r.cas = n + 1
      · simpa [casOf] using hr
      · exfalso
        cases happ : o.append <;> cases hv : r.value <;> simp [happ, hv, hr] at h <;> (try split at h) <;> simp at h

/-! ### Remove -/

theorem removeRow_conditional (k : String) (cas : Nat) (nc now : Nat) (old : Option Row) (r' : Row) (ev : Option Event) (out : Out)
    (h : removeRow k (some cas) nc now old = .inr (some r', ev, out)) : ∃ r, old = some r ∧ r.cas = cas := by
  unfold removeRow at h
  split at h
  · cases h
  · rename_i r
    split at h
    · cases h
    · rename_i hne
      refine ⟨r, rfl, ?_⟩
      simp at hne
      exact hne.symm

/-! ### writeWithXattrs -/

/-- A supplied CAS is honoured: the call is applied only when it equals the current CAS (0 = no such document). -/
theorem wwxRow_conditional (k : String) (val : ValArg) (edits : List XEdit) (cas : Nat) (exp : Option Nat) (o : XOpts) (m : Macros)
    (nc now : Nat) (old : Option Row) (r' : Row) (ev : Option Event) (out : Out)
    (h : wwxRow k val edits (some cas) exp o m nc now old = .inr (some r', ev, out)) : casOf old = cas := by
  unfold wwxRow at h
  simp only at h
  split at h
  · cases h
  · rename_i value0 isJSON0 prevCas exp0 xattrs0 rev0 hpre
    split at h
    · cases h
    · split at h
      · cases h
      · rename_i hmis
        simp [ifCasMismatch] at hmis
        -- prevCas is the old row's CAS
        have : prevCas = casOf old := by
          cases old with
          | none =>
            simp only at hpre
            split at hpre
            · cases hpre
            · split at hpre
              · cases hpre
              · cases hpre; rfl
          | some r =>
            simp only at hpre
            split at hpre
            · split at hpre
              · cases hpre
              · cases hpre; rfl
            · split at hpre
              · cases hpre
              · cases hpre; rfl
        rw [← this]; exact hmis.symm

/-- `WriteResurrectionWithXattrs` (insertDoc): it only ever writes over a key without a body. -/
theorem wwxRow_insertDoc (k : String) (b : String) (edits : List XEdit) (exp : Option Nat) (m : Macros)
    (nc now : Nat) (old : Option Row) (hc : OldCoh old) (r' : Row) (ev : Option Event) (out : Out)
    (h : wwxRow k (.body b) edits none exp { insertDoc := true } m nc now old = .inr (some r', ev, out)) : NoBody old := by
  unfold wwxRow at h
  simp only at h
  cases old with
  | none => intro r hr; cases hr
  | some r =>
    have hco := hc r rfl
    unfold RowCoh at hco
    by_cases ht : r.tomb = true
    · intro r0 hr0; cases hr0; exact hco.mp ht
    · simp [ht, ValArg.isBody] at h

/-- ... and on such a key it is never refused for existing: the only failures left are those of the xattr edits
    themselves (bad JSON, macro paths), and they are reported as such. -/
theorem wwxRow_insertDoc_not_refused (k : String) (b : String) (edits : List XEdit) (exp : Option Nat) (m : Macros)
    (nc now : Nat) (old : Option Row) (hc : OldCoh old) (hnb : NoBody old) (out : Out)
    (h : wwxRow k (.body b) edits none exp { insertDoc := true } m nc now old = .inl out) :
    ∃ e, applyEdits [] edits m nc (some b) = .inl e ∧ out = { err := e } := by
  unfold wwxRow at h
  simp only at h
  cases old with
  | none =>
    simp [ifCasNonzero, ifCasMismatch] at h
    split at h
    · rename_i e he; cases h; exact ⟨e, he, rfl⟩
    · cases h
  | some r =>
    have hco := hc r rfl
    unfold RowCoh at hco
    have ht : r.tomb = true := hco.mpr (hnb r rfl)
    simp [ht, ValArg.isBody, ifCasNonzero, ifCasMismatch] at h
    split at h
    · rename_i e he; cases h; exact ⟨e, he, rfl⟩
    · cases h

/-- `WriteWithXattrs` with CAS 0 succeeds only if the key does not exist at all — under the precondition the
    regular API maintains that every stored CAS is non-zero. -/
theorem wwxRow_cas0_only_if_absent (k : String) (val : ValArg) (edits : List XEdit) (exp : Option Nat) (o : XOpts) (m : Macros)
    (nc now : Nat) (old : Option Row) (hpos : ∀ r, old = some r → r.cas ≠ 0) (r' : Row) (ev : Option Event) (out : Out)
    (h : wwxRow k val edits (some 0) exp o m nc now old = .inr (some r', ev, out)) : old = none := by
  have := wwxRow_conditional k val edits 0 exp o m nc now old r' ev out h
  cases old with
  | none => rfl
  | some r => exact absurd this (hpos r rfl)

/-! ### WithMeta -/

theorem wmetaRow_conditional (k : String) (oldCas newCas exp : Nat) (xs : Xattrs) (body : Option String) (j d : Bool)
    (nc now : Nat) (old : Option Row) (r' : Row) (ev : Option Event) (out : Out)
    (h : wmetaRow k oldCas newCas exp xs body j d nc now old = .inr (some r', ev, out)) : casOf old = oldCas := by
  unfold wmetaRow at h
  by_cases hne : oldCas = casOf old
  · exact hne.symm
  · exfalso
    cases old with
    | none => simp [casOf] at hne; simp [hne] at h
    | some r => simp [casOf] at hne; simp [hne] at h

end Rosmar
