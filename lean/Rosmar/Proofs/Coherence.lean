/-
  Tombstone coherence (C05): every write entry point stores `tombstone = 1` exactly when it stores no body.
-/
import Rosmar.Proofs.Lemmas
namespace Rosmar

/-- The flag and the body agree. -/
def RowCoh (r : Row) : Prop := r.tomb = true ↔ r.value = none

theorem addRow_coh (k : String) (exp : Nat) (v : String) (j : Bool) : (addRow k exp v j).Establishes RowCoh := by
  intro nc now old r' ev o _ h n
  unfold addRow at h
  split at h
  · cases h; simp [RowCoh]
  · split at h
    · cases h; simp [RowCoh]
    · cases h

theorem setCore_coh (old : Option Row) (exp : Nat) (pe : Bool) (v : String) (j : Bool) (nc : Nat) :
    RowCoh (setCore old exp pe v j nc).1 := by
  unfold setCore; split <;> simp [RowCoh]

theorem setRow_coh (k : String) (exp : Nat) (pe : Bool) (v : String) (j : Bool) : (setRow k exp pe v j).Establishes RowCoh := by
  intro nc now old r' ev o _ h n
  unfold setRow at h
  simp only at h
  cases h
  have := setCore_coh old (absExp now exp) pe v j nc
  simpa [RowCoh] using this

theorem incrRow_coh (k : String) (amt d exp : Nat) : (incrRow k amt d exp).Establishes RowCoh := by
  intro nc now old r' ev o _ h n
  unfold incrRow at h
  simp only at h
  split at h
  · cases h
  · cases h
    have := setCore_coh old (absExp now exp) false
    simpa [RowCoh] using this _ true nc

theorem wcasRow_coh (k : String) (exp cas : Nat) (v : Option String) (o : WOpts) : (wcasRow k exp cas v o).Establishes RowCoh := by
  intro nc now old r' ev out _ h n
  unfold wcasRow at h
  split at h
  · cases h
  · simp only at h
    split at h
    · split at h
      · cases h
      · split at h
        · cases h
        · split at h <;> cases h
    · rename_i r'' hw
      cases h
      -- every branch stores `tomb := v.isNone` together with a value that is none exactly when `v` is
      split at hw
      · split at hw
        · split at hw
          · split at hw
            · cases hw; cases v <;> simp [RowCoh]
            · cases hw
          · cases hw
        · cases hw
      · split at hw
        · split at hw
          · cases hw; cases v <;> simp [RowCoh]
          · split at hw
            · cases hw; cases v <;> simp [RowCoh]
            · cases hw
        · split at hw
          · split at hw
            · cases hw; cases v <;> simp [RowCoh]
            · cases hw
          · cases hw

theorem removeRow_coh (k : String) (ifCas : Option Nat) : (removeRow k ifCas).Establishes RowCoh := by
  intro nc now old r' ev o _ h n
  unfold removeRow at h
  split at h
  · cases h
  · split at h
    · cases h
    · cases h; simp [RowCoh]

theorem touchRow_coh (exp : Nat) : (touchRow exp).Establishes RowCoh := by
  intro nc now old r' ev o hold h n
  unfold touchRow at h
  simp only at h
  split at h
  · cases h
  · rename_i r
    split at h
    · cases h
    · cases h
      have := hold r rfl
      simpa [RowCoh] using this

theorem wwxRow_coh (k : String) (val : ValArg) (edits : List XEdit) (ifCas : Option Nat) (exp : Option Nat) (o : XOpts)
    (m : List (String × MacroKind)) : (wwxRow k val edits ifCas exp o m).Establishes RowCoh := by
  intro nc now old r' ev out _ h n
  unfold wwxRow at h
  simp only at h
  split at h
  · cases h
  · split at h
    · cases h
    · split at h
      · cases h
      · split at h
        · cases h
        · cases h
          simp [RowCoh]

theorem delxRow_coh (k : String) (names : List String) : (delxRow k names).Establishes RowCoh := by
  intro nc now old r' ev o _ h n
  unfold delxRow at h
  split at h
  · cases h
  · split at h
    · cases h
    · cases h; simp [RowCoh]

theorem dspRow_coh (k : String) (names : List String) : (dspRow k names).Establishes RowCoh := by
  intro nc now old r' ev o hold h n
  unfold dspRow at h
  split at h
  · cases h
  · rename_i r
    split at h
    · cases h
    · cases h
      have := hold r rfl
      simpa [RowCoh] using this

/-- `SetWithMeta` / `DeleteWithMeta` store what the caller says: coherent exactly when the call is well-formed. -/
theorem wmetaRow_coh (k : String) (oldCas newCas exp : Nat) (xs : Xattrs) (body : Option String) (j d : Bool)
    (hwf : d = body.isNone) : (wmetaRow k oldCas newCas exp xs body j d).Establishes RowCoh := by
  intro nc now old r' ev o _ h n
  unfold wmetaRow at h
  simp only at h
  split at h <;> split at h <;> first
    | (cases h; done)
    | (cases h; subst hwf; cases body <;> simp [RowCoh])

end Rosmar

namespace Rosmar

/-! ### Lifting to the API calls, `step` and `run` -/

/-- Well-formed calls: a WithMeta write says "deletion" exactly when it carries no body. -/
def Op.WF : Op → Prop
  | .wmeta _ _ _ _ _ _ body _ d => d = body.isNone
  | _ => True

section
variable {P : Row → Prop}

theorem opWithNewCas_row (s : State) (c k : String) (f : RowFn) (hf : f.Establishes P) (hs : StateAll P s) :
    StateAll P (withNewCas s c (liftRow k f)).1 :=
  withNewCas_stateAll (liftRow_preserves hf k) s c hs

end

theorem writeWithXattrs_coh (s : State) (c k : String) (val : ValArg) (edits : List XEdit) (ifCas exp : Option Nat) (o : XOpts)
    (m : List (String × MacroKind)) (hs : StateAll RowCoh s) : StateAll RowCoh (writeWithXattrs s c k val edits ifCas exp o m).1 := by
  unfold writeWithXattrs
  split
  · exact hs
  · exact opWithNewCas_row s c k _ (wwxRow_coh k val edits ifCas exp o m) hs

theorem opWriteWithXattrs_coh (s : State) (c k : String) (exp cas : Nat) (v : Option String) (sets : Sets) (dels : Option (List String))
    (pe : Bool) (m : Macros) (hs : StateAll RowCoh s) : StateAll RowCoh (opWriteWithXattrs s c k exp cas v sets dels pe m).1 := by
  unfold opWriteWithXattrs
  split; · exact hs
  split; · exact hs
  split; · exact hs
  split
  · exact hs
  · exact writeWithXattrs_coh _ _ _ _ _ _ _ _ _ hs

theorem opWriteTombstoneWithXattrs_coh (s : State) (c k : String) (exp cas : Nat) (sets : Sets) (dels : Option (List String))
    (db : Bool) (m : Macros) (hs : StateAll RowCoh s) : StateAll RowCoh (opWriteTombstoneWithXattrs s c k exp cas sets dels db m).1 := by
  unfold opWriteTombstoneWithXattrs
  split; · exact hs
  split; · exact hs
  split; · exact hs
  split
  · exact hs
  · exact writeWithXattrs_coh _ _ _ _ _ _ _ _ _ hs

theorem opWriteResurrectionWithXattrs_coh (s : State) (c k : String) (exp : Nat) (v : Option String) (sets : Sets)
    (pe : Bool) (m : Macros) (hs : StateAll RowCoh s) : StateAll RowCoh (opWriteResurrectionWithXattrs s c k exp v sets pe m).1 := by
  unfold opWriteResurrectionWithXattrs
  split
  · exact hs
  · split
    · exact hs
    · exact writeWithXattrs_coh _ _ _ _ _ _ _ _ _ hs

theorem opUpdate_coh (fuel : Nat) : ∀ (s : State) (c k : String) (exp : Nat) (steps : List UpdStep) (calls : Nat) (seen : List String),
    StateAll RowCoh s → StateAll RowCoh (opUpdate fuel s c k exp steps calls seen).1 := by
  induction fuel with
  | zero => intro s c k exp steps calls seen hs; simpa [opUpdate] using hs
  | succ n ih =>
    intro s c k exp steps calls seen hs
    have hw : ∀ (v : Option String) (e cas : Nat), StateAll RowCoh (opWriteCas s c k e cas v {}).1 :=
      fun v e cas => opWithNewCas_row s c k _ (wcasRow_coh k e cas v {}) hs
    unfold opUpdate
    simp only
    repeat' (first
      | exact hs
      | exact hw _ _ _
      | (apply ih; first | exact hs | exact hw _ _ _)
      | split)

theorem opWuwx_coh (fuel : Nat) : ∀ (s : State) (c k : String) (names : List String) (steps : List WuStep) (sets : Sets)
    (dels : Option (List String)) (m : Macros) (cbExp : Option Nat) (pe : Bool) (am : Macros) (calls : Nat) (seen : List String),
    StateAll RowCoh s → StateAll RowCoh (opWuwx fuel s c k names steps sets dels m cbExp pe am calls seen).1 := by
  induction fuel with
  | zero => intro s c k names steps sets dels m cbExp pe am calls seen hs; simpa [opWuwx] using hs
  | succ n ih =>
    intro s c k names steps sets dels m cbExp pe am calls seen hs
    unfold opWuwx
    simp only
    repeat' (first
      | exact hs
      | exact opWriteTombstoneWithXattrs_coh _ _ _ _ _ _ _ _ _ hs
      | exact opWriteResurrectionWithXattrs_coh _ _ _ _ _ _ _ _ hs
      | exact opWriteWithXattrs_coh _ _ _ _ _ _ _ _ _ _ hs
      | (apply ih; first
          | exact hs
          | exact opWriteTombstoneWithXattrs_coh _ _ _ _ _ _ _ _ _ hs
          | exact opWriteResurrectionWithXattrs_coh _ _ _ _ _ _ _ _ hs
          | exact opWriteWithXattrs_coh _ _ _ _ _ _ _ _ _ _ hs)
      | split)

theorem opDelete_coh (s : State) (c k : String) (hs : StateAll RowCoh s) : StateAll RowCoh (opDelete s c k).1 :=
  opWithNewCas_row s c k _ (removeRow_coh k none) hs

theorem opFireExpiry_coh (s : State) (hs : StateAll RowCoh s) : StateAll RowCoh (opFireExpiry s) := by
  unfold opFireExpiry
  simp only
  have h0 : StateAll RowCoh ({ s with expNext := 0 } : State) := StateAll.of_colls_eq rfl hs
  have hkeys : ∀ (keys : List String) (c : String) (st : State), StateAll RowCoh st →
      StateAll RowCoh (keys.foldl (fun st' k => (opDelete st' c k).1) st) := by
    intro keys c
    induction keys with
    | nil => intro st h; exact h
    | cons k tl ih => intro st h; exact ih _ (opDelete_coh st c k h)
  have hcolls : ∀ (l : List (String × Coll)) (st : State), StateAll RowCoh st →
      StateAll RowCoh (l.foldl (fun st p =>
        match st.coll? p.1 with
        | none => st
        | some x => (dueKeys x.docs st.now).foldl (fun st' k => (opDelete st' p.1 k).1) st) st) := by
    intro l
    induction l with
    | nil => intro st h; exact h
    | cons p tl ih =>
      intro st h
      apply ih
      show StateAll RowCoh (match st.coll? p.1 with
        | none => st
        | some x => (dueKeys x.docs st.now).foldl (fun st' k => (opDelete st' p.1 k).1) st)
      split
      · exact h
      · exact hkeys _ _ _ h
  have h1 := hcolls (({ s with expNext := 0 } : State).colls.foldr insertCollById []) _ h0
  split
  · exact StateAll.of_colls_eq rfl h1
  · exact h1

theorem opPurge_coh (s : State) (hs : StateAll RowCoh s) : StateAll RowCoh (opPurge s).1 := by
  intro p hp
  unfold opPurge at hp
  simp only [List.mem_map] at hp
  obtain ⟨q, hq, rfl⟩ := hp
  exact (hs q hq).filter _

theorem opWriteWithMeta_coh (s : State) (c k : String) (old new exp : Nat) (xs : Xattrs) (body : Option String) (j d : Bool)
    (hwf : d = body.isNone) (hs : StateAll RowCoh s) : StateAll RowCoh (opWriteWithMeta s c k old new exp xs body j d).1 := by
  unfold opWriteWithMeta
  split
  · exact hs
  · rename_i x hx
    split
    · exact hs
    · rename_i docs' nid ev out hfn
      have hd' : DocsAll RowCoh docs' :=
        liftRow_preserves (wmetaRow_coh k old new exp xs body j d hwf) k _ _ _ _ _ _ _ _ (hs.coll c x hx) hfn
      have h2 : StateAll RowCoh (({ s with nextRowId := nid } : State).setColl c { x with docs := docs' }) :=
        StateAll.setColl (StateAll.of_colls_eq rfl hs) c _ hd'
      split
      · exact StateAll.of_colls_eq rfl h2
      · exact h2

theorem opTouch_coh (s : State) (c k : String) (exp : Nat) (hs : StateAll RowCoh s) : StateAll RowCoh (opTouch s c k exp).1 := by
  unfold opTouch
  have h : StateAll RowCoh (withNewCas s c (touchFn k exp)).1 := opWithNewCas_row s c k _ (touchRow_coh exp) hs
  simp only
  split
  · exact StateAll.of_colls_eq rfl h
  · exact h

/-- One step preserves tombstone coherence. -/
theorem step_coh (s : State) (op : Op) (hwf : op.WF) (hs : StateAll RowCoh s) : StateAll RowCoh (step s op).1 := by
  cases op with
  | clock t => exact StateAll.of_colls_eq rfl hs
  | now n => exact StateAll.of_colls_eq rfl hs
  | add c k exp v json => exact opWithNewCas_row s c k _ (addRow_coh k exp v _) hs
  | set c k exp pe v raw => exact opWithNewCas_row s c k _ (setRow_coh k exp pe v _) hs
  | wcas c k exp cas v o => exact opWithNewCas_row s c k _ (wcasRow_coh k exp cas v o) hs
  | remove c k cas => exact opWithNewCas_row s c k _ (removeRow_coh k _) hs
  | delete c k => exact opDelete_coh s c k hs
  | touch c k exp => exact opTouch_coh s c k exp hs
  | incr c k amt d exp => exact opWithNewCas_row s c k _ (incrRow_coh k amt d exp) hs
  | setx c k sets => exact writeWithXattrs_coh _ _ _ _ _ _ _ _ _ hs
  | rmx c k names cas => exact writeWithXattrs_coh _ _ _ _ _ _ _ _ _ hs
  | updx c k exp cas sets m =>
    show StateAll RowCoh (opUpdateXattrs s c k exp cas sets m).1
    unfold opUpdateXattrs
    split
    · exact hs
    · exact writeWithXattrs_coh _ _ _ _ _ _ _ _ _ hs
  | wwx c k exp cas v sets dels pe m => exact opWriteWithXattrs_coh _ _ _ _ _ _ _ _ _ _ hs
  | wtx c k exp cas sets dels db m => exact opWriteTombstoneWithXattrs_coh _ _ _ _ _ _ _ _ _ hs
  | wrx c k exp v sets pe m => exact opWriteResurrectionWithXattrs_coh _ _ _ _ _ _ _ _ hs
  | uxdb c k xk exp cas xv m => exact writeWithXattrs_coh _ _ _ _ _ _ _ _ _ hs
  | delx c k names => exact opWithNewCas_row s c k _ (delxRow_coh k names) hs
  | dsp c k names => exact opWithNewCas_row s c k _ (dspRow_coh k names) hs
  | wmeta c k old new exp xs body j d => exact opWriteWithMeta_coh s c k old new exp xs body j d hwf hs
  | purge => exact opPurge_coh s hs
  | update c k exp steps => exact opUpdate_coh _ _ _ _ _ _ _ _ hs
  | wuwx c k names steps sets dels m cbExp pe => exact opWuwx_coh _ _ _ _ _ _ _ _ _ _ _ _ _ _ hs
  | startFeed id c bf dump ko =>
    show StateAll RowCoh (opStartFeed s id c bf dump ko).1
    unfold opStartFeed
    split
    · exact hs
    · exact StateAll.of_colls_eq rfl hs
  | drain id =>
    show StateAll RowCoh (opDrain s id).1
    unfold opDrain
    split
    · exact hs
    · exact StateAll.of_colls_eq rfl hs
  | fire => exact opFireExpiry_coh s hs
  | rb c k names => exact hs
  | lastCas c => exact hs
  | keys c => exact hs
  | expState => exact hs

/-- Every reachable state is coherent: induction over any operation list. -/
theorem run_coh (ops : List Op) : ∀ (s : State), (∀ op ∈ ops, op.WF) → StateAll RowCoh s → StateAll RowCoh (run s ops).1 := by
  induction ops with
  | nil => intro s _ hs; exact hs
  | cons op tl ih =>
    intro s hwf hs
    simp only [run]
    exact ih _ (fun o ho => hwf o (List.mem_cons_of_mem _ ho)) (step_coh s op (hwf op (List.mem_cons_self)) hs)

theorem initState_coh : StateAll RowCoh initState := by
  intro p hp
  simp [initState] at hp
  rcases hp with rfl | rfl | rfl <;> exact DocsAll.nil _

end Rosmar
