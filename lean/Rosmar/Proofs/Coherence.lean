/-
  Tombstone coherence (C05): every write entry point stores `tombstone = 1` exactly when it stores no body.
-/
import Rosmar.Proofs.Invariant
namespace Rosmar

/-- The flag and the body agree. -/
def RowCoh (r : Row) : Prop := r.tomb = true ↔ r.value = none

theorem addRow_coh (k : String) (exp : Nat) (v : String) (j : Bool) : (addRow k exp v j).Establishes RowCoh := by
  intro nc now old r' ev o _ h n
  unfold addRow at h
  split at h
  · cases h; simp [RowCoh]
  · split at h
    · cases h; simp [RowCoh]
    · cases h

theorem setCore_coh (old : Option Row) (exp : Nat) (pe : Bool) (v : String) (j : Bool) (nc : Nat) :
    RowCoh (setCore old exp pe v j nc).1 := by
  unfold setCore; split <;> simp [RowCoh]

theorem setRow_coh (k : String) (exp : Nat) (pe : Bool) (v : String) (j : Bool) : (setRow k exp pe v j).Establishes RowCoh := by
  intro nc now old r' ev o _ h n
  unfold setRow at h
  simp only at h
  cases h
  have := setCore_coh old (absExp now exp) pe v j nc
  simpa [RowCoh] using this

theorem incrRow_coh (k : String) (amt d exp : Nat) : (incrRow k amt d exp).Establishes RowCoh := by
  intro nc now old r' ev o _ h n
  unfold incrRow at h
  simp only at h
  split at h
  · cases h
  · cases h
    have := setCore_coh old (absExp now exp) false
    simpa [RowCoh] using this _ true nc

theorem wcasRow_coh (k : String) (exp cas : Nat) (v : Option String) (o : WOpts) : (wcasRow k exp cas v o).Establishes RowCoh := by
  intro nc now old r' ev out _ h n
  unfold wcasRow at h
  split at h
  · cases h
  · simp only at h
    split at h
    · split at h
      · cases h
      · split at h
        · cases h
        · split at h <;> cases h
    · rename_i r'' hw
      cases h
      -- every branch stores `tomb := v.isNone` together with a value that is none exactly when `v` is
      split at hw
      · split at hw
        · split at hw
          · split at hw
            · cases hw; cases v <;> simp [RowCoh]
            · cases hw
          · cases hw
        · cases hw
      · split at hw
        · split at hw
          · cases hw; cases v <;> simp [RowCoh]
          · split at hw
            · cases hw; cases v <;> simp [RowCoh]
            · cases hw
        · split at hw
          · split at hw
            · cases hw; cases v <;> simp [RowCoh]
            · cases hw
          · cases hw

/-- What `WriteCas` stores besides the body: the flag follows the value, and a tombstone's xattrs are dropped. -/
theorem wcasRow_shape (k : String) (exp cas : Nat) (v : Option String) (o : WOpts) (nc now : Nat) (old : Option Row)
    (r' : Row) (ev : Option Event) (out : Out) (h : wcasRow k exp cas v o nc now old = .inr (some r', ev, out)) :
    r'.tomb = v.isNone ∧ (∀ r, old = some r → r.tomb = true → r'.xattrs = []) ∧
      (∀ r, old = some r → r.tomb = false → r'.xattrs = r.xattrs) := by
  unfold wcasRow at h
  split at h
  · cases h
  · simp only at h
    split at h
    · split at h
      · cases h
      · split at h
        · cases h
        · split at h <;> cases h
    · rename_i r'' hw
      cases h
      split at hw
      · split at hw
        · split at hw
          · split at hw
            · cases hw; exact ⟨rfl, fun r hr ht => (by cases hr; simp [ht]), fun r hr ht => (by cases hr; simp [ht])⟩
            · cases hw
          · cases hw
        · cases hw
      · split at hw
        · split at hw
          · cases hw; exact ⟨rfl, fun r hr _ => (by cases hr), fun r hr _ => (by cases hr)⟩
          · split at hw
            · rename_i htt; cases hw; exact ⟨rfl, fun r hr ht => rfl, fun r hr ht => (by cases hr; simp [ht] at htt)⟩
            · cases hw
        · split at hw
          · split at hw
            · cases hw; exact ⟨rfl, fun r hr ht => (by cases hr; simp [ht]), fun r hr ht => (by cases hr; simp [ht])⟩
            · cases hw
          · cases hw

theorem removeRow_coh (k : String) (ifCas : Option Nat) : (removeRow k ifCas).Establishes RowCoh := by
  intro nc now old r' ev o _ h n
  unfold removeRow at h
  split at h
  · cases h
  · split at h
    · cases h
    · cases h; simp [RowCoh]

theorem touchRow_coh (exp : Nat) : (touchRow exp).Establishes RowCoh := by
  intro nc now old r' ev o hold h n
  unfold touchRow at h
  simp only at h
  split at h
  · cases h
  · rename_i r
    split at h
    · cases h
    · cases h
      have := hold r rfl
      simpa [RowCoh] using this

theorem wwxRow_coh (k : String) (val : ValArg) (edits : List XEdit) (ifCas : Option Nat) (exp : Option Nat) (o : XOpts)
    (m : List (String × MacroKind)) : (wwxRow k val edits ifCas exp o m).Establishes RowCoh := by
  intro nc now old r' ev out _ h n
  unfold wwxRow at h
  simp only at h
  split at h
  · cases h
  · split at h
    · cases h
    · split at h
      · cases h
      · split at h
        · cases h
        · cases h
          simp [RowCoh]

theorem delxRow_coh (k : String) (names : List String) : (delxRow k names).Establishes RowCoh := by
  intro nc now old r' ev o _ h n
  unfold delxRow at h
  split at h
  · cases h
  · split at h
    · cases h
    · cases h; simp [RowCoh]

theorem dspRow_coh (k : String) (names : List String) : (dspRow k names).Establishes RowCoh := by
  intro nc now old r' ev o hold h n
  unfold dspRow at h
  split at h
  · cases h
  · rename_i r
    split at h
    · cases h
    · cases h
      have := hold r rfl
      simpa [RowCoh] using this

/-- `SetWithMeta` / `DeleteWithMeta` store what the caller says: coherent exactly when the call is well-formed. -/
theorem wmetaRow_coh (k : String) (oldCas newCas exp : Nat) (xs : Xattrs) (body : Option String) (j d : Bool)
    (hwf : d = body.isNone) : (wmetaRow k oldCas newCas exp xs body j d).Establishes RowCoh := by
  intro nc now old r' ev o _ h n
  unfold wmetaRow at h
  simp only at h
  split at h <;> split at h <;> first
    | (cases h; done)
    | (cases h; subst hwf; cases body <;> simp [RowCoh])

end Rosmar

namespace Rosmar

/-- Tombstone coherence is a row invariant of every write entry point. -/
theorem rowCoh_invariant : RowInvariant RowCoh where
  fam :=
    { add := addRow_coh
      set := setRow_coh
      incr := incrRow_coh
      wcas := wcasRow_coh
      remove := removeRow_coh
      touch := fun _ => touchRow_coh
      wwx := wwxRow_coh
      delx := delxRow_coh
      dsp := dspRow_coh }
  wmeta := wmetaRow_coh

/-- Every reachable state is coherent: induction over any operation list. -/
theorem run_coh (ops : List Op) (hwf : ∀ op ∈ ops, op.WF) : StateAll RowCoh (run initState ops).1 :=
  run_inv rowCoh_invariant.step ops initState hwf (initState_stateAll RowCoh)

end Rosmar
