/-
  The hybrid logical clock and the CAS high-water marks (C04).
-/
import Rosmar.Proofs.Families
namespace Rosmar

theorem hlcNow_gt (h p : Nat) : hlcNow h p > h := by
  unfold hlcNow; simp only; split <;> omega

theorem hlcNow_ge_phys (h p : Nat) : hlcNow h p ≥ p - p % 65536 := by
  unfold hlcNow; simp only; split <;> omega

/-- The committed-CAS log is strictly decreasing (newest first), bounded by the persisted high-water mark, which is
    bounded by the clock; every collection's own mark is bounded by the bucket's. -/
def ClockInv (s : State) : Prop :=
  s.acked.Pairwise (· > ·) ∧ (∀ x ∈ s.acked, x ≤ s.lastCas) ∧ s.lastCas ≤ s.hlc ∧ (∀ p ∈ s.colls, p.2.lastCas ≤ s.lastCas)

theorem ClockInv.frame {s s' : State} (ha : s'.acked = s.acked) (hl : s'.lastCas = s.lastCas) (hh : s.hlc ≤ s'.hlc)
    (hc : s'.colls = s.colls) (h : ClockInv s) : ClockInv s' := by
  obtain ⟨h1, h2, h3, h4⟩ := h
  refine ⟨ha ▸ h1, ?_, ?_, ?_⟩
  · intro x hx; rw [hl]; exact h2 x (ha ▸ hx)
  · rw [hl]; omega
  · intro p hp; rw [hl]; exact h4 p (hc ▸ hp)

theorem withNewCas_clockInv (s : State) (c : String) (fn : TxnFn) (h : ClockInv s) : ClockInv (withNewCas s c fn).1 := by
  have hgt := hlcNow_gt s.hlc s.phys
  obtain ⟨h1, h2, h3, h4⟩ := h
  unfold withNewCas
  split
  · exact ⟨h1, h2, h3, h4⟩
  · simp only
    split
    · exact ⟨h1, h2, by simp; omega, h4⟩
    · rename_i _ x hx _ docs' nid ev out hfn
      have key : ClockInv (commit s c x (hlcNow s.hlc s.phys) nid docs') := by
        unfold commit
        refine ⟨?_, ?_, ?_, ?_⟩
        · simp only [State.setColl, List.pairwise_cons]
          exact ⟨fun a ha => by have := h2 a ha; omega, h1⟩
        · intro y hy
          simp only [State.setColl, List.mem_cons] at hy ⊢
          rcases hy with rfl | hy
          · exact Nat.le_refl _
          · have := h2 y hy; omega
        · simp [State.setColl]
        · intro p hp
          simp only [State.setColl, List.mem_map] at hp ⊢
          obtain ⟨q, hq, rfl⟩ := hp
          split
          · exact Nat.le_refl _
          · have := h4 q hq; omega
      split
      · exact ClockInv.frame rfl rfl (Nat.le_refl _) rfl key
      · exact key

theorem reopen_clockInv (s : State) (p : Nat) (h : ClockInv s) : ClockInv (reopen s p) := by
  obtain ⟨h1, h2, _, h4⟩ := h
  refine ⟨h1, h2, ?_, h4⟩
  simp only [reopen, hlcUpdate]
  split <;> omega

theorem clockInv_step : StepInvariant (fun _ => True) ClockInv where
  txn :=
    { add := fun _ _ _ _ s c h => withNewCas_clockInv s c _ h
      set := fun _ _ _ _ _ s c h => withNewCas_clockInv s c _ h
      incr := fun _ _ _ _ s c h => withNewCas_clockInv s c _ h
      wcas := fun _ _ _ _ _ s c h => withNewCas_clockInv s c _ h
      remove := fun _ _ s c h => withNewCas_clockInv s c _ h
      wwx := fun _ _ _ _ _ _ _ s c h => withNewCas_clockInv s c _ h
      delx := fun _ _ s c h => withNewCas_clockInv s c _ h
      dsp := fun _ _ s c h => withNewCas_clockInv s c _ h }
  touchOp := fun s c k exp h => by
    unfold opTouch armOnSuccess
    have h' := withNewCas_clockInv s c (touchFn k exp) h
    split
    · exact ClockInv.frame rfl rfl (Nat.le_refl _) rfl h'
    · exact h'
  wmeta := fun s c k old new exp xs body j d _ h => by
    unfold opWriteWithMeta
    split
    · exact h
    · split
      · exact h
      · rename_i _ x hx _ docs' nid ev out hfn
        have key : ClockInv (({ s with nextRowId := nid } : State).setColl c { x with docs := docs' }) := by
          obtain ⟨h1, h2, h3, h4⟩ := h
          refine ⟨h1, h2, h3, ?_⟩
          intro p hp
          simp only [State.setColl, List.mem_map] at hp
          obtain ⟨q, hq, rfl⟩ := hp
          split
          · obtain ⟨q', hq', hx'⟩ := s.coll?_mem c x hx
            have := h4 q' hq'
            rw [hx'] at this
            exact this
          · exact h4 q hq
        split
        · exact ClockInv.frame rfl rfl (Nat.le_refl _) rfl key
        · exact key
  draw := fun s h => ClockInv.frame (s := s) rfl rfl (Nat.le_of_lt (hlcNow_gt _ _)) rfl h
  restart := fun s p _ h => reopen_clockInv s p h
  purge := fun s _ h => by
    obtain ⟨h1, h2, h3, h4⟩ := h
    refine ⟨h1, h2, h3, ?_⟩
    intro p hp
    simp only [opPurge, List.mem_map] at hp
    obtain ⟨q, hq, rfl⟩ := hp
    exact h4 q hq
  arm := fun s e h => ClockInv.frame rfl rfl (Nat.le_refl _) rfl h
  fire := fun s h => fire_of_txn (fun k s c h => withNewCas_clockInv s c _ h)
    (fun s e h => ClockInv.frame rfl rfl (Nat.le_refl _) rfl h) s h
  clock := fun s t h => ClockInv.frame rfl rfl (Nat.le_refl _) rfl h
  now := fun s n h => ClockInv.frame rfl rfl (Nat.le_refl _) rfl h
  feeds := fun s fs h => ClockInv.frame rfl rfl (Nat.le_refl _) rfl h

theorem initState_clockInv : ClockInv initState := by
  refine ⟨by simp [initState], by simp [initState], by simp [initState], ?_⟩
  intro p hp
  simp [initState] at hp
  rcases hp with rfl | rfl | rfl <;> simp [initState]

end Rosmar
