import Rosmar.View
/-! sg-bucket's Go-value collator agrees with the JSON collation on values that contain no object. -/
namespace Rosmar.View

mutual
  def VJ.objFree : VJ → Bool
    | .arr xs => VJList.objFree xs
    | .obj _ => false
    | _ => true
  def VJList.objFree : VJList → Bool
    | .nil => true
    | .cons x rest => VJ.objFree x && VJList.objFree rest
end

mutual
  theorem collateGo_eq_collate : ∀ (a b : VJ), a.objFree = true → b.objFree = true → collateGo a b = collate a b
    | .arr xs, .arr ys, ha, hb => by
      unfold collateGo collate
      exact collateGoList_eq_collateList xs ys (by simpa [VJ.objFree] using ha) (by simpa [VJ.objFree] using hb)
    | .obj _, _, ha, _ => by simp [VJ.objFree] at ha
    | _, .obj _, _, hb => by simp [VJ.objFree] at hb
    | .null, b, _, _ => by cases b <;> simp [collateGo, collate]
    | .bool _, b, _, _ => by cases b <;> simp [collateGo, collate]
    | .num _, b, _, _ => by cases b <;> simp [collateGo, collate]
    | .str _, b, _, _ => by cases b <;> simp [collateGo, collate]
    | .arr _, .null, _, _ => by simp [collateGo, collate]
    | .arr _, .bool _, _, _ => by simp [collateGo, collate]
    | .arr _, .num _, _, _ => by simp [collateGo, collate]
    | .arr _, .str _, _, _ => by simp [collateGo, collate]
  theorem collateGoList_eq_collateList : ∀ (a b : VJList), a.objFree = true → b.objFree = true → collateGoList a b = collateList a b
    | .nil, .nil, _, _ => by simp [collateGoList, collateList]
    | .nil, .cons _ _, _, _ => by simp [collateGoList, collateList]
    | .cons _ _, .nil, _, _ => by simp [collateGoList, collateList]
    | .cons x xs, .cons y ys, ha, hb => by
      simp only [VJList.objFree, Bool.and_eq_true] at ha hb
      unfold collateGoList collateList
      rw [collateGo_eq_collate x y ha.1 hb.1, collateGoList_eq_collateList xs ys ha.2 hb.2]
end



/-! ### Lifting to the query: when every emitted key and every requested key is object-free, the query as rosmar runs it (Go-value
collator in the `keys` selection and the grouping) is the query with the JSON collation. -/

theorem mem_insertRow {x y : VRow} {l : List VRow} (h : y ∈ insertRow x l) : y = x ∨ y ∈ l := by
  induction l with
  | nil => simp [insertRow] at h; exact Or.inl h
  | cons a as ih =>
    unfold insertRow at h
    split at h
    · cases h with
      | head => exact Or.inl rfl
      | tail _ h' => exact Or.inr h'
    · cases h with
      | head => exact Or.inr List.mem_cons_self
      | tail _ h' =>
        rcases ih h' with h1 | h1
        · exact Or.inl h1
        · exact Or.inr (List.mem_cons_of_mem _ h1)

theorem mem_sortRows {y : VRow} {l : List VRow} (h : y ∈ sortRows l) : y ∈ l := by
  induction l with
  | nil => simp [sortRows] at h
  | cons a as ih =>
    have : sortRows (a :: as) = insertRow a (sortRows as) := rfl
    rw [this] at h
    rcases mem_insertRow h with rfl | h1
    · exact List.mem_cons_self
    · exact List.mem_cons_of_mem _ (ih h1)

theorem mem_takeLimit {l : Option Nat} {rows : List VRow} {y : VRow} (h : y ∈ takeLimit l rows) : y ∈ rows := by
  unfold takeLimit at h
  split at h
  · exact List.mem_of_mem_take h
  · exact h

theorem mem_sqlStage {p : Params} {rows : List VRow} {y : VRow} (h : y ∈ sqlStage p rows) : y ∈ rows := by
  unfold sqlStage at h
  simp only at h
  have h1 := mem_takeLimit h
  split at h1
  · exact mem_sortRows (List.mem_filter.mp (List.mem_reverse.mp h1)).1
  · exact mem_sortRows (List.mem_filter.mp h1).1

theorem objFree_ofList_take : ∀ (xs : VJList) (n : Nat), xs.objFree = true → (VJList.ofList (xs.toList.take n)).objFree = true
  | .nil, n, _ => by cases n <;> simp [VJList.toList, VJList.ofList, VJList.objFree]
  | .cons _ _, 0, _ => by simp [VJList.toList, VJList.ofList, VJList.objFree]
  | .cons x rest, n + 1, h => by
    simp only [VJList.objFree, Bool.and_eq_true] at h
    simp only [VJList.toList, List.take_succ_cons, VJList.ofList, VJList.objFree, Bool.and_eq_true]
    exact ⟨h.1, objFree_ofList_take rest n h.2⟩

theorem objFree_keyPrefix (n : Nat) (k : VJ) (h : k.objFree = true) : (keyPrefix n k).objFree = true := by
  cases k with
  | arr xs => simp only [keyPrefix, VJ.objFree] at h ⊢; exact objFree_ofList_take xs n h
  | obj _ => simp [VJ.objFree] at h
  | _ => simpa [keyPrefix] using h

theorem groupRows_congr (fn : String) (lvl : Nat) (rows : List VRow) (hrows : ∀ r ∈ rows, r.key.objFree = true) :
    ∀ st : Option (VJ × List VRow), (∀ k acc, st = some (k, acc) → k.objFree = true) →
      groupRows collateGo fn lvl st rows = groupRows collate fn lvl st rows := by
  induction rows with
  | nil => intro st _; cases st with
    | none => rfl
    | some q => rfl
  | cons r rest ih =>
    intro st hst
    have hr : r.key.objFree = true := hrows r List.mem_cons_self
    have hrest : ∀ r' ∈ rest, r'.key.objFree = true := fun r' h => hrows r' (List.mem_cons_of_mem _ h)
    have hk' : (if lvl > 0 then keyPrefix lvl r.key else r.key).objFree = true := by
      split
      · exact objFree_keyPrefix lvl r.key hr
      · exact hr
    cases st with
    | none =>
      rw [groupRows, groupRows]
      exact ih hrest _ (fun k acc h => by
        simp only [Option.some.injEq, Prod.mk.injEq] at h; rw [← h.1]; exact hk')
    | some q =>
      obtain ⟨k, acc⟩ := q
      have hk : k.objFree = true := hst k acc rfl
      rw [groupRows, groupRows]
      generalize (if lvl > 0 then keyPrefix lvl r.key else r.key) = k' at hk' ⊢
      rw [collateGo_eq_collate k' k hk' hk]
      by_cases hc : collate k' k = .eq
      · simp only [hc, if_true]
        exact ih hrest _ (fun k2 acc2 h => by
          simp only [Option.some.injEq, Prod.mk.injEq] at h; rw [← h.1]; exact hk)
      · simp only [hc, if_false]
        rw [ih hrest _ (fun k2 acc2 h => by
          simp only [Option.some.injEq, Prod.mk.injEq] at h; rw [← h.1]; exact hk')]

/-- **On object-free keys rosmar's query is the query under the JSON collation.** -/
theorem queryRows_eq_with_collate (p : Params) (red : String) (idx : List (String × List Emit))
    (hidx : ∀ r ∈ flatten idx, r.key.objFree = true) (hkeys : ∀ ks, p.keys = some ks → ∀ t ∈ ks, t.objFree = true) :
    queryRows p red idx = queryRowsWith collate p red idx := by
  unfold queryRows queryRowsWith processStage
  have hsql : ∀ r ∈ sqlStage p (flatten idx), r.key.objFree = true := fun r h => hidx r (mem_sqlStage h)
  have hfk : ∀ ks, p.keys = some ks → filterKeys collateGo ks (sqlStage p (flatten idx)) = filterKeys collate ks (sqlStage p (flatten idx)) := by
    intro ks hks
    unfold filterKeys
    have hall : ∀ l : List VJ, (∀ t ∈ l, t.objFree = true) →
        l.flatMap (fun t => (sqlStage p (flatten idx)).filter (fun r => collateGo r.key t = .eq)) =
        l.flatMap (fun t => (sqlStage p (flatten idx)).filter (fun r => collate r.key t = .eq)) := by
      intro l
      induction l with
      | nil => intro _; rfl
      | cons t ts ih =>
        intro hl
        simp only [List.flatMap_cons]
        rw [ih (fun t' ht' => hl t' (List.mem_cons_of_mem _ ht'))]
        congr 1
        apply List.filter_congr
        intro r hr
        rw [collateGo_eq_collate _ _ (hsql r hr) (hl t List.mem_cons_self)]
    exact hall ks (hkeys ks hks)
  cases hks : p.keys with
  | none =>
    simp only
    split
    · split
      · rfl
      · split
        · rw [groupRows_congr red _ _ hsql none (fun k acc h => by cases h)]
        · rfl
    · rfl
  | some ks =>
    simp only
    rw [hfk ks hks]
    have hsel : ∀ r ∈ filterKeys collate ks (sqlStage p (flatten idx)), r.key.objFree = true := by
      intro r hr
      unfold filterKeys at hr
      obtain ⟨t, _, hr'⟩ := List.mem_flatMap.mp hr
      exact hsql r (List.mem_filter.mp hr').1
    split
    · split
      · rfl
      · split
        · rw [groupRows_congr red _ _ hsel none (fun k acc h => by cases h)]
        · rfl
    · rfl

end Rosmar.View
