/-
  The view index and the KV write paths (C12): the invariant that makes incremental maintenance exact, and its preservation
  by every entry point other than the WithMeta writes.
-/
import Rosmar.View
import Rosmar.Proofs.Clock
namespace Rosmar.View
open Rosmar

/-! ### Keys of a collection are unique (`UNIQUE (collection, key)`) -/

def KeysNodup (docs : Docs) : Prop := (docs.map (·.1)).Nodup

theorem mem_put {docs : Docs} {k : String} {r : Row} {d : String × Row} (h : d ∈ docs.put k r) : d = (k, r) ∨ d ∈ docs := by
  induction docs with
  | nil => simp [Docs.put] at h; exact Or.inl h
  | cons a as ih =>
    obtain ⟨ak, ar⟩ := a
    unfold Docs.put at h
    split at h
    · cases h with
      | head => rename_i hk; subst hk; exact Or.inl rfl
      | tail _ h' => exact Or.inr (List.mem_cons_of_mem _ h')
    · cases h with
      | head => exact Or.inr List.mem_cons_self
      | tail _ h' =>
        rcases ih h' with h1 | h1
        · exact Or.inl h1
        · exact Or.inr (List.mem_cons_of_mem _ h1)

theorem put_keys (docs : Docs) (k : String) (r : Row) :
    (docs.put k r).map (·.1) = if k ∈ docs.map (·.1) then docs.map (·.1) else docs.map (·.1) ++ [k] := by
  induction docs with
  | nil => simp [Docs.put]
  | cons a as ih =>
    obtain ⟨ak, ar⟩ := a
    unfold Docs.put
    by_cases h : ak = k
    · subst h; simp
    · simp only [h, if_false, List.map_cons, ih, List.mem_cons]
      have : ¬ k = ak := fun e => h e.symm
      by_cases hm : k ∈ as.map (·.1)
      · simp [hm]
      · simp [hm, this]

theorem KeysNodup.put {docs : Docs} (h : KeysNodup docs) (k : String) (r : Row) : KeysNodup (docs.put k r) := by
  unfold KeysNodup at *
  rw [put_keys]
  split
  · exact h
  · rename_i hk
    rw [List.nodup_append]
    refine ⟨h, by simp, ?_⟩
    intro a ha b hb
    simp only [List.mem_singleton] at hb
    subst hb
    exact fun e => hk (e ▸ ha)

theorem KeysNodup.filter {docs : Docs} (h : KeysNodup docs) (p : String × Row → Bool) : KeysNodup (docs.filter p) := by
  unfold KeysNodup at *
  induction docs with
  | nil => simp
  | cons a as ih =>
    simp only [List.map_cons, List.nodup_cons] at h
    simp only [List.filter_cons]
    split
    · simp only [List.map_cons, List.nodup_cons]
      refine ⟨?_, ih h.2⟩
      intro hm
      apply h.1
      simp only [List.mem_map] at hm ⊢
      obtain ⟨d, hd, he⟩ := hm
      exact ⟨d, (List.mem_filter.mp hd).1, he⟩
    · exact ih h.2

/-- With unique keys, the first entry of a key is the entry. -/
theorem find?_of_mem_nodup {α : Type} (l : List (String × α)) (h : (l.map (·.1)).Nodup) (d : String × α) (hd : d ∈ l) :
    l.find? (fun p => p.1 = d.1) = some d := by
  induction l with
  | nil => cases hd
  | cons a as ih =>
    simp only [List.map_cons, List.nodup_cons] at h
    simp only [List.find?_cons]
    cases hd with
    | head => simp
    | tail _ hd' =>
      have hne : a.1 ≠ d.1 := by
        intro e
        apply h.1
        rw [e]
        exact List.mem_map.mpr ⟨d, hd', rfl⟩
      simp only [hne, decide_false]
      exact ih h.2 hd'

/-! ### The map rows of a row depend on its body, its JSON flag and its xattrs only -/

theorem mapRows_congr (m : Nat) (k : String) (r r' : Row) (hv : r'.value = r.value) (hj : r'.isJSON = r.isJSON)
    (hx : r'.xattrs = r.xattrs) : mapRows m k r' = mapRows m k r := by
  unfold mapRows mapInput?
  rw [hv, hj, hx]

/-! ### The invariant -/

/-- The index is exact for every document that is not newer than the view's `lastCas`. -/
def IndexInv (docs : Docs) (v : ViewDef) : Prop :=
  ∀ d ∈ docs, d.2.cas ≤ v.lastCas → v.rowsOf d.1 = mapRows v.mapId d.1 d.2

/-- What the view needs of its collection: unique keys; every document stamped with a positive CAS not above the
collection's high-water mark; the view never indexed beyond that mark; the index exact up to the view's own mark. -/
def CollOK (v : ViewDef) (x : Coll) : Prop :=
  KeysNodup x.docs ∧ (∀ d ∈ x.docs, 0 < d.2.cas ∧ d.2.cas ≤ x.lastCas) ∧ v.lastCas ≤ x.lastCas ∧ IndexInv x.docs v

def VInv (c : String) (v : ViewDef) (s : State) : Prop :=
  ClockInv s ∧ ∀ x, s.coll? c = some x → CollOK v x

theorem VInv.frame {c : String} {v : ViewDef} {s s' : State} (hc : ClockInv s') (h : s'.coll? c = s.coll? c)
    (hv : VInv c v s) : VInv c v s' :=
  ⟨hc, fun x hx => hv.2 x (h ▸ hx)⟩

theorem collLastCas_le_hlc {s : State} (h : ClockInv s) {c : String} {x : Coll} (hx : s.coll? c = some x) : x.lastCas ≤ s.hlc := by
  obtain ⟨p, hp, rfl⟩ := State.coll?_mem s c x hx
  have := h.2.2.2 p hp
  have := h.2.2.1
  omega

/-- A row function never stores a row that would make the index silently wrong: it stamps the new CAS, or (a touch) leaves CAS,
body, JSON flag and xattrs as they were. -/
def IndexSafe (_k : String) (f : RowFn) : Prop :=
  ∀ nc now old r' ev o, f nc now old = .inr (some r', ev, o) →
    r'.cas = nc ∨ ∃ r, old = some r ∧ r'.cas = r.cas ∧ r'.value = r.value ∧ r'.isJSON = r.isJSON ∧ r'.xattrs = r.xattrs

theorem indexSafe_family : Family IndexSafe where
  add k exp v j := fun nc now old r' ev o h => Or.inl (addRow_faithful k exp v j nc now old r' ev o h).2.1
  set k exp pe v j := fun nc now old r' ev o h => Or.inl (setRow_faithful k exp pe v j nc now old r' ev o h).2.1
  incr k a d e := fun nc now old r' ev o h => Or.inl (incrRow_faithful k a d e nc now old r' ev o h).2.1
  wcas k e c v o := fun nc now old r' ev out h => Or.inl (wcasRow_faithful k e c v o nc now old r' ev out h).2.1
  remove k ic := fun nc now old r' ev o h => Or.inl (removeRow_faithful k ic nc now old r' ev o h).2.1
  touch k exp := fun nc now old r' ev o h => by
    unfold touchRow at h
    simp only at h
    split at h
    · cases h
    · rename_i r
      split at h
      · cases h
      · cases h; exact Or.inr ⟨r, rfl, rfl, rfl, rfl, rfl⟩
  wwx k val ed ic ex o m := fun nc now old r' ev out h => Or.inl (wwxRow_faithful k val ed ic ex o m nc now old r' ev out h).2.1
  delx k n := fun nc now old r' ev o h => Or.inl (delxRow_faithful k n nc now old r' ev o h).2.1
  dsp k n := fun nc now old r' ev o h => Or.inl (dspRow_faithful k n nc now old r' ev o h).2.1

/-- What a transaction does to the collection it runs on. -/
theorem withNewCas_coll?_same (s : State) (c : String) (fn : TxnFn) (x : Coll) (hx : s.coll? c = some x) :
    (withNewCas s c fn).1.coll? c = some x ∨
    ∃ docs' nid ev out, fn (hlcNow s.hlc s.phys) s.now s.nextRowId x.docs = .inr (docs', nid, ev, out) ∧
      (withNewCas s c fn).1.coll? c = some { x with docs := docs', lastCas := hlcNow s.hlc s.phys } := by
  unfold withNewCas
  rw [hx]
  simp only
  cases hfn : fn (hlcNow s.hlc s.phys) s.now s.nextRowId x.docs with
  | inl out => exact Or.inl hx
  | inr q =>
    obtain ⟨docs', nid, ev, out⟩ := q
    refine Or.inr ⟨docs', nid, ev, out, rfl, ?_⟩
    have hsame : (commit s c x (hlcNow s.hlc s.phys) nid docs').coll? c =
        some { x with docs := docs', lastCas := hlcNow s.hlc s.phys } := by
      unfold commit
      exact State.coll?_setColl_same _ _ _ x (by simpa [State.coll?] using hx)
    cases ev with
    | none => exact hsame
    | some e => simp only; rw [postEvent_coll?]; exact hsame

theorem liftRow_docs (k : String) (f : RowFn) (nc now nid : Nat) (docs docs' : Docs) (nid' : Nat) (ev : Option Event) (out : Out)
    (h : liftRow k f nc now nid docs = .inr (docs', nid', ev, out)) :
    docs' = docs ∨ ∃ r' ev' rid, f nc now (docs.get? k) = .inr (some r', ev', out) ∧ docs' = docs.put k { r' with rowid := rid } := by
  unfold liftRow at h
  cases hf : f nc now (docs.get? k) with
  | inl o => rw [hf] at h; cases h
  | inr p =>
    obtain ⟨ro, ev', o'⟩ := p
    rw [hf] at h
    cases ro with
    | none => simp only at h; cases h; exact Or.inl rfl
    | some r' =>
      simp only at h
      cases hg : docs.get? k with
      | none => rw [hg] at h; simp only at h; cases h; exact Or.inr ⟨r', _, nid, rfl, rfl⟩
      | some old => rw [hg] at h; simp only at h; cases h; exact Or.inr ⟨r', _, old.rowid, rfl, rfl⟩

/-- A committed write keeps the collection fit for the view. -/
theorem CollOK.write {v : ViewDef} {x : Coll} (h : CollOK v x) (k : String) (f : RowFn) (hf : IndexSafe k f)
    (nc now : Nat) (hnc : x.lastCas < nc) (r' : Row) (ev : Option Event) (out : Out) (rid : Nat)
    (hfr : f nc now (x.docs.get? k) = .inr (some r', ev, out)) :
    CollOK v { x with docs := x.docs.put k { r' with rowid := rid }, lastCas := nc } := by
  obtain ⟨hnd, hok, hle, hinv⟩ := h
  have hsafe := hf nc now _ r' ev out hfr
  refine ⟨hnd.put k _, ?_, by simp only; omega, ?_⟩
  · intro d hd
    rcases mem_put hd with rfl | hd'
    · simp only
      rcases hsafe with h1 | ⟨r, hold, hc, _, _, _⟩
      · omega
      · have := hok (k, r) (Docs.get?_mem _ _ _ hold)
        simp only at this
        omega
    · have := hok d hd'; simp only; omega
  · intro d hd hcas
    rcases mem_put hd with rfl | hd'
    · simp only at hcas ⊢
      rcases hsafe with h1 | ⟨r, hold, hc, hv, hj, hx⟩
      · omega
      · have hm := Docs.get?_mem _ _ _ hold
        have := hinv (k, r) hm (by simp only; omega)
        simp only at this
        rw [this]
        exact (mapRows_congr v.mapId k r { r' with rowid := rid } hv hj hx).symm
    · exact hinv d hd' hcas

/-- A transaction that commits without storing a row only raises the collection's mark. -/
theorem CollOK.bump {v : ViewDef} {x : Coll} (h : CollOK v x) (nc : Nat) (hnc : x.lastCas ≤ nc) :
    CollOK v { x with lastCas := nc } := by
  obtain ⟨hnd, hok, hle, hinv⟩ := h
  exact ⟨hnd, fun d hd => by have := hok d hd; simp only; omega, by simp only; omega, hinv⟩

theorem withNewCas_liftRow_vinv (c : String) (v : ViewDef) (k : String) (f : RowFn) (hf : IndexSafe k f) (s : State) (c' : String)
    (hs : VInv c v s) : VInv c v (withNewCas s c' (liftRow k f)).1 := by
  have hclock := withNewCas_clockInv s c' (liftRow k f) hs.1
  by_cases hc : c = c'
  · subst hc
    refine ⟨hclock, ?_⟩
    intro x' hx'
    cases hx : s.coll? c with
    | none =>
      have : (withNewCas s c (liftRow k f)).1 = s := by unfold withNewCas; rw [hx]
      rw [this, hx] at hx'; cases hx'
    | some x =>
      have hok := hs.2 x hx
      have hlt : x.lastCas < hlcNow s.hlc s.phys := by
        have := collLastCas_le_hlc hs.1 hx
        have := hlcNow_gt s.hlc s.phys
        omega
      rcases withNewCas_coll?_same s c (liftRow k f) x hx with h1 | ⟨docs', nid, ev, out, hfn, h1⟩
      · rw [h1] at hx'; cases hx'; exact hok
      · rw [h1] at hx'; cases hx'
        rcases liftRow_docs k f _ _ _ _ _ _ _ _ hfn with rfl | ⟨r', ev', rid, hfr, rfl⟩
        · exact hok.bump _ (Nat.le_of_lt hlt)
        · exact hok.write k f hf _ _ hlt r' ev' out rid hfr
  · exact VInv.frame hclock (withNewCas_coll?_other s c' c (liftRow k f) hc) hs

/-! ### Everything else a step can do leaves the collections alone or filters them -/

theorem CollOK.filter {v : ViewDef} {x : Coll} (h : CollOK v x) (p : String × Row → Bool) :
    CollOK v { x with docs := x.docs.filter p } := by
  obtain ⟨hnd, hok, hle, hinv⟩ := h
  exact ⟨hnd.filter p, fun d hd => hok d (List.mem_filter.mp hd).1, hle, fun d hd => hinv d (List.mem_filter.mp hd).1⟩

theorem opPurge_coll? (s : State) (c : String) :
    (opPurge s).1.coll? c = (s.coll? c).map (fun x => { x with docs := x.docs.filter (fun d => d.2.value.isSome) }) := by
  unfold opPurge State.coll?
  simp only
  induction s.colls with
  | nil => rfl
  | cons a as ih =>
    simp only [List.map_cons, List.find?_cons]
    by_cases h : a.1 = c
    · simp [h]
    · simp only [h, decide_false]; exact ih

theorem opPurge_clockInv (s : State) (h : ClockInv s) : ClockInv (opPurge s).1 := by
  obtain ⟨h1, h2, h3, h4⟩ := h
  refine ⟨h1, h2, h3, ?_⟩
  intro p hp
  unfold opPurge at hp
  simp only [List.mem_map] at hp
  obtain ⟨q, hq, rfl⟩ := hp
  exact h4 q hq

/-- Calls that are not WithMeta writes. -/
def NoMeta : Op → Prop
  | .wmeta .. => False
  | _ => True

/-- **Every entry point other than the WithMeta writes keeps every view's index invariant.** -/
theorem vinv_step (c : String) (v : ViewDef) : StepInvariant NoMeta (VInv c v) where
  txn := (indexSafe_family.toTxn).mapInv (fun k f hf s c' hs => withNewCas_liftRow_vinv c v k f hf s c' hs)
  touchOp := fun s c' k exp hs => by
    have h := withNewCas_liftRow_vinv c v k (touchRow exp) (indexSafe_family.touch k exp) s c' hs
    unfold opTouch armOnSuccess touchFn
    split
    · exact VInv.frame (s := (withNewCas s c' (liftRow k (touchRow exp))).1)
        (ClockInv.frame (s := (withNewCas s c' (liftRow k (touchRow exp))).1) rfl rfl (Nat.le_refl _) rfl h.1) rfl h
    · exact h
  wmeta := fun s c' k old new exp xs body j d hw _ => absurd hw (by simp [NoMeta])
  draw := fun s hs => VInv.frame (s := s) (clockInv_step.draw s hs.1) rfl hs
  restart := fun s p _ hs => VInv.frame (s := s) (reopen_clockInv s p hs.1) rfl hs
  purge := fun s _ hs => by
    refine ⟨opPurge_clockInv s hs.1, ?_⟩
    intro x' hx'
    rw [opPurge_coll?] at hx'
    cases hx : s.coll? c with
    | none => rw [hx] at hx'; cases hx'
    | some x => rw [hx] at hx'; cases hx'; exact (hs.2 x hx).filter _
  arm := fun s e hs => VInv.frame (s := s) (clockInv_step.arm s e hs.1) rfl hs
  fire := fun s hs => fire_of_txn (I := VInv c v)
    (fun k s c' h => withNewCas_liftRow_vinv c v k _ (indexSafe_family.remove k none) s c' h)
    (fun s e h => VInv.frame (s := s) (ClockInv.frame (s := s) rfl rfl (Nat.le_refl _) rfl h.1) rfl h) s hs
  clock := fun s t hs => VInv.frame (s := s) (clockInv_step.clock s t hs.1) rfl hs
  now := fun s n hs => VInv.frame (s := s) (clockInv_step.now s n hs.1) rfl hs
  feeds := fun s fs hs => VInv.frame (s := s) (clockInv_step.feeds s fs hs.1) rfl hs

/-! ### The query side -/

theorem updateIndex_rowsOf (docs : Docs) (L : Nat) (v : ViewDef) (hnd : KeysNodup docs) (hne : L ≠ v.lastCas)
    (d : String × Row) (hd : d ∈ docs) :
    (updateIndex docs L v).rowsOf d.1 = if d.2.cas > v.lastCas then mapRows v.mapId d.1 d.2 else v.rowsOf d.1 := by
  unfold updateIndex
  simp only [hne, if_false]
  let g : String × Row → String × List Emit := fun d => (d.1, if d.2.cas > v.lastCas then mapRows v.mapId d.1 d.2 else v.rowsOf d.1)
  have hnd' : ((docs.map g).map (·.1)).Nodup := by rw [List.map_map]; exact hnd
  have key : (docs.map g).find? (fun p => p.1 = d.1) = some (g d) :=
    find?_of_mem_nodup (docs.map g) hnd' (g d) (List.mem_map.mpr ⟨d, hd, rfl⟩)
  show (match (docs.map g).find? (fun p => p.1 = d.1) with | some p => p.2 | none => []) = _
  rw [key]

/-- **After `updateView` the index is exactly the map function over the current documents**, and the view is fit again. -/
theorem updateIndex_exact (v : ViewDef) (x : Coll) (h : CollOK v x) :
    joined x.docs (updateIndex x.docs x.lastCas v) = freshIndex x.docs v.mapId ∧ CollOK (updateIndex x.docs x.lastCas v) x := by
  obtain ⟨hnd, hok, hle, hinv⟩ := h
  have hmap : (updateIndex x.docs x.lastCas v).mapId = v.mapId := by unfold updateIndex; split <;> rfl
  have hrows : ∀ d ∈ x.docs, (updateIndex x.docs x.lastCas v).rowsOf d.1 = mapRows v.mapId d.1 d.2 := by
    intro d hd
    by_cases hne : x.lastCas = v.lastCas
    · have : updateIndex x.docs x.lastCas v = v := by unfold updateIndex; simp [hne]
      rw [this]
      exact hinv d hd (by have := (hok d hd).2; omega)
    · rw [updateIndex_rowsOf x.docs x.lastCas v hnd hne d hd]
      split
      · rfl
      · exact hinv d hd (by omega)
  refine ⟨?_, hnd, hok, ?_, ?_⟩
  · unfold joined freshIndex
    apply List.map_congr_left
    intro d hd
    rw [hrows d hd]
  · unfold updateIndex; split
    · exact hle
    · exact Nat.le_refl _
  · intro d hd _
    rw [hmap]
    exact hrows d hd

theorem find?_filter_key {α : Type} (l : List (String × α)) (q : String → Bool) (k : String) (hq : q k = true) :
    (l.filter (fun p => q p.1)).find? (fun p => p.1 = k) = l.find? (fun p => p.1 = k) := by
  induction l with
  | nil => rfl
  | cons a as ih =>
    simp only [List.filter_cons]
    by_cases hk : a.1 = k
    · simp [hk, hq]
    · split
      · simp only [List.find?_cons, hk, decide_false]; exact ih
      · simp only [List.find?_cons, hk, decide_false]; exact ih

/-- The cascade from `documents` to `mapped` does not disturb the rows of the documents that remain. -/
theorem gc_rowsOf (docs : Docs) (v : ViewDef) (d : String × Row) (hd : d ∈ docs) (hnd : KeysNodup docs) :
    (v.gc docs).rowsOf d.1 = v.rowsOf d.1 := by
  unfold ViewDef.gc ViewDef.rowsOf
  simp only
  have hget : (docs.get? d.1).isSome = true := by
    have : docs.find? (fun p => p.1 = d.1) = some d := find?_of_mem_nodup docs hnd d hd
    clear hnd
    induction docs with
    | nil => cases hd
    | cons a as ih =>
      obtain ⟨ak, ar⟩ := a
      unfold Docs.get?
      by_cases hk : ak = d.1
      · simp [hk]
      · simp only [hk, if_false]
        cases hd with
        | head => exact absurd rfl hk
        | tail _ hd' =>
          apply ih hd'
          simpa [List.find?_cons, hk] using this
  rw [find?_filter_key v.mapped (fun k => (docs.get? k).isSome) d.1 hget]

theorem gc_collOK (v : ViewDef) (x : Coll) (h : CollOK v x) : CollOK (v.gc x.docs) x := by
  obtain ⟨hnd, hok, hle, hinv⟩ := h
  refine ⟨hnd, hok, hle, ?_⟩
  intro d hd hc
  rw [gc_rowsOf x.docs v d hd hnd]
  exact hinv d hd hc

/-- A view that was just created (never indexed, no rows) is fit for any collection whose documents carry a positive CAS. -/
theorem new_view_collOK (name : String) (m : Nat) (red : String) (x : Coll) (hnd : KeysNodup x.docs)
    (hok : ∀ d ∈ x.docs, 0 < d.2.cas ∧ d.2.cas ≤ x.lastCas) :
    CollOK { name := name, mapId := m, reduce := red } x :=
  ⟨hnd, hok, Nat.zero_le _, fun d hd hc => by have := (hok d hd).1; simp only at hc; omega⟩

end Rosmar.View
