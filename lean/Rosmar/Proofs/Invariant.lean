/-
  Generic lifting of a unary row invariant through every API call, `step` and `run`:
  if every row-level write function establishes `P` for the row it stores, every reachable state satisfies `P`.
-/
import Rosmar.Proofs.Lemmas
namespace Rosmar

/-- Well-formed calls: a WithMeta write says "deletion" exactly when it carries no body. -/
def Op.WF : Op → Prop
  | .wmeta _ _ _ _ _ _ body _ d => d = body.isNone
  | _ => True

/-- A unary row invariant: every row-level write function establishes it for the row it stores. -/
structure RowInvariant (P : Row → Prop) : Prop where
  add : ∀ k exp v j, (addRow k exp v j).Establishes P
  set : ∀ k exp pe v j, (setRow k exp pe v j).Establishes P
  incr : ∀ k amt d exp, (incrRow k amt d exp).Establishes P
  wcas : ∀ k exp cas v o, (wcasRow k exp cas v o).Establishes P
  remove : ∀ k ifCas, (removeRow k ifCas).Establishes P
  touch : ∀ exp, (touchRow exp).Establishes P
  wwx : ∀ k val edits ifCas exp o m, (wwxRow k val edits ifCas exp o m).Establishes P
  delx : ∀ k names, (delxRow k names).Establishes P
  dsp : ∀ k names, (dspRow k names).Establishes P
  wmeta : ∀ k old new exp xs body j d, d = body.isNone → (wmetaRow k old new exp xs body j d).Establishes P

/-! ### Lifting to the API calls, `step` and `run` -/

section
variable {P : Row → Prop} (hP : RowInvariant P)
include hP


omit hP in
theorem opWithNewCas_row (s : State) (c k : String) (f : RowFn) (hf : f.Establishes P) (hs : StateAll P s) :
    StateAll P (withNewCas s c (liftRow k f)).1 :=
  withNewCas_stateAll (liftRow_preserves hf k) s c hs

/-- Every row function a shape can run satisfies `Q`. -/
def OpShape.All (Q : RowFn → Prop) : OpShape → Prop
  | .rejected _ => True
  | .row _ _ f => Q f

omit hP in
theorem runShape_inv (s : State) (sh : OpShape) (h : sh.All (RowFn.Establishes P)) (hs : StateAll P s) :
    StateAll P (runShape s sh).1 := by
  cases sh with
  | rejected e => exact hs
  | row c k f => exact opWithNewCas_row s c k f h hs

omit hP in
theorem wwxShape_all {Q : RowFn → Prop} (hQ : ∀ k val edits ifCas exp o m, Q (wwxRow k val edits ifCas exp o m))
    (c k : String) (val : ValArg) (edits : List XEdit) (ifCas exp : Option Nat) (o : XOpts) (m : List (String × MacroKind)) :
    (wwxShape c k val edits ifCas exp o m).All Q := by
  unfold wwxShape; split <;> simp [OpShape.All, hQ]

omit hP in
theorem shapeWriteWithXattrs_all {Q : RowFn → Prop} (hQ : ∀ k val edits ifCas exp o m, Q (wwxRow k val edits ifCas exp o m))
    (c k : String) (exp cas : Nat) (v : Option String) (sets : List (String × Option String)) (dels : Option (List String))
    (pe : Bool) (m : List (String × MacroKind)) : (shapeWriteWithXattrs c k exp cas v sets dels pe m).All Q := by
  unfold shapeWriteWithXattrs
  split; · trivial
  split; · trivial
  split; · trivial
  split
  · trivial
  · exact wwxShape_all hQ ..

omit hP in
theorem shapeWriteTombstoneWithXattrs_all {Q : RowFn → Prop} (hQ : ∀ k val edits ifCas exp o m, Q (wwxRow k val edits ifCas exp o m))
    (c k : String) (exp cas : Nat) (sets : List (String × Option String)) (dels : Option (List String))
    (db : Bool) (m : List (String × MacroKind)) : (shapeWriteTombstoneWithXattrs c k exp cas sets dels db m).All Q := by
  unfold shapeWriteTombstoneWithXattrs
  split; · trivial
  split; · trivial
  split; · trivial
  split
  · trivial
  · exact wwxShape_all hQ ..

omit hP in
theorem shapeWriteResurrectionWithXattrs_all {Q : RowFn → Prop} (hQ : ∀ k val edits ifCas exp o m, Q (wwxRow k val edits ifCas exp o m))
    (c k : String) (exp : Nat) (v : Option String) (sets : List (String × Option String))
    (pe : Bool) (m : List (String × MacroKind)) : (shapeWriteResurrectionWithXattrs c k exp v sets pe m).All Q := by
  unfold shapeWriteResurrectionWithXattrs
  split
  · trivial
  · split
    · trivial
    · exact wwxShape_all hQ ..

omit hP in
theorem shapeUpdateXattrs_all {Q : RowFn → Prop} (hQ : ∀ k val edits ifCas exp o m, Q (wwxRow k val edits ifCas exp o m))
    (c k : String) (exp cas : Nat) (sets : List (String × Option String)) (m : List (String × MacroKind)) :
    (shapeUpdateXattrs c k exp cas sets m).All Q := by
  unfold shapeUpdateXattrs
  split
  · trivial
  · exact wwxShape_all hQ ..

theorem writeWithXattrs_inv (s : State) (c k : String) (val : ValArg) (edits : List XEdit) (ifCas exp : Option Nat) (o : XOpts)
    (m : List (String × MacroKind)) (hs : StateAll P s) : StateAll P (writeWithXattrs s c k val edits ifCas exp o m).1 :=
  runShape_inv s _ (wwxShape_all hP.wwx ..) hs

theorem opWriteWithXattrs_inv (s : State) (c k : String) (exp cas : Nat) (v : Option String) (sets : Sets) (dels : Option (List String))
    (pe : Bool) (m : Macros) (hs : StateAll P s) : StateAll P (opWriteWithXattrs s c k exp cas v sets dels pe m).1 :=
  runShape_inv s _ (shapeWriteWithXattrs_all hP.wwx ..) hs

theorem opWriteTombstoneWithXattrs_inv (s : State) (c k : String) (exp cas : Nat) (sets : Sets) (dels : Option (List String))
    (db : Bool) (m : Macros) (hs : StateAll P s) : StateAll P (opWriteTombstoneWithXattrs s c k exp cas sets dels db m).1 :=
  runShape_inv s _ (shapeWriteTombstoneWithXattrs_all hP.wwx ..) hs

theorem opWriteResurrectionWithXattrs_inv (s : State) (c k : String) (exp : Nat) (v : Option String) (sets : Sets)
    (pe : Bool) (m : Macros) (hs : StateAll P s) : StateAll P (opWriteResurrectionWithXattrs s c k exp v sets pe m).1 :=
  runShape_inv s _ (shapeWriteResurrectionWithXattrs_all hP.wwx ..) hs

theorem opUpdate_inv (fuel : Nat) : ∀ (s : State) (c k : String) (exp : Nat) (steps : List UpdStep) (calls : Nat) (seen : List String),
    StateAll P s → StateAll P (opUpdate fuel s c k exp steps calls seen).1 := by
  induction fuel with
  | zero => intro s c k exp steps calls seen hs; simpa [opUpdate] using hs
  | succ n ih =>
    intro s c k exp steps calls seen hs
    have hw : ∀ (v : Option String) (e cas : Nat), StateAll P (opWriteCas s c k e cas v {}).1 :=
      fun v e cas => opWithNewCas_row s c k _ (hP.wcas k e cas v {}) hs
    unfold opUpdate
    simp only
    repeat' (first
      | exact hs
      | exact hw _ _ _
      | (apply ih; first | exact hs | exact hw _ _ _)
      | split)

theorem opWuwx_inv (fuel : Nat) : ∀ (s : State) (c k : String) (names : List String) (steps : List WuStep) (sets : Sets)
    (dels : Option (List String)) (m : Macros) (cbExp : Option Nat) (pe : Bool) (am : Macros) (calls : Nat) (seen : List String),
    StateAll P s → StateAll P (opWuwx fuel s c k names steps sets dels m cbExp pe am calls seen).1 := by
  induction fuel with
  | zero => intro s c k names steps sets dels m cbExp pe am calls seen hs; simpa [opWuwx] using hs
  | succ n ih =>
    intro s c k names steps sets dels m cbExp pe am calls seen hs
    unfold opWuwx
    simp only
    repeat' (first
      | exact hs
      | exact opWriteTombstoneWithXattrs_inv hP _ _ _ _ _ _ _ _ _ hs
      | exact opWriteResurrectionWithXattrs_inv hP _ _ _ _ _ _ _ _ hs
      | exact opWriteWithXattrs_inv hP _ _ _ _ _ _ _ _ _ _ hs
      | (apply ih; first
          | exact hs
          | exact opWriteTombstoneWithXattrs_inv hP _ _ _ _ _ _ _ _ _ hs
          | exact opWriteResurrectionWithXattrs_inv hP _ _ _ _ _ _ _ _ hs
          | exact opWriteWithXattrs_inv hP _ _ _ _ _ _ _ _ _ _ hs)
      | split)

theorem opDelete_inv (s : State) (c k : String) (hs : StateAll P s) : StateAll P (opDelete s c k).1 :=
  opWithNewCas_row s c k _ (hP.remove k none) hs

theorem opFireExpiry_inv (s : State) (hs : StateAll P s) : StateAll P (opFireExpiry s) := by
  unfold opFireExpiry
  simp only
  have h0 : StateAll P ({ s with expNext := 0 } : State) := StateAll.of_colls_eq rfl hs
  have hkeys : ∀ (keys : List String) (c : String) (st : State), StateAll P st →
      StateAll P (keys.foldl (fun st' k => (opDelete st' c k).1) st) := by
    intro keys c
    induction keys with
    | nil => intro st h; exact h
    | cons k tl ih => intro st h; exact ih _ (opDelete_inv hP st c k h)
  have hcolls : ∀ (l : List (String × Coll)) (st : State), StateAll P st →
      StateAll P (l.foldl (fun st p =>
        match st.coll? p.1 with
        | none => st
        | some x => (dueKeys x.docs st.now).foldl (fun st' k => (opDelete st' p.1 k).1) st) st) := by
    intro l
    induction l with
    | nil => intro st h; exact h
    | cons p tl ih =>
      intro st h
      apply ih
      show StateAll P (match st.coll? p.1 with
        | none => st
        | some x => (dueKeys x.docs st.now).foldl (fun st' k => (opDelete st' p.1 k).1) st)
      split
      · exact h
      · exact hkeys _ _ _ h
  have h1 := hcolls (({ s with expNext := 0 } : State).colls.foldr insertCollById []) _ h0
  split
  · exact StateAll.of_colls_eq rfl h1
  · exact h1

omit hP in
theorem opPurge_inv (s : State) (hs : StateAll P s) : StateAll P (opPurge s).1 := by
  intro p hp
  unfold opPurge at hp
  simp only [List.mem_map] at hp
  obtain ⟨q, hq, rfl⟩ := hp
  exact (hs q hq).filter _

theorem opWriteWithMeta_inv (s : State) (c k : String) (old new exp : Nat) (xs : Xattrs) (body : Option String) (j d : Bool)
    (hwf : d = body.isNone) (hs : StateAll P s) : StateAll P (opWriteWithMeta s c k old new exp xs body j d).1 := by
  unfold opWriteWithMeta
  split
  · exact hs
  · rename_i x hx
    split
    · exact hs
    · rename_i docs' nid ev out hfn
      have hd' : DocsAll P docs' :=
        liftRow_preserves (hP.wmeta k old new exp xs body j d hwf) k _ _ _ _ _ _ _ _ (hs.coll c x hx) hfn
      have h2 : StateAll P (({ s with nextRowId := nid } : State).setColl c { x with docs := docs' }) :=
        StateAll.setColl (StateAll.of_colls_eq rfl hs) c _ hd'
      split
      · exact StateAll.of_colls_eq rfl h2
      · exact h2

theorem opTouch_inv (s : State) (c k : String) (exp : Nat) (hs : StateAll P s) : StateAll P (opTouch s c k exp).1 := by
  unfold opTouch armOnSuccess
  have h : StateAll P (withNewCas s c (touchFn k exp)).1 := opWithNewCas_row s c k _ (hP.touch exp) hs
  split
  · exact StateAll.of_colls_eq rfl h
  · exact h

/-- One step preserves tombstone coherence. -/
theorem step_inv (s : State) (op : Op) (hwf : op.WF) (hs : StateAll P s) : StateAll P (step s op).1 := by
  cases op with
  | clock t => exact StateAll.of_colls_eq rfl hs
  | now n => exact StateAll.of_colls_eq rfl hs
  | add c k exp v json => exact opWithNewCas_row s c k _ (hP.add k exp v _) hs
  | set c k exp pe v raw => exact opWithNewCas_row s c k _ (hP.set k exp pe v _) hs
  | wcas c k exp cas v o => exact opWithNewCas_row s c k _ (hP.wcas k exp cas v o) hs
  | remove c k cas => exact opWithNewCas_row s c k _ (hP.remove k _) hs
  | delete c k => exact opDelete_inv hP s c k hs
  | touch c k exp => exact opTouch_inv hP s c k exp hs
  | incr c k amt d exp => exact opWithNewCas_row s c k _ (hP.incr k amt d exp) hs
  | setx c k sets => exact runShape_inv s _ (wwxShape_all hP.wwx ..) hs
  | rmx c k names cas => exact runShape_inv s _ (wwxShape_all hP.wwx ..) hs
  | updx c k exp cas sets m => exact runShape_inv s _ (shapeUpdateXattrs_all hP.wwx ..) hs
  | wwx c k exp cas v sets dels pe m => exact opWriteWithXattrs_inv hP _ _ _ _ _ _ _ _ _ _ hs
  | wtx c k exp cas sets dels db m => exact opWriteTombstoneWithXattrs_inv hP _ _ _ _ _ _ _ _ _ hs
  | wrx c k exp v sets pe m => exact opWriteResurrectionWithXattrs_inv hP _ _ _ _ _ _ _ _ hs
  | uxdb c k xk exp cas xv m => exact runShape_inv s _ (wwxShape_all hP.wwx ..) hs
  | delx c k names => exact opWithNewCas_row s c k _ (hP.delx k names) hs
  | dsp c k names => exact opWithNewCas_row s c k _ (hP.dsp k names) hs
  | wmeta c k old new exp xs body j d => exact opWriteWithMeta_inv hP s c k old new exp xs body j d hwf hs
  | purge => exact opPurge_inv s hs
  | update c k exp steps => exact opUpdate_inv hP _ _ _ _ _ _ _ _ hs
  | wuwx c k names steps sets dels m cbExp pe => exact opWuwx_inv hP _ _ _ _ _ _ _ _ _ _ _ _ _ _ hs
  | startFeed id c bf dump ko =>
    show StateAll P (opStartFeed s id c bf dump ko).1
    unfold opStartFeed
    split
    · exact hs
    · exact StateAll.of_colls_eq rfl hs
  | drain id =>
    show StateAll P (opDrain s id).1
    unfold opDrain
    split
    · exact hs
    · exact StateAll.of_colls_eq rfl hs
  | fire => exact opFireExpiry_inv hP s hs
  | rb c k names => exact hs
  | lastCas c => exact hs
  | keys c => exact hs
  | expState => exact hs

/-- Every reachable state is coherent: induction over any operation list. -/
theorem run_inv (ops : List Op) : ∀ (s : State), (∀ op ∈ ops, op.WF) → StateAll P s → StateAll P (run s ops).1 := by
  induction ops with
  | nil => intro s _ hs; exact hs
  | cons op tl ih =>
    intro s hwf hs
    simp only [run]
    exact ih _ (fun o ho => hwf o (List.mem_cons_of_mem _ ho)) (step_inv hP s op (hwf op (List.mem_cons_self)) hs)

omit hP in
theorem initState_inv (P : Row → Prop) : StateAll P initState := by
  intro p hp
  simp [initState] at hp
  rcases hp with rfl | rfl | rfl <;> exact DocsAll.nil _

end

end Rosmar
