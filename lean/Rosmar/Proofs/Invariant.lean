/-
  Generic lifting of invariants through every API call, `step` and `run`.

  `StepInvariant I`: `I` is preserved by each primitive transition (a single-row transaction of any row function
  of the family, a WithMeta write, a purge, the expiry sweep, arming the timer, clock changes, feed bookkeeping).
  Then `I` is preserved by every `step` — including the compound read-modify-write loops, which are sequences of
  single-row transactions — and hence holds in every reachable state (`run_inv`).

  `RowInvariant P` (every row-level write function establishes `P` for the row it stores) yields
  `StepInvariant (StateAll P)`.
-/
import Rosmar.Proofs.Lemmas
namespace Rosmar

/-- Well-formed calls: a WithMeta write says "deletion" exactly when it carries no body. -/
def Op.WF : Op → Prop
  | .wmeta _ _ _ _ _ _ body _ d => d = body.isNone
  | _ => True

/-- `Q` holds of every row function run inside a CAS-giving transaction (all of the family except the touch, which
    is followed by arming the timer and is treated as a whole by `StepInvariant.touchOp`). -/
structure TxnFamily (Q : String → RowFn → Prop) : Prop where
  add : ∀ k exp v j, Q k (addRow k exp v j)
  set : ∀ k exp pe v j, Q k (setRow k exp pe v j)
  incr : ∀ k amt d exp, Q k (incrRow k amt d exp)
  wcas : ∀ k exp cas v o, Q k (wcasRow k exp cas v o)
  remove : ∀ k ifCas, Q k (removeRow k ifCas)
  wwx : ∀ k val edits ifCas exp o m, Q k (wwxRow k val edits ifCas exp o m)
  delx : ∀ k names, Q k (delxRow k names)
  dsp : ∀ k names, Q k (dspRow k names)

theorem Family.toTxn {Q : String → RowFn → Prop} (h : Family Q) : TxnFamily Q :=
  { add := h.add, set := h.set, incr := h.incr, wcas := h.wcas, remove := h.remove, wwx := h.wwx, delx := h.delx, dsp := h.dsp }

theorem TxnFamily.mapInv {Q R : String → RowFn → Prop} (h : TxnFamily Q) (f : ∀ k g, Q k g → R k g) : TxnFamily R :=
  { add := fun k e v j => f _ _ (h.add k e v j), set := fun k e p v j => f _ _ (h.set k e p v j),
    incr := fun k a d e => f _ _ (h.incr k a d e), wcas := fun k e c v o => f _ _ (h.wcas k e c v o),
    remove := fun k ic => f _ _ (h.remove k ic), wwx := fun k v ed ic ex o m => f _ _ (h.wwx k v ed ic ex o m),
    delx := fun k n => f _ _ (h.delx k n), dsp := fun k n => f _ _ (h.dsp k n) }

structure StepInvariant (W : Op → Prop) (I : State → Prop) : Prop where
  txn : TxnFamily (fun k f => ∀ s c, I s → I (withNewCas s c (liftRow k f)).1)
  touchOp : ∀ s c k exp, I s → I (opTouch s c k exp).1
  wmeta : ∀ s c k old new exp xs body j d, W (.wmeta c k old new exp xs body j d) → I s → I (opWriteWithMeta s c k old new exp xs body j d).1
  draw : ∀ s, I s → I { s with hlc := hlcNow s.hlc s.phys }
  restart : ∀ s p, W (.restart p) → I s → I (reopen s p)
  purge : ∀ s, W .purge → I s → I (opPurge s).1
  arm : ∀ s e, I s → I { s with expNext := schedAtOrBefore s.expNext e }
  fire : ∀ s, I s → I (opFireExpiry s)
  clock : ∀ s t, I s → I { s with phys := t }
  now : ∀ s n, I s → I { s with now := n }
  feeds : ∀ s fs, I s → I { s with feeds := fs }

/-- Every row function a shape can run satisfies `Q`. -/
def OpShape.All (Q : String → RowFn → Prop) : OpShape → Prop
  | .rejected _ => True
  | .row _ k f => Q k f

theorem wwxShape_all {Q : String → RowFn → Prop} (hQ : ∀ k val edits ifCas exp o m, Q k (wwxRow k val edits ifCas exp o m))
    (c k : String) (val : ValArg) (edits : List XEdit) (ifCas exp : Option Nat) (o : XOpts) (m : List (String × MacroKind)) :
    (wwxShape c k val edits ifCas exp o m).All Q := by
  unfold wwxShape; split <;> simp [OpShape.All, hQ]

theorem shapeWriteWithXattrs_all {Q : String → RowFn → Prop} (hQ : ∀ k val edits ifCas exp o m, Q k (wwxRow k val edits ifCas exp o m))
    (c k : String) (exp cas : Nat) (v : Option String) (sets : List (String × Option String)) (dels : Option (List String))
    (pe : Bool) (m : List (String × MacroKind)) : (shapeWriteWithXattrs c k exp cas v sets dels pe m).All Q := by
  unfold shapeWriteWithXattrs
  split; · trivial
  split; · trivial
  split; · trivial
  split
  · trivial
  · exact wwxShape_all hQ ..

theorem shapeWriteTombstoneWithXattrs_all {Q : String → RowFn → Prop} (hQ : ∀ k val edits ifCas exp o m, Q k (wwxRow k val edits ifCas exp o m))
    (c k : String) (exp cas : Nat) (sets : List (String × Option String)) (dels : Option (List String))
    (db : Bool) (m : List (String × MacroKind)) : (shapeWriteTombstoneWithXattrs c k exp cas sets dels db m).All Q := by
  unfold shapeWriteTombstoneWithXattrs
  split; · trivial
  split; · trivial
  split; · trivial
  split
  · trivial
  · exact wwxShape_all hQ ..

theorem shapeWriteResurrectionWithXattrs_all {Q : String → RowFn → Prop} (hQ : ∀ k val edits ifCas exp o m, Q k (wwxRow k val edits ifCas exp o m))
    (c k : String) (exp : Nat) (v : Option String) (sets : List (String × Option String))
    (pe : Bool) (m : List (String × MacroKind)) : (shapeWriteResurrectionWithXattrs c k exp v sets pe m).All Q := by
  unfold shapeWriteResurrectionWithXattrs
  split
  · trivial
  · split
    · trivial
    · exact wwxShape_all hQ ..

theorem shapeUpdateXattrs_all {Q : String → RowFn → Prop} (hQ : ∀ k val edits ifCas exp o m, Q k (wwxRow k val edits ifCas exp o m))
    (c k : String) (exp cas : Nat) (sets : List (String × Option String)) (m : List (String × MacroKind)) :
    (shapeUpdateXattrs c k exp cas sets m).All Q := by
  unfold shapeUpdateXattrs
  split
  · trivial
  · exact wwxShape_all hQ ..

section
variable {W : Op → Prop} {I : State → Prop} (hI : StepInvariant W I)
include hI

theorem runShape_inv (s : State) (sh : OpShape)
    (h : sh.All (fun k f => ∀ s c, I s → I (withNewCas s c (liftRow k f)).1)) (hs : I s) : I (runShape s sh).1 := by
  cases sh with
  | rejected e => exact hs
  | row c k f => exact h s c hs

theorem opWriteCas_inv (s : State) (c k : String) (exp cas : Nat) (v : Option String) (o : WOpts) (hs : I s) :
    I (opWriteCas s c k exp cas v o).1 := hI.txn.wcas k exp cas v o s c hs

theorem opWriteWithXattrs_inv (s : State) (c k : String) (exp cas : Nat) (v : Option String) (sets : Sets) (dels : Option (List String))
    (pe : Bool) (m : Macros) (hs : I s) : I (opWriteWithXattrs s c k exp cas v sets dels pe m).1 :=
  runShape_inv hI s _ (shapeWriteWithXattrs_all hI.txn.wwx ..) hs

theorem opWriteTombstoneWithXattrs_inv (s : State) (c k : String) (exp cas : Nat) (sets : Sets) (dels : Option (List String))
    (db : Bool) (m : Macros) (hs : I s) : I (opWriteTombstoneWithXattrs s c k exp cas sets dels db m).1 :=
  runShape_inv hI s _ (shapeWriteTombstoneWithXattrs_all hI.txn.wwx ..) hs

theorem opWriteResurrectionWithXattrs_inv (s : State) (c k : String) (exp : Nat) (v : Option String) (sets : Sets)
    (pe : Bool) (m : Macros) (hs : I s) : I (opWriteResurrectionWithXattrs s c k exp v sets pe m).1 :=
  runShape_inv hI s _ (shapeWriteResurrectionWithXattrs_all hI.txn.wwx ..) hs

theorem opUpdate_inv (fuel : Nat) : ∀ (s : State) (c k : String) (exp : Nat) (steps : List UpdStep) (calls : Nat) (seen : List String),
    I s → I (opUpdate fuel s c k exp steps calls seen).1 := by
  induction fuel with
  | zero => intro s c k exp steps calls seen hs; simpa [opUpdate] using hs
  | succ n ih =>
    intro s c k exp steps calls seen hs
    have hw : ∀ (v : Option String) (e cas : Nat), I (opWriteCas s c k e cas v {}).1 :=
      fun v e cas => opWriteCas_inv hI s c k e cas v {} hs
    unfold opUpdate
    simp only
    repeat' (first
      | exact hs
      | exact hw _ _ _
      | (apply ih; first | exact hs | exact hw _ _ _)
      | split)

theorem opWuwx_inv (fuel : Nat) : ∀ (s : State) (c k : String) (names : List String) (steps : List WuStep) (sets : Sets)
    (dels : Option (List String)) (m : Macros) (cbExp : Option Nat) (pe : Bool) (am : Macros) (calls : Nat) (seen : List String),
    I s → I (opWuwx fuel s c k names steps sets dels m cbExp pe am calls seen).1 := by
  induction fuel with
  | zero => intro s c k names steps sets dels m cbExp pe am calls seen hs; simpa [opWuwx] using hs
  | succ n ih =>
    intro s c k names steps sets dels m cbExp pe am calls seen hs
    unfold opWuwx
    simp only
    repeat' (first
      | exact hs
      | exact opWriteTombstoneWithXattrs_inv hI _ _ _ _ _ _ _ _ _ hs
      | exact opWriteResurrectionWithXattrs_inv hI _ _ _ _ _ _ _ _ hs
      | exact opWriteWithXattrs_inv hI _ _ _ _ _ _ _ _ _ _ hs
      | (apply ih; first
          | exact hs
          | exact opWriteTombstoneWithXattrs_inv hI _ _ _ _ _ _ _ _ _ hs
          | exact opWriteResurrectionWithXattrs_inv hI _ _ _ _ _ _ _ _ hs
          | exact opWriteWithXattrs_inv hI _ _ _ _ _ _ _ _ _ _ hs)
      | split)

theorem opSet_inv (s : State) (c k : String) (exp : Nat) (pe : Bool) (v : String) (raw : Bool) (hs : I s) :
    I (opSet s c k exp pe v raw).1 := hI.txn.set k exp pe v _ s c hs

theorem opSubdocWrite_inv (s : State) (c k path : String) (cas : Nat) (v : Option String) (ins : Bool) (hs : I s) :
    I (opSubdocWrite s c k path cas v ins).1 := by
  unfold opSubdocWrite
  split
  · exact hs
  · exact opWriteCas_inv hI _ _ _ _ _ _ _ hs

theorem opTouch_inv (s : State) (c k : String) (exp : Nat) (hs : I s) : I (opTouch s c k exp).1 := hI.touchOp s c k exp hs

omit hI in
theorem inv_ite {p : Prop} [Decidable p] (a b : State × Out) (ha : I a.1) (hb : I b.1) : I (if p then a else b).1 := by
  split <;> assumption

theorem opStartFeed_inv (s : State) (id c : String) (bf : Backfill) (dump ko : Bool) (pfx : String) (hs : I s) :
    I (opStartFeed s id c bf dump ko pfx).1 := by
  unfold opStartFeed
  cases s.coll? c with
  | none => exact hs
  | some x =>
    simp only
    generalize hf : (List.filter (fun g => decide (g.id ≠ id)) s.feeds ++ [_]) = fs1
    by_cases hd : dump = true
    · simp only [hd, if_true]
      generalize hfs2 : List.map _ fs1 = fs2
      exact inv_ite _ _ (opSet_inv hI _ _ _ _ _ _ _ (hI.feeds s fs2 hs)) (hI.feeds s fs2 hs)
    · simp only [hd, if_false]
      exact hI.feeds s fs1 hs

theorem opStopFeed_inv (s : State) (id : String) (hs : I s) : I (opStopFeed s id).1 := by
  unfold opStopFeed
  cases s.feeds.find? (fun f => f.id = id) with
  | none => exact hs
  | some f =>
    simp only
    split
    · exact hs
    · generalize List.map _ s.feeds = fs
      exact inv_ite _ _ (opSet_inv hI _ _ _ _ _ _ _ (hI.feeds s fs hs)) (hI.feeds s fs hs)

theorem opDrain_inv (s : State) (id : String) (hs : I s) : I (opDrain s id).1 := by
  unfold opDrain
  cases s.feeds.find? (fun f => f.id = id) with
  | none => exact hs
  | some f => exact hI.feeds s _ hs

/-- One step preserves the invariant. -/
theorem step_inv (s : State) (op : Op) (hwf : W op) (hs : I s) : I (step s op).1 := by
  cases op with
  | clock t => exact hI.clock s t hs
  | now n => exact hI.now s n hs
  | add c k exp v json => exact hI.txn.add k exp v _ s c hs
  | set c k exp pe v raw => exact hI.txn.set k exp pe v _ s c hs
  | wcas c k exp cas v o => exact hI.txn.wcas k exp cas v o s c hs
  | remove c k cas => exact hI.txn.remove k _ s c hs
  | delete c k => exact hI.txn.remove k _ s c hs
  | touch c k exp => exact opTouch_inv hI s c k exp hs
  | incr c k amt d exp => exact hI.txn.incr k amt d exp s c hs
  | setx c k sets => exact runShape_inv hI s _ (wwxShape_all hI.txn.wwx ..) hs
  | rmx c k names cas => exact runShape_inv hI s _ (wwxShape_all hI.txn.wwx ..) hs
  | updx c k exp cas sets m => exact runShape_inv hI s _ (shapeUpdateXattrs_all hI.txn.wwx ..) hs
  | wwx c k exp cas v sets dels pe m => exact opWriteWithXattrs_inv hI _ _ _ _ _ _ _ _ _ _ hs
  | wtx c k exp cas sets dels db m => exact opWriteTombstoneWithXattrs_inv hI _ _ _ _ _ _ _ _ _ hs
  | wrx c k exp v sets pe m => exact opWriteResurrectionWithXattrs_inv hI _ _ _ _ _ _ _ _ hs
  | uxdb c k xk exp cas xv m => exact runShape_inv hI s _ (wwxShape_all hI.txn.wwx ..) hs
  | delx c k names => exact hI.txn.delx k names s c hs
  | dsp c k names => exact hI.txn.dsp k names s c hs
  | wmeta c k old new exp xs body j d => exact hI.wmeta s c k old new exp xs body j d hwf hs
  | purge => exact hI.purge s hwf hs
  | update c k exp steps => exact opUpdate_inv hI _ _ _ _ _ _ _ _ hs
  | wuwx c k names steps sets dels m cbExp pe => exact opWuwx_inv hI _ _ _ _ _ _ _ _ _ _ _ _ _ _ hs
  | startFeed id c bf dump ko pfx => exact opStartFeed_inv hI s id c bf dump ko pfx hs
  | stopFeed id => exact opStopFeed_inv hI s id hs
  | drain id => exact opDrain_inv hI s id hs
  | fire => exact hI.fire s hs
  | rb c k names => exact hs
  | lastCas c => exact hs
  | keys c => exact hs
  | expState => exact hs
  | draw => exact hI.draw s hs
  | restart p => exact hI.restart s p hwf hs
  | wsd c k path cas v => exact opSubdocWrite_inv hI _ _ _ _ _ _ _ hs
  | sdi c k path cas v => exact opSubdocWrite_inv hI _ _ _ _ _ _ _ hs
  | gsd c k path => exact hs

/-- Every state reachable from a state satisfying the invariant satisfies it: induction over any operation list. -/
theorem run_inv (ops : List Op) : ∀ (s : State), (∀ op ∈ ops, W op) → I s → I (run s ops).1 := by
  induction ops with
  | nil => intro s _ hs; exact hs
  | cons op tl ih =>
    intro s hwf hs
    simp only [run]
    exact ih _ (fun o ho => hwf o (List.mem_cons_of_mem _ ho)) (step_inv hI s op (hwf op (List.mem_cons_self)) hs)

end

/-- The expiry sweep is a sequence of `Delete` transactions between two changes of the timer state: an invariant
    that does not look at the timer state is preserved by it. -/
theorem fire_of_txn {I : State → Prop} (hdel : ∀ k s c, I s → I (withNewCas s c (liftRow k (removeRow k none))).1)
    (hexp : ∀ s e, I s → I { s with expNext := e }) (s : State) (hs : I s) : I (opFireExpiry s) := by
  unfold opFireExpiry
  simp only
  have h0 : I ({ s with expNext := 0 } : State) := hexp s 0 hs
  have hkeys : ∀ (keys : List String) (c : String) (st : State), I st →
      I (keys.foldl (fun st' k => (opDelete st' c k).1) st) := by
    intro keys c
    induction keys with
    | nil => intro st h; exact h
    | cons k tl ih => intro st h; exact ih _ (hdel k st c h)
  have hcolls : ∀ (l : List (String × Coll)) (st : State), I st →
      I (l.foldl (fun st p =>
        match st.coll? p.1 with
        | none => st
        | some x => (dueKeys x.docs st.now).foldl (fun st' k => (opDelete st' p.1 k).1) st) st) := by
    intro l
    induction l with
    | nil => intro st h; exact h
    | cons p tl ih =>
      intro st h
      apply ih
      show I (match st.coll? p.1 with
        | none => st
        | some x => (dueKeys x.docs st.now).foldl (fun st' k => (opDelete st' p.1 k).1) st)
      split
      · exact h
      · exact hkeys _ _ _ h
  have h1 := hcolls (({ s with expNext := 0 } : State).colls.foldr insertCollById []) _ h0
  split
  · exact hexp _ _ h1
  · exact h1

/-! ### Row invariants -/

/-- A unary row invariant: every row-level write function establishes it for the row it stores. -/
structure RowInvariant (P : Row → Prop) : Prop where
  fam : Family (fun _ f => f.Establishes P)
  wmeta : ∀ k old new exp xs body j d, d = body.isNone → (wmetaRow k old new exp xs body j d).Establishes P

theorem opWithNewCas_row {P : Row → Prop} (s : State) (c k : String) (f : RowFn) (hf : f.Establishes P) (hs : StateAll P s) :
    StateAll P (withNewCas s c (liftRow k f)).1 :=
  withNewCas_stateAll (liftRow_preserves hf k) s c hs

theorem opPurge_stateAll {P : Row → Prop} (s : State) (hs : StateAll P s) : StateAll P (opPurge s).1 := by
  intro p hp
  unfold opPurge at hp
  simp only [List.mem_map] at hp
  obtain ⟨q, hq, rfl⟩ := hp
  exact (hs q hq).filter _

theorem opWriteWithMeta_stateAll {P : Row → Prop} (hP : RowInvariant P) (s : State) (c k : String) (old new exp : Nat) (xs : Xattrs)
    (body : Option String) (j d : Bool) (hwf : d = body.isNone) (hs : StateAll P s) :
    StateAll P (opWriteWithMeta s c k old new exp xs body j d).1 := by
  unfold opWriteWithMeta
  split
  · exact hs
  · rename_i x hx
    split
    · exact hs
    · rename_i docs' nid ev out hfn
      have hd' : DocsAll P docs' :=
        liftRow_preserves (hP.wmeta k old new exp xs body j d hwf) k _ _ _ _ _ _ _ _ (hs.coll c x hx) hfn
      have h2 : StateAll P (({ s with nextRowId := nid } : State).setColl c { x with docs := docs' }) :=
        StateAll.setColl (StateAll.of_colls_eq rfl hs) c _ hd'
      split
      · exact StateAll.of_colls_eq rfl h2
      · exact h2

/-- A row invariant is a step invariant. -/
theorem RowInvariant.step {P : Row → Prop} (hP : RowInvariant P) : StepInvariant Op.WF (StateAll P) where
  txn :=
    { add := fun k exp v j s c hs => opWithNewCas_row s c k _ (hP.fam.add k exp v j) hs
      set := fun k exp pe v j s c hs => opWithNewCas_row s c k _ (hP.fam.set k exp pe v j) hs
      incr := fun k a d e s c hs => opWithNewCas_row s c k _ (hP.fam.incr k a d e) hs
      wcas := fun k e cs v o s c hs => opWithNewCas_row s c k _ (hP.fam.wcas k e cs v o) hs
      remove := fun k ic s c hs => opWithNewCas_row s c k _ (hP.fam.remove k ic) hs
      wwx := fun k val ed ic ex o m s c hs => opWithNewCas_row s c k _ (hP.fam.wwx k val ed ic ex o m) hs
      delx := fun k n s c hs => opWithNewCas_row s c k _ (hP.fam.delx k n) hs
      dsp := fun k n s c hs => opWithNewCas_row s c k _ (hP.fam.dsp k n) hs }
  touchOp := fun s c k exp hs => by
    unfold opTouch armOnSuccess
    have h : StateAll P (withNewCas s c (touchFn k exp)).1 := opWithNewCas_row s c k _ (hP.fam.touch k exp) hs
    split
    · exact StateAll.of_colls_eq rfl h
    · exact h
  wmeta := fun s c k old new exp xs body j d hwf hs => opWriteWithMeta_stateAll hP s c k old new exp xs body j d hwf hs
  purge := fun s _ hs => opPurge_stateAll s hs
  draw := fun s hs => StateAll.of_colls_eq rfl hs
  restart := fun s p _ hs => StateAll.of_colls_eq rfl hs
  arm := fun s e hs => StateAll.of_colls_eq rfl hs
  fire := fun s hs => fire_of_txn (fun k s c hs => opWithNewCas_row s c k _ (hP.fam.remove k none) hs)
    (fun s e hs => StateAll.of_colls_eq rfl hs) s hs
  clock := fun s t hs => StateAll.of_colls_eq rfl hs
  now := fun s n hs => StateAll.of_colls_eq rfl hs
  feeds := fun s fs hs => StateAll.of_colls_eq rfl hs

theorem initState_stateAll (P : Row → Prop) : StateAll P initState := by
  intro p hp
  simp [initState] at hp
  rcases hp with rfl | rfl | rfl <;> exact DocsAll.nil _

end Rosmar
