import Rosmar.Gen.TieSqlBase

/-! `WriteCas` (all options) against its three regenerated statements and the appended `AND cas=?` fragment. -/

set_option linter.unusedSimpArgs false

namespace Rosmar.Gen.Sql
open Rosmar Rosmar.Sql

/-! ### WriteCas -/

/-- The statement `WriteCas` chooses, as the Go `if` chain chooses it. -/
def wcasExec (o : WOpts) (cas : Nat) (wasTomb : Bool) (ps : Env) (old : Option SRow) : Res :=
  if o.append then upd_cas_exp_isJSON_revSeqNo_tombstone_value_xattrs__by_cas_collection_key_valueSet.exec ps old
  else if o.addOnly ∨ cas = 0 then
    (if ¬ wasTomb ∧ cas ≠ 0 then
        { ups_cas_collection_exp_isJSON_key_revSeqNo_tombstone_value__set_cas_exp_isJSON_revSeqNo_tombstone_value_xattrsN__if_tombstoneIs1 with
          conflict := ups_cas_collection_exp_isJSON_key_revSeqNo_tombstone_value__set_cas_exp_isJSON_revSeqNo_tombstone_value_xattrsN__if_tombstoneIs1.conflict.map (fun p => (p.1, .and p.2 frag_and_cas)) }
      else ups_cas_collection_exp_isJSON_key_revSeqNo_tombstone_value__set_cas_exp_isJSON_revSeqNo_tombstone_value_xattrsN__if_tombstoneIs1).exec ps old
  else upd_cas_exp_isJSON_revSeqNo_tombstone_value_xattrs__by_cas_collection_key.exec ps old

def wcasEnv (cid : Nat) (k : String) (exp cas : Nat) (val : Option String) (o : WOpts) (newCas now : Nat) (old : Option Row) : Env :=
  env [("$value", encV val), ("$cas", .int newCas), ("c.id", .int cid), ("key", .text k), ("cas", .int cas),
       ("exp", .int (absExp now exp)), ("$isJSON", ofBool ((!(o.raw || o.append)) && val.isSome)),
       ("$revSeqNo", .int ((match old with | some r => r.rev | none => 0) + 1)), ("$tombstone", ofBool val.isNone)]

/-- What `WriteCas` read into `wasTombstone` before choosing its statement. -/
def wasTomb : Option Row → Bool
  | some r => r.tomb
  | none => false

/-- `WriteCas`, whenever it reaches its `Exec` (it returns before that only for a missing key with a non-zero CAS). -/
theorem tie_wcas (cid : Nat) (k : String) (exp cas : Nat) (val : Option String) (o : WOpts) (newCas now : Nat) (old : Option Row)
    (hreach : old.isSome ∨ cas = 0) :
    wcasExec o cas (wasTomb old) (wcasEnv cid k exp cas val o newCas now old) (old.map (enc cid k))
      = match wcasRow k exp cas val o newCas now old with
        | .inr (some r', _, _) => { row := some (enc cid k r'), affected := 1 }
        | _ => { row := old.map (enc cid k), affected := 0 } := by
  cases old with
  | none =>
    have hc : cas = 0 := by simpa using hreach
    subst hc
    cases val <;> cases ha : o.append <;> cases hr : o.raw <;> cases hao : o.addOnly <;>
      simp [wasTomb, wcasExec, wcasEnv, wcasRow, ha, hr, hao, upd_cas_exp_isJSON_revSeqNo_tombstone_value_xattrs__by_cas_collection_key_valueSet, ups_cas_collection_exp_isJSON_key_revSeqNo_tombstone_value__set_cas_exp_isJSON_revSeqNo_tombstone_value_xattrsN__if_tombstoneIs1, Update.exec,
        Upsert.exec, insertRow, SRow.set, E.eval, env, enc, encV, encX, ofBool, defaultRow]
  | some r =>
    obtain ⟨rowid, value, rcas, rexp, risJSON, xattrs, tomb, rev⟩ := r
    by_cases hcas : rcas = cas
    · subst hcas
      by_cases hz : rcas = 0
      · subst hz
        cases val <;> cases ha : o.append <;> cases hr : o.raw <;> cases hao : o.addOnly <;> cases tomb <;> cases value <;>
          simp [wasTomb, wcasExec, wcasEnv, wcasRow, ha, hr, hao, upd_cas_exp_isJSON_revSeqNo_tombstone_value_xattrs__by_cas_collection_key_valueSet, upd_cas_exp_isJSON_revSeqNo_tombstone_value_xattrs__by_cas_collection_key,
            ups_cas_collection_exp_isJSON_key_revSeqNo_tombstone_value__set_cas_exp_isJSON_revSeqNo_tombstone_value_xattrsN__if_tombstoneIs1, frag_and_cas, Update.exec, Upsert.exec, applySets, SRow.set, SRow.get, E.eval,
            env, enc, encV, encX, ofBool, SV.truthy, SV.same, SV.asText]
      · cases val <;> cases ha : o.append <;> cases hr : o.raw <;> cases hao : o.addOnly <;> cases tomb <;> cases value <;>
          simp [wasTomb, wcasExec, wcasEnv, wcasRow, ha, hr, hao, hz, upd_cas_exp_isJSON_revSeqNo_tombstone_value_xattrs__by_cas_collection_key_valueSet, upd_cas_exp_isJSON_revSeqNo_tombstone_value_xattrs__by_cas_collection_key,
            ups_cas_collection_exp_isJSON_key_revSeqNo_tombstone_value__set_cas_exp_isJSON_revSeqNo_tombstone_value_xattrsN__if_tombstoneIs1, frag_and_cas, Update.exec, Upsert.exec, applySets, SRow.set, SRow.get, E.eval,
            env, enc, encV, encX, ofBool, SV.truthy, SV.same, SV.asText]
    · by_cases hz : cas = 0
      · subst hz
        cases val <;> cases ha : o.append <;> cases hr : o.raw <;> cases hao : o.addOnly <;> cases tomb <;> cases value <;>
          simp [wasTomb, wcasExec, wcasEnv, wcasRow, ha, hr, hao, hcas, upd_cas_exp_isJSON_revSeqNo_tombstone_value_xattrs__by_cas_collection_key_valueSet, upd_cas_exp_isJSON_revSeqNo_tombstone_value_xattrs__by_cas_collection_key,
            ups_cas_collection_exp_isJSON_key_revSeqNo_tombstone_value__set_cas_exp_isJSON_revSeqNo_tombstone_value_xattrsN__if_tombstoneIs1, frag_and_cas, Update.exec, Upsert.exec, applySets, SRow.set, SRow.get, E.eval,
            env, enc, encV, encX, ofBool, SV.truthy, SV.same, SV.asText]
      · cases val <;> cases ha : o.append <;> cases hr : o.raw <;> cases hao : o.addOnly <;> cases tomb <;> cases value <;>
          simp [wasTomb, wcasExec, wcasEnv, wcasRow, ha, hr, hao, hcas, hz, upd_cas_exp_isJSON_revSeqNo_tombstone_value_xattrs__by_cas_collection_key_valueSet, upd_cas_exp_isJSON_revSeqNo_tombstone_value_xattrs__by_cas_collection_key,
            ups_cas_collection_exp_isJSON_key_revSeqNo_tombstone_value__set_cas_exp_isJSON_revSeqNo_tombstone_value_xattrsN__if_tombstoneIs1, frag_and_cas, Update.exec, Upsert.exec, applySets, SRow.set, SRow.get, E.eval,
            env, enc, encV, encX, ofBool, SV.truthy, SV.same, SV.asText]

end Rosmar.Gen.Sql
