import Rosmar.Gen.TieSqlBase

/-! Every regenerated UPDATE pins `collection` and `key`; every regenerated INSERT addresses them and no conflict arm assigns them. Kept apart from
`TieSqlBase` so that a statement whose shape (and therefore name) changes only breaks the modules that mention it. -/

set_option linter.unusedSimpArgs false

namespace Rosmar.Gen.Sql
open Rosmar Rosmar.Sql

/-- Every regenerated UPDATE on `documents` pins both `collection` (to the Go expression `c.id`) and `key` (to `key`). -/
theorem updates_pin_collection_and_key :
    ∀ u ∈ [upd_cas_revSeqNo_xattrs__by_collection_key, upd_cas_exp0_isJSON0_revSeqNo_tombstone1_valueN_xattrs__by_collection_key, upd_exp_revSeqNo__by_collection_key,
           upd_cas_exp_isJSON_revSeqNo_tombstone_value_xattrs__by_cas_collection_key_valueSet, upd_cas_exp_isJSON_revSeqNo_tombstone_value_xattrs__by_cas_collection_key, upd_cas_exp_isJSON_revSeqNo_tombstone0_value_xattrs__by_collection_key, upd_cas_exp0_isJSON0_revSeqNo_tombstone1_valueN_xattrs__by_collection_key],
      u.cond.pins .collection "c.id" = true ∧ u.cond.pins .key "key" = true := by
  decide

/-- Every regenerated INSERT gives `collection` the value of `c.id` and `key` the key of the call; none writes `collection`
or `key` in its conflict arm. -/
theorem upserts_address_collection_and_key :
    (∀ i ∈ [ups_cas_collection_exp_isJSON_key_revSeqNo_tombstone_value__set_cas_exp_isJSON_revSeqNo_tombstone_value_xattrsN__if_tombstoneIs1, ins_cas_collection_exp_isJSON_key_revSeqNo_value_xattrs, ups_cas_collection_exp_isJSON_key_revSeqNo_value__set_cas_exp_isJSON_revSeqNo_tombstone0_value_xattrsN__if_tombstoneNot0],
        (match i.valueOf .collection, i.valueOf .key with
          | some (.par "c.id"), some (.par "key") => true | _, _ => false) = true) ∧
    ((match ups_cas_collection_exp_isJSON_key_revSeqNo_tombstone_value_xattrs__set_cas_exp_isJSON_revSeqNo_tombstone_value_xattrs__if_collection_key.valueOf .collection, ups_cas_collection_exp_isJSON_key_revSeqNo_tombstone_value_xattrs__set_cas_exp_isJSON_revSeqNo_tombstone_value_xattrs__if_collection_key.valueOf .key with
          | some (.par "c.id"), some (.par "e.key") => true | _, _ => false) = true) ∧
    (∀ i ∈ [ups_cas_collection_exp_isJSON_key_revSeqNo_tombstone_value__set_cas_exp_isJSON_revSeqNo_tombstone_value_xattrsN__if_tombstoneIs1, ins_cas_collection_exp_isJSON_key_revSeqNo_value_xattrs, ups_cas_collection_exp_isJSON_key_revSeqNo_value__set_cas_exp_isJSON_revSeqNo_tombstone0_value_xattrsN__if_tombstoneNot0, ups_cas_collection_exp_isJSON_key_revSeqNo_tombstone_value_xattrs__set_cas_exp_isJSON_revSeqNo_tombstone_value_xattrs__if_collection_key],
        (match i.conflict with
          | some (sets, _) => sets.all (fun p => p.1 != .collection && p.1 != .key)
          | none => true) = true) := by
  decide

end Rosmar.Gen.Sql
