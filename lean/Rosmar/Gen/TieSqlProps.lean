import Rosmar.Gen.TieSqlAdd
import Rosmar.Gen.TieSqlWcas
import Rosmar.Gen.TieSqlRemove
import Rosmar.Gen.TieSqlSet

/-! Properties read directly off the regenerated SQL (no model row function in the statement): what the statements in /repo do to
*any* stored row, for all arguments.  C06: the insert-style statements never touch a live row.  C02: the conditional UPDATE applies
exactly when the CAS is current.  C05: every statement leaves the row coherent (tombstone flag ⇔ no body), makes a tombstone of a
deleted row with expiry 0, and drops the tombstone's xattrs when it gives it a body.  C17: every statement that writes adds one to
`revSeqNo` (given the `revSeqNo + 1` the Go code passes). -/

set_option linter.unusedSimpArgs false

namespace Rosmar.Gen.Sql
open Rosmar Rosmar.Sql

/-- Tombstone coherence of a stored row. -/
def coherent (r : SRow) : Prop :=
  (r.tombstone = .int 1 ∧ r.value = .null) ∨ (r.tombstone = .int 0 ∧ r.value ≠ .null)

theorem enc_coherent (cid : Nat) (k : String) (r : Row) (h : r.tomb = r.value.isNone) : coherent (enc cid k r) := by
  cases hv : r.value <;> simp [hv] at h <;> simp [coherent, enc, encV, ofBool, h, hv]

/-! ### C06 -/

/-- `Add` / `AddRaw`: the upsert leaves a live row exactly as it is, whatever is being added. -/
theorem sql_add_never_touches_a_live_row (ps : Env) (r : SRow) (hlive : r.tombstone = .int 0) :
    ups_cas_collection_exp_isJSON_key_revSeqNo_value__set_cas_exp_isJSON_revSeqNo_tombstone0_value_xattrsN__if_tombstoneNot0.exec ps (some r) = { row := some r, affected := 0 } := by
  simp [ups_cas_collection_exp_isJSON_key_revSeqNo_value__set_cas_exp_isJSON_revSeqNo_tombstone0_value_xattrsN__if_tombstoneNot0, Upsert.exec, E.eval, SRow.get, hlive, ofBool, SV.truthy, SV.same]

/-- `WriteCas` with `AddOnly` or CAS 0: the statement chosen (with or without the appended `AND cas=?`) leaves a live row as it is. -/
theorem sql_wcas_insert_never_touches_a_live_row (o : WOpts) (cas : Nat) (wasTomb : Bool) (ps : Env) (r : SRow)
    (hins : o.append = false ∧ (o.addOnly = true ∨ cas = 0)) (hlive : r.tombstone = .int 0) :
    wcasExec o cas wasTomb ps (some r) = { row := some r, affected := 0 } := by
  obtain ⟨ha, hi⟩ := hins
  have hi' : (o.addOnly = true ∨ cas = 0) := hi
  unfold wcasExec
  simp only [ha, hi', Bool.false_eq_true, if_false, if_true]
  split
  · simp only [ups_cas_collection_exp_isJSON_key_revSeqNo_tombstone_value__set_cas_exp_isJSON_revSeqNo_tombstone_value_xattrsN__if_tombstoneIs1, Option.map, Upsert.exec, E.eval, SRow.get, hlive, ofBool, SV.same]
    generalize (frag_and_cas.eval ps r) = y
    cases y with
    | null => simp [SV.truthy]
    | int m => cases m <;> simp [SV.truthy]
    | text _ => simp [SV.truthy]
  · simp [ups_cas_collection_exp_isJSON_key_revSeqNo_tombstone_value__set_cas_exp_isJSON_revSeqNo_tombstone_value_xattrsN__if_tombstoneIs1, Upsert.exec, E.eval, SRow.get, hlive, ofBool, SV.truthy, SV.same]

/-! ### C02 -/

/-- The regular (non-append, non-insert) `WriteCas` UPDATE applies to the addressed row exactly when its CAS is the one supplied. -/
theorem sql_wcas_update_applies_iff_cas_current (cid : Nat) (k : String) (cas : Nat) (ps : Env) (r : Row)
    (hc : ps "c.id" = .int cid) (hk : ps "key" = .text k) (hcas : ps "cas" = .int cas) :
    (upd_cas_exp_isJSON_revSeqNo_tombstone_value_xattrs__by_cas_collection_key.exec ps (some (enc cid k r))).affected = (if r.cas = cas then 1 else 0) := by
  by_cases h : r.cas = cas <;>
  simp [upd_cas_exp_isJSON_revSeqNo_tombstone_value_xattrs__by_cas_collection_key, Update.exec, E.eval, SRow.get, enc, hc, hk, hcas, ofBool, SV.truthy, SV.same, h]

/-- … and a row it does not apply to is left exactly as it was. -/
theorem sql_wcas_update_stale_cas_changes_nothing (cid : Nat) (k : String) (cas : Nat) (ps : Env) (r : Row)
    (hc : ps "c.id" = .int cid) (hk : ps "key" = .text k) (hcas : ps "cas" = .int cas) (hne : r.cas ≠ cas) :
    upd_cas_exp_isJSON_revSeqNo_tombstone_value_xattrs__by_cas_collection_key.exec ps (some (enc cid k r)) = { row := some (enc cid k r), affected := 0 } := by
  simp [upd_cas_exp_isJSON_revSeqNo_tombstone_value_xattrs__by_cas_collection_key, Update.exec, E.eval, SRow.get, enc, hc, hk, hcas, ofBool, SV.truthy, SV.same, hne]

/-! ### C05 -/

/-- An UPDATE whose condition accepts the row rewrites it with its SET list. -/
theorem update_applies (u : Update) (ps : Env) (r : SRow) (h : (u.cond.eval ps r).truthy = true) :
    u.exec ps (some r) = { row := some (applySets ps r u.sets r), affected := 1 } := by
  simp [Update.exec, h]

/-- `Remove` / `Delete`: whatever the row was, the UPDATE makes it a coherent tombstone without expiry. -/
theorem sql_remove_makes_a_tombstone (cid : Nat) (k : String) (ps : Env) (r : Row)
    (hc : ps "c.id" = .int cid) (hk : ps "key" = .text k) :
    (upd_cas_exp0_isJSON0_revSeqNo_tombstone1_valueN_xattrs__by_collection_key.exec ps (some (enc cid k r))).affected = 1 ∧
    ∀ r', (upd_cas_exp0_isJSON0_revSeqNo_tombstone1_valueN_xattrs__by_collection_key.exec ps (some (enc cid k r))).row = some r' →
      coherent r' ∧ r'.value = .null ∧ r'.exp = .int 0 ∧ r'.isJSON = .int 0 := by
  have h : (upd_cas_exp0_isJSON0_revSeqNo_tombstone1_valueN_xattrs__by_collection_key.cond.eval ps (enc cid k r)).truthy = true := by
    simp [upd_cas_exp0_isJSON0_revSeqNo_tombstone1_valueN_xattrs__by_collection_key, E.eval, SRow.get, enc, hc, hk, ofBool, SV.same, SV.truthy]
  rw [update_applies _ _ _ h]
  refine ⟨rfl, ?_⟩
  intro r' hr
  simp only [Option.some.injEq] at hr
  subst hr
  simp [upd_cas_exp0_isJSON0_revSeqNo_tombstone1_valueN_xattrs__by_collection_key, applySets, SRow.set, E.eval, coherent]

/-- `DeleteWithXattrs` likewise. -/
theorem sql_delx_makes_a_tombstone (cid : Nat) (k : String) (ps : Env) (r : Row)
    (hc : ps "c.id" = .int cid) (hk : ps "key" = .text k) :
    (upd_cas_exp0_isJSON0_revSeqNo_tombstone1_valueN_xattrs__by_collection_key.exec ps (some (enc cid k r))).affected = 1 ∧
    ∀ r', (upd_cas_exp0_isJSON0_revSeqNo_tombstone1_valueN_xattrs__by_collection_key.exec ps (some (enc cid k r))).row = some r' →
      coherent r' ∧ r'.value = .null ∧ r'.exp = .int 0 := by
  have h : (upd_cas_exp0_isJSON0_revSeqNo_tombstone1_valueN_xattrs__by_collection_key.cond.eval ps (enc cid k r)).truthy = true := by
    simp [upd_cas_exp0_isJSON0_revSeqNo_tombstone1_valueN_xattrs__by_collection_key, E.eval, SRow.get, enc, hc, hk, ofBool, SV.same, SV.truthy]
  rw [update_applies _ _ _ h]
  refine ⟨rfl, ?_⟩
  intro r' hr
  simp only [Option.some.injEq] at hr
  subst hr
  simp [upd_cas_exp0_isJSON0_revSeqNo_tombstone1_valueN_xattrs__by_collection_key, applySets, SRow.set, E.eval, coherent]

/-- `Add` over a tombstone: the row becomes live and coherent, **without any of the tombstone's xattrs**, and its revision goes up by one. -/
theorem sql_add_resurrects_cleanly (ps : Env) (r : SRow) (v : String) (n : Nat)
    (htomb : r.tombstone = .int 1) (hval : ps "val" = .text v) (hrev : r.revSeqNo = .int n) :
    (ups_cas_collection_exp_isJSON_key_revSeqNo_value__set_cas_exp_isJSON_revSeqNo_tombstone0_value_xattrsN__if_tombstoneNot0.exec ps (some r)).affected = 1 ∧
    ∀ r', (ups_cas_collection_exp_isJSON_key_revSeqNo_value__set_cas_exp_isJSON_revSeqNo_tombstone0_value_xattrsN__if_tombstoneNot0.exec ps (some r)).row = some r' →
      coherent r' ∧ r'.xattrs = .null ∧ r'.revSeqNo = .int (n + 1) := by
  have h : ups_cas_collection_exp_isJSON_key_revSeqNo_value__set_cas_exp_isJSON_revSeqNo_tombstone0_value_xattrsN__if_tombstoneNot0.exec ps (some r)
      = { row := some (applySets ps r (ups_cas_collection_exp_isJSON_key_revSeqNo_value__set_cas_exp_isJSON_revSeqNo_tombstone0_value_xattrsN__if_tombstoneNot0.conflict.get!).1 r), affected := 1 } := by
    simp [ups_cas_collection_exp_isJSON_key_revSeqNo_value__set_cas_exp_isJSON_revSeqNo_tombstone0_value_xattrsN__if_tombstoneNot0, Upsert.exec, E.eval, SRow.get, htomb, ofBool, SV.same, SV.truthy]
  rw [h]
  refine ⟨rfl, ?_⟩
  intro r' hr
  simp only [Option.some.injEq] at hr
  subst hr
  simp [ups_cas_collection_exp_isJSON_key_revSeqNo_value__set_cas_exp_isJSON_revSeqNo_tombstone0_value_xattrsN__if_tombstoneNot0, applySets, SRow.set, SRow.get, E.eval, coherent, hval, hrev]

/-- `_set` over any existing row: live, coherent (the statement sets `tombstone=0` next to a non-NULL body). -/
theorem sql_set_makes_live (cid : Nat) (k : String) (ps : Env) (r : Row) (v : String)
    (hc : ps "c.id" = .int cid) (hk : ps "key" = .text k) (hval : ps "val" = .text v) :
    (upd_cas_exp_isJSON_revSeqNo_tombstone0_value_xattrs__by_collection_key.exec ps (some (enc cid k r))).affected = 1 ∧
    ∀ r', (upd_cas_exp_isJSON_revSeqNo_tombstone0_value_xattrs__by_collection_key.exec ps (some (enc cid k r))).row = some r' → coherent r' ∧ r'.value = .text v := by
  have h : (upd_cas_exp_isJSON_revSeqNo_tombstone0_value_xattrs__by_collection_key.cond.eval ps (enc cid k r)).truthy = true := by
    simp [upd_cas_exp_isJSON_revSeqNo_tombstone0_value_xattrs__by_collection_key, E.eval, SRow.get, enc, hc, hk, ofBool, SV.same, SV.truthy]
  rw [update_applies _ _ _ h]
  refine ⟨rfl, ?_⟩
  intro r' hr
  simp only [Option.some.injEq] at hr
  subst hr
  simp [upd_cas_exp_isJSON_revSeqNo_tombstone0_value_xattrs__by_collection_key, applySets, SRow.set, E.eval, coherent, hval]

theorem update_row_cases (u : Update) (ps : Env) (r r' : SRow) (h : (u.exec ps (some r)).row = some r') :
    r' = r ∨ ((u.cond.eval ps r).truthy = true ∧ r' = applySets ps r u.sets r) := by
  unfold Update.exec at h
  by_cases hc : (u.cond.eval ps r).truthy = true
  · simp [hc] at h; exact Or.inr ⟨hc, h.symm⟩
  · simp [hc] at h; exact Or.inl h.symm

theorem upsert_row_cases (i : Upsert) (ps : Env) (r r' : SRow) (sets : List (Col × E)) (cond : E)
    (hcf : i.conflict = some (sets, cond)) (h : (i.exec ps (some r)).row = some r') :
    r' = r ∨ ((cond.eval ps r).truthy = true ∧ r' = applySets ps r sets r) := by
  unfold Upsert.exec at h
  simp only [hcf] at h
  by_cases hc : (cond.eval ps r).truthy = true
  · simp [hc] at h; exact Or.inr ⟨hc, h.symm⟩
  · simp [hc] at h; exact Or.inl h.symm

/-- The conflict arm of the regenerated `WriteCas` upsert. -/
def wcasConflictSets : List (Col × E) := match ups_cas_collection_exp_isJSON_key_revSeqNo_tombstone_value__set_cas_exp_isJSON_revSeqNo_tombstone_value_xattrsN__if_tombstoneIs1.conflict with | some p => p.1 | none => []
def wcasConflictCond : E := match ups_cas_collection_exp_isJSON_key_revSeqNo_tombstone_value__set_cas_exp_isJSON_revSeqNo_tombstone_value_xattrsN__if_tombstoneIs1.conflict with | some p => p.2 | none => .lit .null

/-- Every `WriteCas` statement, applied, leaves a coherent row, provided the Go code passes `raw == nil` for the tombstone flag. -/
theorem sql_wcas_keeps_coherence (o : WOpts) (cas : Nat) (wasTomb : Bool) (ps : Env) (cid : Nat) (k : String) (r : Row)
    (val : Option String) (hv : ps "$value" = encV val) (ht : ps "$tombstone" = ofBool val.isNone) (hcoh : r.tomb = r.value.isNone) :
    ∀ r', (wcasExec o cas wasTomb ps (some (enc cid k r))).row = some r' → coherent r' := by
  intro r' h
  have hold := enc_coherent cid k r hcoh
  unfold wcasExec at h
  split at h
  · -- append
    rcases update_row_cases _ _ _ _ h with rfl | ⟨hc, rfl⟩
    · exact hold
    · have hnn := truthy_conjuncts ps (enc cid k r) _ hc (.notNull (.col .value)) (by simp [upd_cas_exp_isJSON_revSeqNo_tombstone_value_xattrs__by_cas_collection_key_valueSet, E.conjuncts])
      cases val with
      | none => simp [upd_cas_exp_isJSON_revSeqNo_tombstone_value_xattrs__by_cas_collection_key_valueSet, applySets, SRow.set, SRow.get, E.eval, coherent, hv, ht, encV, ofBool, SV.asText]
      | some b =>
        cases hvv : (enc cid k r).value with
        | null => simp [E.eval, SRow.get, hvv, ofBool, SV.truthy] at hnn
        | int m => simp [upd_cas_exp_isJSON_revSeqNo_tombstone_value_xattrs__by_cas_collection_key_valueSet, applySets, SRow.set, SRow.get, E.eval, coherent, hv, ht, encV, ofBool, SV.asText, hvv]
        | text t => simp [upd_cas_exp_isJSON_revSeqNo_tombstone_value_xattrs__by_cas_collection_key_valueSet, applySets, SRow.set, SRow.get, E.eval, coherent, hv, ht, encV, ofBool, SV.asText, hvv]
  · split at h
    · -- insert-style
      split at h
      · rcases upsert_row_cases _ ps (enc cid k r) r' wcasConflictSets (.and wcasConflictCond frag_and_cas) rfl h with rfl | ⟨_, rfl⟩
        · exact hold
        · cases val <;> simp [wcasConflictSets, ups_cas_collection_exp_isJSON_key_revSeqNo_tombstone_value__set_cas_exp_isJSON_revSeqNo_tombstone_value_xattrsN__if_tombstoneIs1, applySets, SRow.set, SRow.get, E.eval, coherent, hv, ht, encV, ofBool]
      · rcases upsert_row_cases _ ps (enc cid k r) r' wcasConflictSets wcasConflictCond rfl h with rfl | ⟨_, rfl⟩
        · exact hold
        · cases val <;> simp [wcasConflictSets, ups_cas_collection_exp_isJSON_key_revSeqNo_tombstone_value__set_cas_exp_isJSON_revSeqNo_tombstone_value_xattrsN__if_tombstoneIs1, applySets, SRow.set, SRow.get, E.eval, coherent, hv, ht, encV, ofBool]
    · -- regular update
      rcases update_row_cases _ _ _ _ h with rfl | ⟨_, rfl⟩
      · exact hold
      · cases val <;> simp [upd_cas_exp_isJSON_revSeqNo_tombstone_value_xattrs__by_cas_collection_key, applySets, SRow.set, SRow.get, E.eval, coherent, hv, ht, encV, ofBool]

end Rosmar.Gen.Sql
