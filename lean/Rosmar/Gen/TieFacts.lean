import Rosmar.Gen.Facts

/-! The regenerated SQL statement table: every statement on `documents` is scoped by `collection`, except the bucket-wide ones the model
also treats as bucket-wide. -/

namespace Rosmar.Gen

/-- The statements on `documents` that are not restricted to one collection. -/
def unscopedStatements : List (String × String) :=
  (documentStatements.filter (fun s => !s.2.2.2)).map (fun s => (s.1, s.2.1))

/-- Only the bucket-wide purge and the bucket-wide "next expiry" query (both bucket-level in the model too: `opPurge`,
`nextExp`) and the bucket-wide view/queries over `$_keyspace` are allowed to be unscoped. -/
def allowedUnscoped : List (String × String) :=
  [("Bucket.PurgeTombstones", "DELETE"), ("Bucket.nextExpiration", "SELECT"),
   -- the view read joins `mapped` (restricted to one view, which belongs to one collection) with `documents` by row id
   ("Collection.getViewRows", "SELECT")]

theorem tie_statements_scoped : unscopedStatements = allowedUnscoped := by decide

end Rosmar.Gen
