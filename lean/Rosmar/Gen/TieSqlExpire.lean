import Rosmar.Gen.TieSqlBase
import Rosmar.Feed

/-! The model's expiry sweep deletes exactly the keys the regenerated statement of `expireDocuments` selects (`exp > 0 AND exp <= now`); the next deadline ranges over `exp > 0`. -/

set_option linter.unusedSimpArgs false

namespace Rosmar.Gen.Sql
open Rosmar Rosmar.Sql

/-! ### Expiry sweep: `exp > 0 AND exp <= now`; next deadline: `exp > 0` -/

theorem tie_expire_pred (cid : Nat) (k : String) (r : Row) (now : Nat) :
    sel_by_collection_expLe_expPos.selects (env [("$where.collection", .int cid), ("$where.exp", .int now)]) (enc cid k r)
      = decide (r.exp > 0 ∧ r.exp ≤ now) := by
  by_cases h1 : 0 < r.exp <;> by_cases h2 : r.exp ≤ now <;>
  simp [sel_by_collection_expLe_expPos, Select.selects, E.eval, SRow.get, env, enc, ofBool, SV.truthy, SV.same, h1, h2]

theorem tie_dueKeys (cid : Nat) (docs : Docs) (now : Nat) :
    dueKeys docs now
      = ((docs.filter (fun d =>
          sel_by_collection_expLe_expPos.selects (env [("$where.collection", .int cid), ("$where.exp", .int now)]) (enc cid d.1 d.2))).foldr
            insertByExp []).map (·.1) := by
  unfold dueKeys
  congr 2
  apply List.filter_congr
  intro d _
  rw [tie_expire_pred]

theorem tie_nextexp_pred (cid : Nat) (k : String) (r : Row) :
    sel_by_expPos.selects (env []) (enc cid k r) = decide (r.exp > 0) := by
  by_cases h1 : 0 < r.exp <;>
  simp [sel_by_expPos, Select.selects, E.eval, SRow.get, env, enc, ofBool, SV.truthy, h1]

end Rosmar.Gen.Sql
