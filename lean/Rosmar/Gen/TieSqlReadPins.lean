import Rosmar.Gen.TieSqlBase

/-! WHERE clauses regenerated from /repo (`Gen/Sql.lean`, `…_WHERE_n`): every read of one key pins `collection` and `key`, every scan pins `collection`; a statement that pins a column never reads a row with another value in it. -/

set_option linter.unusedSimpArgs false

namespace Rosmar.Gen.Sql
open Rosmar Rosmar.Sql

/-- A statement whose WHERE clause pins a column never reads a row with another value in that column. -/
theorem select_other_row (q : Select) (ps : Env) (r : SRow) (c : Col) (g : String) (hp : q.cond.pins c g = true)
    (hne : (r.get c).same (ps g) = false) : q.selects ps r = false := by
  unfold Select.selects
  cases h : (q.cond.eval ps r).truthy with
  | false => rfl
  | true =>
    have := pins_sound ps r q.cond c g hp h
    simp [hne] at this

/-- Over the whole table: a read that pins a column returns no row with another value in it. -/
theorem read_table_only (q : Select) (ps : Env) (t : List SRow) (c : Col) (g : String) (hp : q.cond.pins c g = true) :
    ∀ r ∈ q.readTable ps t, (r.get c).same (ps g) = true := by
  intro r hr
  simp only [Select.readTable, List.mem_filter] at hr
  cases h : (r.get c).same (ps g) with
  | true => rfl
  | false =>
    have := select_other_row q ps r c g hp h
    simp [this] at hr

/-- Every read of one key (before a write, or on its own) pins both `collection` and `key`. -/
theorem point_reads_pin_collection_and_key :
    ∀ q ∈ [Collection_DeleteSubDocPaths_WHERE_0, Collection_DeleteWithXattrs_WHERE_0, Collection_GetExpiry_WHERE_0,
           Collection_WriteCas_WHERE_0, Collection_WriteCas_WHERE_1, Collection__set_WHERE_0, Collection_add_WHERE_0,
           Collection_exists_WHERE_0, Collection_getRaw_WHERE_0, Collection_getRawWithXattrs_WHERE_0, Collection_getRawXattrs_WHERE_0,
           Collection_isTombstone_WHERE_0, Collection_remove_WHERE_0, Collection_set_WHERE_0, Collection_writeWithMeta_WHERE_0,
           Collection_writeWithXattrs_WHERE_0],
      q.cond.pins .collection "$where.collection" = true ∧ q.cond.pins .key "$where.key" = true := by
  decide

/-- Every scan (backfill, expiry sweep, `$_keyspace`, view update) pins `collection`. -/
theorem scans_pin_collection :
    ∀ q ∈ [Collection_enqueueBackfillEvents_WHERE_0, Collection_expireDocuments_WHERE_0, Collection_prepareQuery_WHERE_0,
           Collection_updateView_WHERE_0, Collection_updateView_WHERE_1],
      q.cond.pins .collection "$where.collection" = true := by
  decide

end Rosmar.Gen.Sql
