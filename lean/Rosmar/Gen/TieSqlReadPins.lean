import Rosmar.Gen.TieSqlBase

/-! WHERE clauses regenerated from /repo (`Gen/Sql.lean`, `…_WHERE_n`): every read of one key pins `collection` and `key`, every scan pins `collection`; a statement that pins a column never reads a row with another value in it. -/

set_option linter.unusedSimpArgs false

namespace Rosmar.Gen.Sql
open Rosmar Rosmar.Sql

/-- A statement whose WHERE clause pins a column never reads a row with another value in that column. -/
theorem select_other_row (q : Select) (ps : Env) (r : SRow) (c : Col) (g : String) (hp : q.cond.pins c g = true)
    (hne : (r.get c).same (ps g) = false) : q.selects ps r = false := by
  unfold Select.selects
  cases h : (q.cond.eval ps r).truthy with
  | false => rfl
  | true =>
    have := pins_sound ps r q.cond c g hp h
    simp [hne] at this

/-- Over the whole table: a read that pins a column returns no row with another value in it. -/
theorem read_table_only (q : Select) (ps : Env) (t : List SRow) (c : Col) (g : String) (hp : q.cond.pins c g = true) :
    ∀ r ∈ q.readTable ps t, (r.get c).same (ps g) = true := by
  intro r hr
  simp only [Select.readTable, List.mem_filter] at hr
  cases h : (r.get c).same (ps g) with
  | true => rfl
  | false =>
    have := select_other_row q ps r c g hp h
    simp [this] at hr

/-- The shapes of statement / WHERE clause that `TieSql*.lean` tie to the model. -/
def knownShapes : List String :=
  ["frag_and_cas", "ins_cas_collection_exp_isJSON_key_revSeqNo_value_xattrs", "sel_by_casGe_collection__order_cas", "sel_by_casGt_collection",
   "sel_by_casGt_collection_or", "sel_by_collection_expLe_expPos", "sel_by_collection_key", "sel_by_collection_key_tombstoneIs1",
   "sel_by_collection_key_valueSet", "sel_by_collection_valueSet", "sel_by_expPos", "sel_by_valueNull",
   "upd_cas_exp0_isJSON0_revSeqNo_tombstone1_valueN_xattrs__by_collection_key", "upd_cas_exp_isJSON_revSeqNo_tombstone0_value_xattrs__by_collection_key",
   "upd_cas_exp_isJSON_revSeqNo_tombstone_value_xattrs__by_cas_collection_key",
   "upd_cas_exp_isJSON_revSeqNo_tombstone_value_xattrs__by_cas_collection_key_valueSet", "upd_cas_revSeqNo_xattrs__by_collection_key",
   "upd_exp_revSeqNo__by_collection_key",
   "ups_cas_collection_exp_isJSON_key_revSeqNo_tombstone_value__set_cas_exp_isJSON_revSeqNo_tombstone_value_xattrsN__if_tombstoneIs1",
   "ups_cas_collection_exp_isJSON_key_revSeqNo_tombstone_value_xattrs__set_cas_exp_isJSON_revSeqNo_tombstone_value_xattrs__if_collection_key",
   "ups_cas_collection_exp_isJSON_key_revSeqNo_value__set_cas_exp_isJSON_revSeqNo_tombstone0_value_xattrsN__if_tombstoneNot0"]

/-- Statements are named by what they do (kind, assigned columns and literals, shape of the condition), not by the Go function they stand in, and equal
statements are one definition; `uses` (regenerated) says which function uses which. **Every statement on `documents` that any function of /repo uses is one of
the shapes tied in these files** - a read that no longer pins its collection, or a write with another SET list, is a new shape and shows up here. -/
theorem every_use_is_a_known_shape : ∀ u ∈ uses, u.2 ∈ knownShapes := by decide +kernel

/-- Every read of one key (before a write, or on its own) pins both `collection` and `key`. -/
theorem point_reads_pin_collection_and_key :
    ∀ q ∈ [sel_by_collection_key, sel_by_collection_key, sel_by_collection_key,
           sel_by_collection_key, sel_by_collection_key, sel_by_collection_key, sel_by_collection_key,
           sel_by_collection_key_valueSet, sel_by_collection_key, sel_by_collection_key, sel_by_collection_key,
           sel_by_collection_key_tombstoneIs1, sel_by_collection_key, sel_by_collection_key, sel_by_collection_key,
           sel_by_collection_key],
      q.cond.pins .collection "$where.collection" = true ∧ q.cond.pins .key "$where.key" = true := by
  decide

/-- Every scan (backfill, expiry sweep, `$_keyspace`, view update) pins `collection`. -/
theorem scans_pin_collection :
    ∀ q ∈ [sel_by_casGe_collection__order_cas, sel_by_collection_expLe_expPos, sel_by_collection_valueSet,
           sel_by_casGt_collection, sel_by_casGt_collection_or],
      q.cond.pins .collection "$where.collection" = true := by
  decide

end Rosmar.Gen.Sql
