import Rosmar.Gen.TieSqlBase

/-! `DeleteSubDocPaths`, and `storeDocument` (the upsert behind `writeWithXattrs` and `writeWithMeta`). -/

set_option linter.unusedSimpArgs false

namespace Rosmar.Gen.Sql
open Rosmar Rosmar.Sql

theorem tie_dsp (cid : Nat) (k : String) (names : List String) (newCas now : Nat) (r : Row) :
    Writes (dspRow k names newCas now (some r)) (fun r' ev =>
      upd_cas_revSeqNo_xattrs__by_collection_key.exec
        (env [("$xattrs", encX r'.xattrs), ("$cas", .int newCas), ("$revSeqNo", .int (r.rev + 1)), ("c.id", .int cid), ("key", .text k)])
        (some (enc cid k r))
        = { row := some (enc cid k r'), affected := 1 }
      ∧ ev.map (·.xattrs) = some r'.xattrs ∧ ev.map (·.rev) = some (r.rev + 1)) := by
  unfold dspRow
  dsimp only
  cases hx : removeXattrs r.xattrs names
  · simp
  · simp [upd_cas_revSeqNo_xattrs__by_collection_key, Update.exec, applySets, SRow.set, SRow.get, E.eval, env, enc, encV, ofBool, SV.truthy, SV.same]

/-! ### `storeDocument`: the upsert behind `writeWithXattrs` and `writeWithMeta` -/

/-- The row an event describes (`storeDocument` stores the event, nothing of the old row survives but its id). -/
def rowOfEvent (ev : Event) : Row :=
  { rowid := 0, value := ev.value, cas := ev.cas, exp := ev.exp, isJSON := ev.isJSON, xattrs := ev.xattrs, tomb := ev.isDeletion, rev := ev.rev }

def evEnv (cid : Nat) (ev : Event) : Env :=
  env [("c.id", .int cid), ("e.key", .text ev.key), ("e.value", encV ev.value), ("e.isJSON", ofBool ev.isJSON), ("e.cas", .int ev.cas),
       ("e.exp", .int ev.exp), ("e.xattrs", encX ev.xattrs), ("$tombstone", ofBool ev.isDeletion), ("e.revSeqNo", .int ev.rev)]

theorem tie_storeDocument (cid : Nat) (ev : Event) (old : Option Row) :
    ups_cas_collection_exp_isJSON_key_revSeqNo_tombstone_value_xattrs__set_cas_exp_isJSON_revSeqNo_tombstone_value_xattrs__if_collection_key.exec (evEnv cid ev) (old.map (enc cid ev.key))
      = { row := some (enc cid ev.key (rowOfEvent ev)), affected := 1 } := by
  cases old with
  | none =>
    cases hj : ev.isJSON <;> cases hd : ev.isDeletion <;>
    simp [ups_cas_collection_exp_isJSON_key_revSeqNo_tombstone_value_xattrs__set_cas_exp_isJSON_revSeqNo_tombstone_value_xattrs__if_collection_key, Upsert.exec, insertRow, SRow.set, E.eval, env, evEnv, enc, rowOfEvent, defaultRow, ofBool, hj, hd]
  | some r =>
    cases hj : ev.isJSON <;> cases hd : ev.isDeletion <;>
    simp [ups_cas_collection_exp_isJSON_key_revSeqNo_tombstone_value_xattrs__set_cas_exp_isJSON_revSeqNo_tombstone_value_xattrs__if_collection_key, Upsert.exec, applySets, SRow.set, SRow.get, E.eval, env, evEnv, enc, rowOfEvent, ofBool,
      SV.truthy, SV.same, hj, hd]

/-- The row function stores exactly the event it posts. -/
def storesEvent (k : String) : Row → Option Event → Prop := fun r' ev =>
  match ev with
  | some e => r' = rowOfEvent e ∧ e.key = k
  | none => False

/-- `writeWithMeta` stores exactly the event it posts. -/
theorem tie_wmeta (k : String) (oldCas newCas exp : Nat) (xattrs : Xattrs) (body : Option String) (isJSON isDeletion : Bool)
    (c n : Nat) (old : Option Row) :
    Writes (wmetaRow k oldCas newCas exp xattrs body isJSON isDeletion c n old) (storesEvent k) := by
  unfold wmetaRow
  dsimp only
  repeat' split
  all_goals simp [storesEvent, rowOfEvent]

/-- `writeWithXattrs` (every `*WithXattrs` / `SetXattrs` / `UpdateXattrs` / `RemoveXattrs` entry point) stores exactly the event it posts. -/
theorem tie_wwx (k : String) (val : ValArg) (edits : List XEdit) (ifCas : Option Nat) (exp : Option Nat) (o : XOpts)
    (macros : List (String × MacroKind)) (newCas now : Nat) (old : Option Row) :
    Writes (wwxRow k val edits ifCas exp o macros newCas now old) (storesEvent k) := by
  unfold wwxRow
  dsimp only
  repeat' split
  all_goals simp [storesEvent, rowOfEvent]

end Rosmar.Gen.Sql
