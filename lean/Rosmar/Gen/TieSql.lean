import Rosmar.Gen.TieSqlBase
import Rosmar.Gen.TieSqlAdd
import Rosmar.Gen.TieSqlSet
import Rosmar.Gen.TieSqlWcas
import Rosmar.Gen.TieSqlRemove
import Rosmar.Gen.TieSqlTouch
import Rosmar.Gen.TieSqlXattr
import Rosmar.Gen.TieSqlRead
