import Rosmar.Gen.TieSqlBase

/-! `Set` / `SetRaw` / `Incr` against the regenerated statements of `Collection._set`. -/

set_option linter.unusedSimpArgs false

namespace Rosmar.Gen.Sql
open Rosmar Rosmar.Sql

/-! ### Set / SetRaw / Incr (`_set`) -/

/-- `_set` on an existing row: the UPDATE, fed with what the preceding SELECT read (`xattrs` cleared when the row had no body,
`exp` replaced by the stored one under `PreserveExpiry`, `revSeqNo + 1`). -/
theorem tie_set_update (cid : Nat) (k val : String) (exp : Nat) (preserve isJSON : Bool) (newCas : Nat) (r : Row) :
    upd_cas_exp_isJSON_revSeqNo_tombstone0_value_xattrs__by_collection_key.exec
        (env [("c.id", .int cid), ("key", .text k), ("val", .text val),
              ("xattrs", encX (if r.value.isSome then r.xattrs else [])), ("newCas", .int newCas),
              ("exp", .int (if preserve then r.exp else exp)), ("isJSON", ofBool isJSON), ("revSeqNo", .int (r.rev + 1))])
        (some (enc cid k r))
      = { row := some (enc cid k (setCore (some r) exp preserve val isJSON newCas).1), affected := 1 } := by
  cases isJSON <;> simp [upd_cas_exp_isJSON_revSeqNo_tombstone0_value_xattrs__by_collection_key, Update.exec, setCore, applySets, SRow.set, SRow.get, E.eval, env, enc, encV, ofBool, SV.truthy, SV.same]

/-- `_set` on a missing key: the plain INSERT. -/
theorem tie_set_insert (cid : Nat) (k val : String) (exp : Nat) (preserve isJSON : Bool) (newCas : Nat) :
    ins_cas_collection_exp_isJSON_key_revSeqNo_value_xattrs.exec
        (env [("c.id", .int cid), ("key", .text k), ("val", .text val), ("xattrs", .null), ("newCas", .int newCas),
              ("exp", .int exp), ("isJSON", ofBool isJSON), ("revSeqNo", .int 1)])
        none
      = { row := some (enc cid k (setCore none exp preserve val isJSON newCas).1), affected := 1 } := by
  cases isJSON <;> simp [ins_cas_collection_exp_isJSON_key_revSeqNo_value_xattrs, Upsert.exec, setCore, insertRow, SRow.set, E.eval, env, enc, encV, encX, ofBool, defaultRow]

end Rosmar.Gen.Sql
