import Rosmar.Gen.TieSqlBase

/-! `Remove` / `Delete` / `DeleteWithXattrs` against their regenerated UPDATEs. -/

set_option linter.unusedSimpArgs false

namespace Rosmar.Gen.Sql
open Rosmar Rosmar.Sql

/-! ### Remove / Delete -/

/-- The row `removeRow` writes is the UPDATE's row (the CAS test is done in Go, before the statement). -/
theorem tie_remove (cid : Nat) (k : String) (ifCas : Option Nat) (newCas now : Nat) (r : Row) :
    Writes (removeRow k ifCas newCas now (some r)) (fun r' _ =>
      upd_cas_exp0_isJSON0_revSeqNo_tombstone1_valueN_xattrs__by_collection_key.exec
        (env [("$cas", .int newCas), ("$xattrs", encX (Xattrs.systemOnly r.xattrs)), ("$revSeqNo", .int (r.rev + 1)),
              ("c.id", .int cid), ("key", .text k)]) (some (enc cid k r))
        = { row := some (enc cid k r'), affected := 1 }) := by
  unfold removeRow
  dsimp only
  split
  · simp
  · simp [upd_cas_exp0_isJSON0_revSeqNo_tombstone1_valueN_xattrs__by_collection_key, Update.exec, applySets, SRow.set, SRow.get, E.eval, env, enc, encV, ofBool, SV.truthy, SV.same]

/-! ### DeleteWithXattrs / DeleteSubDocPaths -/

theorem tie_delx (cid : Nat) (k : String) (names : List String) (newCas now : Nat) (r : Row) :
    Writes (delxRow k names newCas now (some r)) (fun r' ev =>
      upd_cas_exp0_isJSON0_revSeqNo_tombstone1_valueN_xattrs__by_collection_key.exec
        (env [("$xattrs", encX r'.xattrs), ("$cas", .int newCas), ("$revSeqNo", .int (r.rev + 1)), ("c.id", .int cid), ("key", .text k)])
        (some (enc cid k r))
        = { row := some (enc cid k r'), affected := 1 }
      ∧ ev.map (·.xattrs) = some r'.xattrs ∧ ev.map (·.rev) = some (r.rev + 1)) := by
  unfold delxRow
  dsimp only
  cases hx : removeXattrs r.xattrs names
  · simp
  · simp [upd_cas_exp0_isJSON0_revSeqNo_tombstone1_valueN_xattrs__by_collection_key, Update.exec, applySets, SRow.set, SRow.get, E.eval, env, enc, encV, ofBool, SV.truthy, SV.same]

end Rosmar.Gen.Sql
