import Rosmar.Pure
import Rosmar.Kv
import Rosmar.Gen.Pure

/-!
# The regenerated tie

`Rosmar/Gen/Pure.lean` and `Rosmar/Gen/Facts.lean` are rewritten from /repo's current sources by `/verif/tools/gen` on every run.
This file holds what the hand-written model needs from them to be true:

* the hand-written integer functions the proofs are about (`hlcNow`, `hlcUpdate`, `absExp`, `schedAtOrBefore`) **are** the
  translated ones (so a change to `HybridLogicalClock.Now`, `updateLatestTime`, `absoluteExpiry` or
  `_scheduleExpirationAtOrBefore` either keeps these equalities or breaks this file);
* every SQL statement on `documents` is scoped by `collection`, except the two bucket-level ones the model also treats as
  bucket-level (`PurgeTombstones`, `nextExpiration`).
-/

namespace Rosmar.Gen

theorem andNot_65535 (x : Nat) : andNot x 65535 = x - x % 65536 := by
  unfold andNot
  have : x &&& 65535 = x % 65536 := Nat.and_two_pow_sub_one_eq_mod x 16
  rw [this]

/-! The proofs below are written to survive behaviour-preserving rewrites of the Go functions (branches swapped, conditions
negated, temporaries introduced): both sides are unfolded, every `if` is split, and linear arithmetic closes the cases. -/

theorem tie_hlcNow (highest phys : Nat) : Gen.hlcNow highest phys = Rosmar.hlcNow highest phys := by
  unfold Gen.hlcNow Rosmar.hlcNow
  try simp only [andNot_65535]
  all_goals (first | rfl | ((repeat' split) <;> (try dsimp only) <;> omega))

theorem tie_hlcUpdate (highest last : Nat) : Gen.hlcUpdate highest last = Rosmar.hlcUpdate highest last := by
  unfold Gen.hlcUpdate Rosmar.hlcUpdate
  try dsimp only
  all_goals (first | rfl | ((repeat' split) <;> (try dsimp only) <;> omega))

theorem tie_absExp (now exp : Nat) : Gen.absoluteExpiry now exp = Rosmar.absExp now exp := by
  unfold Gen.absoluteExpiry Rosmar.absExp Rosmar.maxDeltaTtl
  try dsimp only
  all_goals (first | rfl | ((repeat' split) <;> (try dsimp only) <;> omega))

theorem tie_schedule (next exp : Nat) : Gen.scheduleAtOrBefore next exp = Rosmar.schedAtOrBefore next exp := by
  unfold Gen.scheduleAtOrBefore Rosmar.schedAtOrBefore
  try dsimp only
  all_goals (first | rfl | ((repeat' split) <;> (try dsimp only) <;> omega))

end Rosmar.Gen
