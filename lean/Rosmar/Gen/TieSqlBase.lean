import Rosmar.Gen.Sql
import Rosmar.Kv
import Rosmar.Xattr

/-! Tie between the model's row functions and the SQL statements regenerated from /repo (`Gen/Sql.lean`):
each row function writes exactly the row the statement of the corresponding Go entry point computes, with the
placeholders bound as the Go call binds them (`env` is keyed by the *Go expression* at the `Exec` call, which is
regenerated together with the statement).  What stays hand-written is the Go control flow *between* the
statements (which statement is chosen, what the preceding SELECT fed into the arguments); the correspondence check
answers for that.  This file: the generic part (a WHERE clause that pins `collection` and `key` touches no other row; every
regenerated statement does pin them).  `TieSqlAdd/Set/Wcas/Remove/Touch/Xattr.lean`: one file per group of entry points, so that
a statement that changes only breaks the obligations of the properties that depend on it. -/

set_option linter.unusedSimpArgs false

namespace Rosmar.Gen.Sql
open Rosmar Rosmar.Sql

/-- Placeholder bindings. A placeholder bound to a parameter of the Go function (or a field of one) is named by that Go expression
(`"c.id"`, `"key"`, `"e.cas"`); one bound to a local variable or a compound expression is named by its role in the statement
(`"$cas"`: stored into `cas`; `"$where.cas"`: compared with `cas`), so that renaming a local does not disturb the tie. -/
def env (l : List (String × SV)) : Env := fun g =>
  match l.find? (fun p => p.1 == g) with
  | some p => p.2
  | none => .null

/-! ### Generic: a statement whose WHERE clause pins `collection` and `key` changes no other row -/

theorem and_truthy (ps : Env) (r : SRow) (a b : E) (h : ((E.and a b).eval ps r).truthy = true) :
    (a.eval ps r).truthy = true ∧ (b.eval ps r).truthy = true := by
  simp only [E.eval] at h
  generalize a.eval ps r = x at h
  generalize b.eval ps r = y at h
  cases x with
  | null => cases y with
    | null => simp [SV.truthy] at h
    | int m => cases m <;> simp [SV.truthy] at h
    | text _ => simp [SV.truthy] at h
  | int n => cases n with
    | zero => simp [SV.truthy] at h
    | succ n => cases y with
      | null => simp [SV.truthy] at h
      | int m => cases m <;> simp [SV.truthy] at h ⊢
      | text _ => simp [SV.truthy] at h
  | text _ => cases y with
    | null => simp [SV.truthy] at h
    | int m => cases m <;> simp [SV.truthy] at h
    | text _ => simp [SV.truthy] at h

theorem truthy_conjuncts (ps : Env) (r : SRow) (e : E) (h : (e.eval ps r).truthy = true) :
    ∀ x ∈ e.conjuncts, (x.eval ps r).truthy = true := by
  induction e with
  | and a b iha ihb =>
    intro x hx
    have ⟨ha, hb⟩ := and_truthy ps r a b h
    simp only [E.conjuncts, List.mem_append] at hx
    cases hx with
    | inl h1 => exact iha ha x h1
    | inr h2 => exact ihb hb x h2
  | _ => intro x hx; simp only [E.conjuncts, List.mem_singleton] at hx; subst hx; exact h

/-- A condition that pins column `c` to placeholder `g` only accepts rows whose `c` equals the bound value. -/
theorem pins_sound (ps : Env) (r : SRow) (e : E) (c : Col) (g : String) (hp : e.pins c g = true)
    (h : (e.eval ps r).truthy = true) : (r.get c).same (ps g) = true := by
  simp only [E.pins, List.any_eq_true] at hp
  obtain ⟨x, hx, hm⟩ := hp
  have ht := truthy_conjuncts ps r e h x hx
  split at hm
  · rename_i c' g'
    simp only [Bool.and_eq_true, beq_iff_eq] at hm
    obtain ⟨hc, hg⟩ := hm
    subst hc; subst hg
    simp only [E.eval] at ht
    generalize r.get c' = a at ht ⊢
    generalize ps g' = b at ht ⊢
    cases a <;> cases b <;> simp_all [SV.truthy, ofBool, SV.same]
  · simp at hm

/-- **An UPDATE whose WHERE clause pins a column leaves every row with another value in that column alone.** -/
theorem update_other_row (u : Update) (ps : Env) (r : SRow) (c : Col) (g : String) (hp : u.cond.pins c g = true)
    (hne : (r.get c).same (ps g) = false) : u.exec ps (some r) = { row := some r, affected := 0 } := by
  simp only [Update.exec]
  split
  · rename_i h
    have := pins_sound ps r u.cond c g hp h
    simp [hne] at this
  · rfl

/-- **Over the whole table**: an UPDATE whose WHERE clause pins `collection` and `key` rewrites only rows that carry the bound collection id
and the bound key - rows of every other collection, and every other key of the same collection, come out as they went in. -/
theorem update_table_touches_only (u : Update) (ps : Env) (t : List SRow) (gc gk : String)
    (hc : u.cond.pins .collection gc = true) (hk : u.cond.pins .key gk = true) :
    u.execTable ps t
      = t.map (fun r => if r.collection.same (ps gc) && r.key.same (ps gk)
                        then (if (u.cond.eval ps r).truthy then applySets ps r u.sets r else r) else r) := by
  unfold Update.execTable
  apply List.map_congr_left
  intro r _
  by_cases h : (u.cond.eval ps r).truthy = true
  · have h1 := pins_sound ps r u.cond .collection gc hc h
    have h2 := pins_sound ps r u.cond .key gk hk h
    simp only [SRow.get] at h1 h2
    simp [h, h1, h2]
  · simp [h]

/-- "Whenever the row function writes a row, `P` holds of that row and of the event; it never succeeds without writing one." -/
def Writes (res : Out ⊕ (Option Row × Option Event × Out)) (P : Row → Option Event → Prop) : Prop :=
  match res with
  | .inr (some r', ev, _) => P r' ev
  | .inr (none, _, _) => False
  | .inl _ => True

@[simp] theorem writes_inl (o : Out) (P : Row → Option Event → Prop) : Writes (.inl o) P = True := rfl
@[simp] theorem writes_some (r' : Row) (ev : Option Event) (o : Out) (P : Row → Option Event → Prop) :
    Writes (.inr (some r', ev, o)) P = P r' ev := rfl

end Rosmar.Gen.Sql
