import Rosmar.Gen.TieSqlBase

/-! `Touch` / `GetAndTouchRaw` against the regenerated UPDATE. -/

set_option linter.unusedSimpArgs false

namespace Rosmar.Gen.Sql
open Rosmar Rosmar.Sql

/-! ### Touch / GetAndTouchRaw -/

theorem tie_touch (cid : Nat) (k : String) (exp newCas now : Nat) (r : Row) :
    Writes (touchRow exp newCas now (some r)) (fun r' _ =>
      upd_exp_revSeqNo__by_collection_key.exec
        (env [("exp", .int (absExp now exp)), ("$revSeqNo", .int (r.rev + 1)), ("key", .text k), ("c.id", .int cid)]) (some (enc cid k r))
        = { row := some (enc cid k r'), affected := 1 }) := by
  unfold touchRow
  dsimp only
  cases hv : r.value
  · simp
  · simp [hv, upd_exp_revSeqNo__by_collection_key, Update.exec, applySets, SRow.set, SRow.get, E.eval, env, enc, encV, ofBool, SV.truthy, SV.same]

end Rosmar.Gen.Sql
