import Rosmar.Gen.TieSqlBase

/-! `Add` / `AddRaw` against the regenerated upsert of `Collection.add`. -/

set_option linter.unusedSimpArgs false

namespace Rosmar.Gen.Sql
open Rosmar Rosmar.Sql

/-! ### Add / AddRaw -/

theorem tie_add (cid : Nat) (k val : String) (exp : Nat) (isJSON : Bool) (newCas now : Nat) (old : Option Row) :
    ups_cas_collection_exp_isJSON_key_revSeqNo_value__set_cas_exp_isJSON_revSeqNo_tombstone0_value_xattrsN__if_tombstoneNot0.exec
        (env [("c.id", .int cid), ("key", .text k), ("val", .text val), ("$cas", .int newCas),
              ("exp", .int (absExp now exp)), ("isJSON", ofBool isJSON)]) (old.map (enc cid k))
      = match addRow k exp val isJSON newCas now old with
        | .inr (some r', _, _) => { row := some (enc cid k r'), affected := 1 }
        | _ => { row := old.map (enc cid k), affected := 0 } := by
  cases old with
  | none => simp [ups_cas_collection_exp_isJSON_key_revSeqNo_value__set_cas_exp_isJSON_revSeqNo_tombstone0_value_xattrsN__if_tombstoneNot0, Upsert.exec, addRow, insertRow, SRow.set, E.eval, env, enc, defaultRow, encV, encX, ofBool]
  | some r =>
    cases ht : r.tomb <;>
    simp [ups_cas_collection_exp_isJSON_key_revSeqNo_value__set_cas_exp_isJSON_revSeqNo_tombstone0_value_xattrsN__if_tombstoneNot0, Upsert.exec, addRow, applySets, SRow.set, SRow.get, E.eval, env, enc, encV, encX, ofBool, SV.truthy, SV.same, ht]

end Rosmar.Gen.Sql
