import Rosmar.Gen.TieSqlAdd
import Rosmar.Gen.TieSqlWcas
import Rosmar.Proofs.Effect

/-! From the addressed row to the collection's table: a row function that is tied to a regenerated statement (`tie_add`, `tie_wcas`),
lifted by `liftRow` to the collection, changes the collection exactly as the statement says - the addressed key gets the statement's row,
every other key keeps its row. -/

set_option linter.unusedSimpArgs false

namespace Rosmar.Gen.Sql
open Rosmar Rosmar.Sql

theorem enc_storedRow (cid : Nat) (k : String) (old : Option Row) (nid : Nat) (r' : Row) :
    enc cid k (storedRow old nid r') = enc cid k r' := by
  simp [enc, storedRow]

/-- Generic lifting: if `sqlExec` computes, on the encoded addressed row, what the row function `f` writes, then the transaction `liftRow k f`
leaves the collection with exactly `sqlExec`'s row under `k` and every other key untouched. -/
theorem liftRow_is_sql (cid : Nat) (k : String) (f : RowFn) (nc now nid : Nat) (docs docs' : Docs) (nid' : Nat) (ev : Option Event) (o : Out)
    (sqlExec : Option SRow → Res)
    (htie : sqlExec ((docs.get? k).map (enc cid k)) =
      match f nc now (docs.get? k) with
      | .inr (some r', _, _) => { row := some (enc cid k r'), affected := 1 }
      | _ => { row := (docs.get? k).map (enc cid k), affected := 0 })
    (h : liftRow k f nc now nid docs = .inr (docs', nid', ev, o)) :
    (docs'.get? k).map (enc cid k) = (sqlExec ((docs.get? k).map (enc cid k))).row ∧
    ∀ k', k' ≠ k → docs'.get? k' = docs.get? k' := by
  refine ⟨?_, fun k' hk => liftRow_get?_other k k' hk f nc now nid docs docs' nid' ev o h⟩
  rcases liftRow_get?_same k f nc now nid docs docs' nid' ev o h with ⟨ev', hf, hd⟩ | ⟨r', ev', hf, hd⟩
  · rw [htie, hf, hd]
  · rw [htie, hf, hd]
    simp [enc_storedRow]

/-- `Add` / `AddRaw` on a collection = the regenerated upsert of `Collection.add` on the addressed row, nothing else changes. -/
theorem add_on_collection_is_sql (cid : Nat) (k val : String) (exp : Nat) (isJSON : Bool) (nc now nid : Nat) (docs docs' : Docs) (nid' : Nat)
    (ev : Option Event) (o : Out) (h : addFn k exp val isJSON nc now nid docs = .inr (docs', nid', ev, o)) :
    (docs'.get? k).map (enc cid k)
      = (ups_cas_collection_exp_isJSON_key_revSeqNo_value__set_cas_exp_isJSON_revSeqNo_tombstone0_value_xattrsN__if_tombstoneNot0.exec
          (env [("c.id", .int cid), ("key", .text k), ("val", .text val), ("$cas", .int nc), ("exp", .int (absExp now exp)), ("isJSON", ofBool isJSON)])
          ((docs.get? k).map (enc cid k))).row ∧
    ∀ k', k' ≠ k → docs'.get? k' = docs.get? k' :=
  liftRow_is_sql cid k (addRow k exp val isJSON) nc now nid docs docs' nid' ev o _ (tie_add cid k val exp isJSON nc now (docs.get? k)) h

/-- `WriteCas` (every option) on a collection = the statement its `if` chain chooses, on the addressed row, nothing else changes
(whenever the Go code reaches its `Exec`: the key exists or the CAS supplied is 0). -/
theorem wcas_on_collection_is_sql (cid : Nat) (k : String) (exp cas : Nat) (val : Option String) (opts : WOpts) (nc now nid : Nat)
    (docs docs' : Docs) (nid' : Nat) (ev : Option Event) (o : Out) (hreach : (docs.get? k).isSome ∨ cas = 0)
    (h : wcasFn k exp cas val opts nc now nid docs = .inr (docs', nid', ev, o)) :
    (docs'.get? k).map (enc cid k)
      = (wcasExec opts cas (wasTomb (docs.get? k)) (wcasEnv cid k exp cas val opts nc now (docs.get? k))
          ((docs.get? k).map (enc cid k))).row ∧
    ∀ k', k' ≠ k → docs'.get? k' = docs.get? k' :=
  liftRow_is_sql cid k (wcasRow k exp cas val opts) nc now nid docs docs' nid' ev o _ (tie_wcas cid k exp cas val opts nc now (docs.get? k) hreach) h

end Rosmar.Gen.Sql
