import Rosmar.Gen.TieSqlBase
import Rosmar.View

/-! `updateView` deletes the index rows of documents with `cas > lastCas` and maps again those of them that have a body or xattrs. -/

set_option linter.unusedSimpArgs false

namespace Rosmar.Gen.Sql
open Rosmar Rosmar.Sql

/-! ### View update: rows of documents with `cas > lastCas` are deleted; those with a body or xattrs are mapped again -/

theorem tie_viewupdate_delete_pred (cid : Nat) (k : String) (r : Row) (last : Nat) :
    sel_by_casGt_collection.selects (env [("$where.collection", .int cid), ("$where.cas", .int last)]) (enc cid k r)
      = decide (r.cas > last) := by
  by_cases h : last < r.cas <;>
  simp [sel_by_casGt_collection, Select.selects, E.eval, SRow.get, env, enc, ofBool, SV.truthy, SV.same, h]

theorem tie_viewupdate_select_pred (cid : Nat) (k : String) (r : Row) (last : Nat) :
    sel_by_casGt_collection_or.selects (env [("$where.collection", .int cid), ("$where.cas", .int last)]) (enc cid k r)
      = (decide (r.cas > last) && !(decide (r.value.isNone ∧ r.xattrs = []))) := by
  by_cases h : last < r.cas <;> cases hv : r.value <;> cases hx : r.xattrs <;>
  simp [sel_by_casGt_collection_or, Select.selects, E.eval, SRow.get, env, enc, encV, encX, ofBool, SV.truthy, SV.same, h, hv, hx]

/-- A row the view update does not map again (no body and no xattrs) has no map input in the model either. -/
theorem tie_view_mapinput (m : Nat) (k : String) (r : Row) (h : r.value.isNone ∧ r.xattrs = []) : View.mapRows m k r = [] := by
  unfold View.mapRows View.mapInput?
  simp [h]

end Rosmar.Gen.Sql
