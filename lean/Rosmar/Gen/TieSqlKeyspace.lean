import Rosmar.Gen.TieSqlBase
import Rosmar.Query

/-! `$_keyspace` is exactly the live documents of the collection, as the regenerated common table expression of `prepareQuery` selects them. -/

set_option linter.unusedSimpArgs false

namespace Rosmar.Gen.Sql
open Rosmar Rosmar.Sql

/-! ### `$_keyspace`: the live documents of the collection -/

theorem tie_keyspace_pred (cid : Nat) (k : String) (r : Row) :
    sel_by_collection_valueSet.selects (env [("$where.collection", .int cid)]) (enc cid k r) = r.value.isSome := by
  cases h : r.value <;>
  simp [sel_by_collection_valueSet, Select.selects, E.eval, SRow.get, env, enc, encV, ofBool, SV.truthy, SV.same, h]

/-- The model's `$_keyspace` has one row for exactly the documents the regenerated common table expression selects. -/
theorem tie_keyspace (cid : Nat) (docs : Docs) :
    docs.filterMap (fun d => d.2.value.map (fun b => ({ id := d.1, body := b, xattrs := d.2.xattrs } : KsRow)))
      = (docs.filter (fun d => sel_by_collection_valueSet.selects (env [("$where.collection", .int cid)]) (enc cid d.1 d.2))).filterMap
          (fun d => d.2.value.map (fun b => ({ id := d.1, body := b, xattrs := d.2.xattrs } : KsRow))) := by
  induction docs with
  | nil => rfl
  | cons d rest ih =>
    simp only [List.filterMap_cons, List.filter_cons, tie_keyspace_pred]
    cases hv : d.2.value <;> simp [hv, ih, tie_keyspace_pred]

end Rosmar.Gen.Sql
