import Rosmar.Gen.TieSqlReadPins
import Rosmar.Gen.TieSqlBackfill
import Rosmar.Gen.TieSqlExpire
import Rosmar.Gen.TieSqlPurge
import Rosmar.Gen.TieSqlKeyspace
import Rosmar.Gen.TieSqlView
