import Rosmar.Gen.TiePure
import Rosmar.Gen.TieFacts
/-! Both halves of the regenerated tie (kept for imports that want everything). -/
