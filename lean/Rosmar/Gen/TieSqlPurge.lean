import Rosmar.Gen.TieSqlBase

/-! `PurgeTombstones` removes exactly the rows without a body; `exists` / `isTombstone` read the body / the tombstone flag. -/

set_option linter.unusedSimpArgs false

namespace Rosmar.Gen.Sql
open Rosmar Rosmar.Sql

/-! ### PurgeTombstones: `value IS NULL` (bucket-wide) -/

theorem tie_purge_pred (cid : Nat) (k : String) (r : Row) :
    sel_by_valueNull.selects (env []) (enc cid k r) = r.value.isNone := by
  cases h : r.value <;>
  simp [sel_by_valueNull, Select.selects, E.eval, SRow.get, env, enc, encV, ofBool, SV.truthy, h]

/-- `opPurge` keeps exactly the rows the regenerated DELETE does not select. -/
theorem tie_purge_keeps (cid : Nat) (docs : Docs) :
    docs.filter (fun d => d.2.value.isSome)
      = docs.filter (fun d => !sel_by_valueNull.selects (env []) (enc cid d.1 d.2)) := by
  apply List.filter_congr
  intro d _
  rw [tie_purge_pred]
  cases d.2.value <;> rfl

/-! ### Exists / isTombstone -/

theorem tie_exists_pred (cid : Nat) (k : String) (r : Row) :
    sel_by_collection_key_valueSet.selects (env [("$where.collection", .int cid), ("$where.key", .text k)]) (enc cid k r) = r.value.isSome := by
  cases h : r.value <;>
  simp [sel_by_collection_key_valueSet, Select.selects, E.eval, SRow.get, env, enc, encV, ofBool, SV.truthy, SV.same, h]

theorem tie_istombstone_pred (cid : Nat) (k : String) (r : Row) :
    sel_by_collection_key_tombstoneIs1.selects (env [("$where.collection", .int cid), ("$where.key", .text k)]) (enc cid k r) = r.tomb := by
  cases h : r.tomb <;>
  simp [sel_by_collection_key_tombstoneIs1, Select.selects, E.eval, SRow.get, env, enc, ofBool, SV.truthy, SV.same, h]

end Rosmar.Gen.Sql
