import Rosmar.Gen.TieSqlBase
import Rosmar.Feed

/-! The model's backfill reads exactly the rows the regenerated statement of `enqueueBackfillEvents` selects (`cas >= start`), in the order it asks for. -/

set_option linter.unusedSimpArgs false

namespace Rosmar.Gen.Sql
open Rosmar Rosmar.Sql

/-! ### Backfill: `cas >= start`, in CAS order -/

theorem tie_backfill_pred (cid : Nat) (k : String) (r : Row) (start : Nat) :
    sel_by_casGe_collection__order_cas.selects (env [("$where.collection", .int cid), ("$where.cas", .int start)]) (enc cid k r)
      = decide (r.cas ≥ start) := by
  by_cases h : start ≤ r.cas <;>
  simp [sel_by_casGe_collection__order_cas, Select.selects, E.eval, SRow.get, env, enc, ofBool, SV.truthy, SV.same, h]

theorem tie_backfill_order : sel_by_casGe_collection__order_cas.orderBy = [.cas] := by decide

/-- The model's backfill reads exactly the rows the regenerated statement selects, sorted by the column it orders by. -/
theorem tie_backfillRows (cid : Nat) (docs : Docs) (start : Nat) :
    backfillRows docs start
      = sortByCas (docs.filter (fun d =>
          sel_by_casGe_collection__order_cas.selects (env [("$where.collection", .int cid), ("$where.cas", .int start)]) (enc cid d.1 d.2))) := by
  unfold backfillRows
  congr 1
  apply List.filter_congr
  intro d _
  rw [tie_backfill_pred]

end Rosmar.Gen.Sql
