/-
  `bucket_registry.go` + `OpenBucket` / `Close` / `CloseAndDelete`: the process-wide registry of open buckets
  (a hand-rolled reference count per bucket *name*), handles, the databases they share, and the directories on disk.
  Core-only.
-/
namespace Rosmar.Registry

inductive Mode where | createOrOpen | createNew | reOpenExisting
  deriving DecidableEq, Repr, Inhabited

inductive RErr where | ok | exist | notExist | urlMismatch | closed | dbClosed | missing | noHandle
  deriving DecidableEq, Repr, Inhabited

def RErr.name : RErr → String
  | .ok => "ok" | .exist => "exist" | .notExist => "notexist" | .urlMismatch => "urlmismatch"
  | .closed => "closed" | .dbClosed => "dbclosed" | .missing => "missing" | .noHandle => "nohandle"

/-- A database: an in-memory SQLite database or the file in a bucket directory. -/
structure Store where
  id : Nat
  data : List (String × String)
  isOpen : Bool          -- the shared `*sql.DB` has not been closed
  deriving Repr, Inhabited

structure Entry where    -- `cluster.buckets[name]`
  url : String
  inMem : Bool
  store : Nat
  deriving Repr, Inhabited

structure Handle where   -- a `*Bucket` returned by OpenBucket (a shallow copy sharing the database)
  name : String
  url : String
  inMem : Bool
  store : Nat
  closed : Bool
  deriving Repr, Inhabited

structure Reg where
  buckets : List (String × Entry) := []
  counts : List (String × Nat) := []
  handles : List (String × Handle) := []
  stores : List Store := []
  disk : List (String × Nat) := []       -- directory url ↦ id of the database file in it
  nextStore : Nat := 0
  deriving Repr, Inhabited

def lookup {α : Type} : List (String × α) → String → Option α
  | [], _ => none
  | (k, v) :: rest, q => if k = q then some v else lookup rest q

def remove {α : Type} : List (String × α) → String → List (String × α)
  | [], _ => []
  | (k, v) :: rest, q => if k = q then remove rest q else (k, v) :: remove rest q

/-- Replace the binding of an existing key, or append a new one. -/
def insert {α : Type} : List (String × α) → String → α → List (String × α)
  | [], q, x => [(q, x)]
  | (k, v) :: rest, q, x => if k = q then (k, x) :: rest else (k, v) :: insert rest q x

def isMemUrl (url : String) : Bool := url = "mem"

def Reg.store? (r : Reg) (id : Nat) : Option Store := r.stores.find? (·.id = id)
/-- Update every database with the given id in place. -/
def Reg.modifyStore (r : Reg) (sid : Nat) (f : Store → Store) : Reg :=
  { r with stores := r.stores.map (fun x => if x.id = sid then f x else x) }
def Reg.count (r : Reg) (name : String) : Nat := (lookup r.counts name).getD 0

/-- `OpenBucket(url, name, mode)` giving the new handle the label `h`. -/
def openBucket (r : Reg) (h url name : String) (mode : Mode) : Reg × RErr :=
  match lookup r.buckets name with
  | some e =>
    -- getCachedBucket
    if mode = .createNew then (r, .exist)
    else if url ≠ e.url then (r, .urlMismatch)
    else
      ({ r with counts := insert r.counts name (r.count name + 1),
                handles := insert r.handles h { name := name, url := url, inMem := e.inMem, store := e.store, closed := false } }, .ok)
  | none =>
    if isMemUrl url then
      if mode = .reOpenExisting then (r, .notExist)
      else
        let st : Store := { id := r.nextStore, data := [], isOpen := true }
        ({ r with stores := r.stores ++ [st], nextStore := r.nextStore + 1,
                  buckets := insert r.buckets name { url := url, inMem := true, store := st.id },
                  counts := insert r.counts name (r.count name + 1),
                  handles := insert r.handles h { name := name, url := url, inMem := true, store := st.id, closed := false } }, .ok)
    else
      match lookup r.disk url with
      | some sid =>
        if mode = .createNew then (r, .exist)
        else
          -- reopen the database file found in the directory (a new connection pool on the same file)
          let r1 := r.modifyStore sid (fun st => { st with isOpen := true })
          ({ r1 with buckets := insert r1.buckets name { url := url, inMem := false, store := sid },
                     counts := insert r1.counts name (r1.count name + 1),
                     handles := insert r1.handles h { name := name, url := url, inMem := false, store := sid, closed := false } }, .ok)
      | none =>
        if mode = .reOpenExisting then (r, .notExist)
        else
          let st : Store := { id := r.nextStore, data := [], isOpen := true }
          ({ r with stores := r.stores ++ [st], nextStore := r.nextStore + 1, disk := insert r.disk url st.id,
                    buckets := insert r.buckets name { url := url, inMem := false, store := st.id },
                    counts := insert r.counts name (r.count name + 1),
                    handles := insert r.handles h { name := name, url := url, inMem := false, store := st.id, closed := false } }, .ok)

def closeStore (r : Reg) (sid : Nat) : Reg := r.modifyStore sid (fun st => { st with isOpen := false })

/-- `Bucket.Close`: idempotent per handle; releases one reference of the handle's bucket *name*. -/
def closeHandle (r : Reg) (h : String) : Reg × RErr :=
  match lookup r.handles h with
  | none => (r, .noHandle)
  | some hd =>
    if hd.closed then (r, .ok)
    else
      let n := r.count hd.name
      let r1 : Reg :=
        if n = 0 then r
        else if n = 1 then
          let r' := { r with counts := remove r.counts hd.name }
          if hd.inMem then r' else { closeStore r' hd.store with buckets := remove r'.buckets hd.name }
        else { r with counts := insert r.counts hd.name (n - 1) }
      ({ r1 with handles := insert r1.handles h { hd with closed := true } }, .ok)

/-- `Bucket.CloseAndDelete`: closes the shared database, drops the registry entry, removes the files. -/
def closeAndDelete (r : Reg) (h : String) : Reg × RErr :=
  match lookup r.handles h with
  | none => (r, .noHandle)
  | some hd =>
    let r1 := closeStore r hd.store
    let r2 := { r1 with buckets := remove r1.buckets hd.name, counts := remove r1.counts hd.name }
    let r3 : Reg := if hd.inMem then r2 else { r2 with disk := remove r2.disk hd.url }
    -- the data is gone: an in-memory database vanishes with its connection, the files are removed
    (r3.modifyStore hd.store (fun st => { st with data := [] }), .ok)

/-- A data operation through a handle (its default collection was obtained when it was opened). -/
def probeErr (r : Reg) (hd : Handle) : RErr :=
  if hd.closed then .closed
  else match r.store? hd.store with
    | some st => if st.isOpen then .ok else .dbClosed
    | none => .dbClosed

def put (r : Reg) (h k v : String) : Reg × RErr :=
  match lookup r.handles h with
  | none => (r, .noHandle)
  | some hd =>
    match probeErr r hd, r.store? hd.store with
    | .ok, some _ => (r.modifyStore hd.store (fun st => { st with data := insert st.data k v }), .ok)
    | e, _ => (r, e)

def get (r : Reg) (h k : String) : RErr × Option String :=
  match lookup r.handles h with
  | none => (.noHandle, none)
  | some hd =>
    match probeErr r hd, r.store? hd.store with
    | .ok, some st => (match lookup st.data k with | some v => (.ok, some v) | none => (.missing, none))
    | e, _ => (e, none)

def insertSortedS (x : String) : List String → List String
  | [] => [x]
  | y :: ys => if x < y then x :: y :: ys else y :: insertSortedS x ys

/-- `GetBucketNames`, the reference counts, and which directories exist — what the harness snapshots after every step. -/
def snapshot (r : Reg) (names urls : List String) : String :=
  let present := (names.filter (fun n => (lookup r.buckets n).isSome))
  let counts := names.filterMap (fun n => (lookup r.counts n).map (fun c => n ++ ":" ++ toString c))
  let dirs := urls.filter (fun u => (lookup r.disk u).isSome)
  "names=" ++ ",".intercalate present ++ " counts=" ++ ",".intercalate counts ++ " dirs=" ++ ",".intercalate dirs

inductive ROp where
  | open_ (h url name : String) (mode : Mode)
  | close (h : String)
  | cad (h : String)
  | put (h k v : String)
  | get (h k : String)
  deriving Repr, Inhabited

def rstep (r : Reg) : ROp → Reg × RErr × Option String
  | .open_ h url name mode => let x := openBucket r h url name mode; (x.1, x.2, none)
  | .close h => let x := closeHandle r h; (x.1, x.2, none)
  | .cad h => let x := closeAndDelete r h; (x.1, x.2, none)
  | .put h k v => let x := put r h k v; (x.1, x.2, none)
  | .get h k => let x := get r h k; (r, x.1, x.2)

def rrun (r : Reg) : List ROp → Reg
  | [] => r
  | op :: ops => rrun (rstep r op).1 ops

end Rosmar.Registry
