/-
  JSON as far as rosmar looks inside it: objects (ordered field lists) and opaque atoms
  (numbers, strings with their quotes, arrays, literals — kept as their source text).
  Core-only (no Mathlib): this module is linked into the model driver.
-/
namespace Rosmar

mutual
  inductive J where
    | atom (s : String) : J
    | obj (fs : Fields) : J
  inductive Fields where
    | nil : Fields
    | cons (k : String) (v : J) (rest : Fields) : Fields
end

namespace Fields

/-- Look a key up. -/
def get? : Fields → String → Option J
  | .nil, _ => none
  | .cons k v rest, q => if k = q then some v else rest.get? q

/-- Set (replace or append) a key. -/
def set : Fields → String → J → Fields
  | .nil, q, x => .cons q x .nil
  | .cons k v rest, q, x => if k = q then .cons k x rest else .cons k v (rest.set q x)

/-- Remove a key. -/
def erase : Fields → String → Fields
  | .nil, _ => .nil
  | .cons k v rest, q => if k = q then rest.erase q else .cons k v (rest.erase q)

/-- Insert keeping keys in ascending order (replacing an equal key). -/
def insertSorted : Fields → String → J → Fields
  | .nil, q, x => .cons q x .nil
  | .cons k v rest, q, x =>
    if q < k then .cons q x (.cons k v rest)
    else if q = k then .cons k x rest
    else .cons k v (rest.insertSorted q x)

def length : Fields → Nat
  | .nil => 0
  | .cons _ _ rest => rest.length + 1

end Fields

mutual
  /-- Canonical form: object keys sorted at every level (what Go's `json.Marshal` of a map prints). -/
  def J.canon : J → J
    | .atom s => .atom s
    | .obj fs => .obj (Fields.canon fs)
  def Fields.canon : Fields → Fields
    | .nil => .nil
    | .cons k v rest => (Fields.canon rest).insertSorted k (J.canon v)
end

mutual
  /-- Compact text. -/
  def J.print : J → String
    | .atom s => s
    | .obj fs => "{" ++ Fields.print fs true ++ "}"
  def Fields.print : Fields → Bool → String
    | .nil, _ => ""
    | .cons k v rest, first =>
      (if first then "" else ",") ++ "\"" ++ k ++ "\":" ++ J.print v ++ Fields.print rest false
end

/-! ### Parser (driver side; not used by any theorem)

Objects are parsed structurally; every other value is kept as the exact source text. -/

namespace Parse

/-- Skip a string literal body (after the opening quote); returns the rest after the closing quote. -/
def skipString : List Char → List Char → Option (List Char × List Char)
  | acc, '\\' :: c :: rest => skipString (c :: '\\' :: acc) rest
  | acc, '"' :: rest => some (acc.reverse, rest)
  | acc, c :: rest => skipString (c :: acc) rest
  | _, [] => none

/-- Skip a bracketed array, tracking nesting and strings; returns (text including brackets, rest). -/
def skipArray (fuel : Nat) (depth : Nat) (acc : List Char) (cs : List Char) : Option (List Char × List Char) :=
  match fuel with
  | 0 => none
  | fuel + 1 =>
    match cs with
    | [] => none
    | '"' :: rest =>
      match skipString [] rest with
      | none => none
      | some (s, rest') => skipArray fuel depth (('"' :: s.reverse) ++ ('"' :: acc)) rest'
    | '[' :: rest => skipArray fuel (depth + 1) ('[' :: acc) rest
    | ']' :: rest =>
      if depth ≤ 1 then some ((']' :: acc).reverse, rest) else skipArray fuel (depth - 1) (']' :: acc) rest
    | c :: rest => skipArray fuel depth (c :: acc) rest

def isDelim (c : Char) : Bool := c = ',' || c = '}' || c = ']' || c = ' ' || c = '\n' || c = '\t' || c = '\r'

def skipWs : List Char → List Char
  | c :: rest => if c = ' ' || c = '\n' || c = '\t' || c = '\r' then skipWs rest else c :: rest
  | [] => []

/-- Scalar token up to the next delimiter. -/
def takeScalar : List Char → List Char → (List Char × List Char)
  | acc, c :: rest => if isDelim c then (acc.reverse, c :: rest) else takeScalar (c :: acc) rest
  | acc, [] => (acc.reverse, [])

def validScalar (s : String) : Bool :=
  s = "true" || s = "false" || s = "null" ||
  (s.length > 0 && s.toList.all (fun c => c.isDigit || c = '-' || c = '+' || c = '.' || c = 'e' || c = 'E') &&
    (s.toList.head!.isDigit || s.toList.head! = '-'))

mutual
  def value (fuel : Nat) (cs : List Char) : Option (J × List Char) :=
    match fuel with
    | 0 => none
    | fuel + 1 =>
      match skipWs cs with
      | '{' :: rest =>
        match skipWs rest with
        | '}' :: rest' => some (.obj .nil, rest')
        | rest' =>
          match fields fuel rest' with
          | some (fs, rest'') => some (.obj fs, rest'')
          | none => none
      | '"' :: rest =>
        match skipString [] rest with
        | some (s, rest') => some (.atom ("\"" ++ String.ofList s ++ "\""), rest')
        | none => none
      | '[' :: rest =>
        match skipArray (rest.length + 2) 1 ['['] rest with
        | some (s, rest') => some (.atom (String.ofList s), rest')
        | none => none
      | cs' =>
        let (tok, rest) := takeScalar [] cs'
        let s := String.ofList tok
        if validScalar s then some (.atom s, rest) else none
  def fields (fuel : Nat) (cs : List Char) : Option (Fields × List Char) :=
    match fuel with
    | 0 => none
    | fuel + 1 =>
      match skipWs cs with
      | '"' :: rest =>
        match skipString [] rest with
        | none => none
        | some (k, rest') =>
          match skipWs rest' with
          | ':' :: rest'' =>
            match value fuel rest'' with
            | none => none
            | some (v, rest3) =>
              match skipWs rest3 with
              | ',' :: rest4 =>
                match fields fuel rest4 with
                | some (fs, rest5) => some (.cons (String.ofList k) v fs, rest5)
                | none => none
              | '}' :: rest4 => some (.cons (String.ofList k) v .nil, rest4)
              | _ => none
          | _ => none
      | _ => none
end

end Parse

/-- Parse a complete JSON text. -/
def J.parse (s : String) : Option J :=
  let cs := s.toList
  match Parse.value (cs.length + 2) cs with
  | some (j, rest) => if (Parse.skipWs rest).isEmpty then some j else none
  | none => none

/-- Drop duplicate keys (later wins), as decoding into a Go map does; then canonical order. -/
def J.normalize (j : J) : J := j.canon

end Rosmar
