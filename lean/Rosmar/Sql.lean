/-
  A deep embedding of the SQL that rosmar's write paths send to SQLite, and its row-level semantics.

  `tools/gen` parses every `UPDATE documents …` / `INSERT INTO documents …` string literal of /repo into the
  types below (`Gen/Sql.lean`, regenerated on every run; placeholders are resolved to the *Go expression* bound
  to them, so the binding order is part of what is regenerated).  `Gen/TieSql.lean` proves that each row
  function of the model (`addRow`, `setRow`, `wcasRow`, `removeRow`, `touchRow`, …) writes exactly the row
  the regenerated statement computes.  Core-only.

  Semantics modelled: SQLite's three-valued logic for `=`, `!=`, `AND`, `OR` (a WHERE clause accepts a row
  only when its condition is true, not NULL), `||` and `+` propagate NULL, `iif`, `IS [NOT] NULL`,
  `INSERT … ON CONFLICT(collection,key) DO UPDATE SET … WHERE …` (right-hand sides and the WHERE clause see the
  *existing* row), column defaults of `schema.sql`.  A statement is run against the one row whose
  `(collection, key)` is the pair the call addresses (`Option SRow`); `touchesOnly` in `Gen/TieSql.lean`
  justifies that for every regenerated statement (its WHERE clause / VALUES list pins both columns).
-/
import Rosmar.Basic
namespace Rosmar.Sql

inductive Col where
  | collection | key | value | cas | exp | isJSON | xattrs | tombstone | revSeqNo
  deriving DecidableEq, Repr, Inhabited

inductive SV where
  | null | int (n : Nat) | text (s : String)
  deriving DecidableEq, Repr, Inhabited

/-- Expressions. A placeholder is named by the Go expression bound to it. -/
inductive E where
  | col (c : Col) | par (goExpr : String) | lit (v : SV)
  | concat (a b : E) | iif (c a b : E) | add (a b : E)
  | eq (a b : E) | ne (a b : E) | lt (a b : E) | le (a b : E)
  | and (a b : E) | or (a b : E) | notNull (a : E) | isNull (a : E)
  deriving Repr, Inhabited

/-- One row of `documents` (without the autoincrement id). -/
structure SRow where
  collection : SV
  key : SV
  value : SV
  cas : SV
  exp : SV
  isJSON : SV
  xattrs : SV
  tombstone : SV
  revSeqNo : SV
  deriving DecidableEq, Repr, Inhabited

def SRow.get (r : SRow) : Col → SV
  | .collection => r.collection | .key => r.key | .value => r.value | .cas => r.cas | .exp => r.exp
  | .isJSON => r.isJSON | .xattrs => r.xattrs | .tombstone => r.tombstone | .revSeqNo => r.revSeqNo

def SRow.set (r : SRow) (c : Col) (v : SV) : SRow :=
  match c with
  | .collection => { r with collection := v } | .key => { r with key := v } | .value => { r with value := v }
  | .cas => { r with cas := v } | .exp => { r with exp := v } | .isJSON => { r with isJSON := v }
  | .xattrs => { r with xattrs := v } | .tombstone => { r with tombstone := v } | .revSeqNo => { r with revSeqNo := v }

def ofBool (b : Bool) : SV := .int (if b then 1 else 0)

/-- A condition accepts a row only when it is true (NULL and 0 reject). -/
def SV.truthy : SV → Bool
  | .int n => n != 0
  | _ => false

def SV.asText : SV → Option String
  | .null => none | .int n => some (toString n) | .text s => some s

/-- Comparison of two non-NULL values: equal only when of the same storage class and equal. -/
def SV.same : SV → SV → Bool
  | .int a, .int b => a == b
  | .text a, .text b => a == b
  | _, _ => false

/-- Bindings of the placeholders: Go expression ↦ value. -/
abbrev Env := String → SV

def E.eval (ps : Env) (r : SRow) : E → SV
  | .col c => r.get c
  | .par g => ps g
  | .lit v => v
  | .concat a b =>
    match (a.eval ps r).asText, (b.eval ps r).asText with
    | some x, some y => .text (x ++ y)
    | _, _ => .null
  | .iif c a b => if (c.eval ps r).truthy then a.eval ps r else b.eval ps r
  | .add a b =>
    match a.eval ps r, b.eval ps r with
    | .int x, .int y => .int (x + y)
    | _, _ => .null
  | .eq a b =>
    match a.eval ps r, b.eval ps r with
    | .null, _ => .null | _, .null => .null
    | x, y => ofBool (x.same y)
  | .ne a b =>
    match a.eval ps r, b.eval ps r with
    | .null, _ => .null | _, .null => .null
    | x, y => ofBool (!x.same y)
  | .lt a b =>
    match a.eval ps r, b.eval ps r with
    | .int x, .int y => ofBool (x < y)
    | _, _ => .null
  | .le a b =>
    match a.eval ps r, b.eval ps r with
    | .int x, .int y => ofBool (x ≤ y)
    | _, _ => .null
  | .and a b =>
    match a.eval ps r, b.eval ps r with
    | .int 0, _ => .int 0 | _, .int 0 => .int 0
    | .int _, .int _ => .int 1
    | _, _ => .null
  | .or a b =>
    match a.eval ps r, b.eval ps r with
    | .int (_ + 1), _ => .int 1 | _, .int (_ + 1) => .int 1
    | .int 0, .int 0 => .int 0
    | _, _ => .null
  | .notNull a => ofBool (a.eval ps r != .null)
  | .isNull a => ofBool (a.eval ps r == .null)

/-- `SET c₁=e₁, c₂=e₂, …`: every right-hand side sees the row as it was. -/
def applySets (ps : Env) (old : SRow) : List (Col × E) → SRow → SRow
  | [], acc => acc
  | (c, e) :: rest, acc => applySets ps old rest (acc.set c (e.eval ps old))

structure Update where
  sets : List (Col × E)
  cond : E
  deriving Repr, Inhabited

/-- `INSERT INTO documents (cols) VALUES (vals) [ON CONFLICT(collection,key) DO UPDATE SET sets [WHERE cond]]`. -/
structure Upsert where
  cols : List Col
  vals : List E
  conflict : Option (List (Col × E) × E)
  deriving Repr, Inhabited

/-- `SELECT … FROM documents WHERE cond [ORDER BY cols]` (also the WHERE clause of a `DELETE FROM documents`): which rows are read. -/
structure Select where
  cond : E
  orderBy : List Col
  deriving Repr, Inhabited

/-- Does the statement read / delete this row? -/
def Select.selects (q : Select) (ps : Env) (r : SRow) : Bool := (q.cond.eval ps r).truthy

/-- Column defaults of `schema.sql` (`exp default 0`, `isJSON default true`, `tombstone default 0`, `revSeqNo default 0`). -/
def defaultRow : SRow :=
  { collection := .null, key := .null, value := .null, cas := .null, exp := .int 0, isJSON := .int 1,
    xattrs := .null, tombstone := .int 0, revSeqNo := .int 0 }

def insertRow (ps : Env) : List Col → List E → SRow → SRow
  | c :: cs, e :: es, acc => insertRow ps cs es (acc.set c (e.eval ps defaultRow))
  | _, _, acc => acc

/-- Result of running a statement on the addressed row: the row afterwards, rows affected, constraint violated. -/
structure Res where
  row : Option SRow
  affected : Nat
  constraint : Bool := false
  deriving DecidableEq, Repr, Inhabited

def Update.exec (u : Update) (ps : Env) : Option SRow → Res
  | none => { row := none, affected := 0 }
  | some r =>
    if (u.cond.eval ps r).truthy then { row := some (applySets ps r u.sets r), affected := 1 }
    else { row := some r, affected := 0 }

def Upsert.exec (i : Upsert) (ps : Env) : Option SRow → Res
  | none => { row := some (insertRow ps i.cols i.vals defaultRow), affected := 1 }
  | some r =>
    match i.conflict with
    | none => { row := some r, affected := 0, constraint := true }
    | some (sets, cond) =>
      if (cond.eval ps r).truthy then { row := some (applySets ps r sets r), affected := 1 }
      else { row := some r, affected := 0 }

/-! ### Whole-table semantics (every collection's rows in one list, as in SQLite) -/

/-- `UPDATE documents SET … WHERE …` over the whole table: every row the condition accepts is rewritten, the others stay. -/
def Update.execTable (u : Update) (ps : Env) (t : List SRow) : List SRow :=
  t.map (fun r => if (u.cond.eval ps r).truthy then applySets ps r u.sets r else r)

/-- `DELETE FROM documents WHERE …` / the rows a `SELECT … WHERE …` reads. -/
def Select.deleteTable (q : Select) (ps : Env) (t : List SRow) : List SRow := t.filter (fun r => !q.selects ps r)
def Select.readTable (q : Select) (ps : Env) (t : List SRow) : List SRow := t.filter (fun r => q.selects ps r)

/-- The conjuncts of a condition. -/
def E.conjuncts : E → List E
  | .and a b => a.conjuncts ++ b.conjuncts
  | e => [e]

/-- Does the condition pin column `c` to placeholder `g` (`c = ?g` among its conjuncts)? -/
def E.pins (e : E) (c : Col) (g : String) : Bool :=
  e.conjuncts.any (fun x => match x with
    | .eq (.col c') (.par g') => c' == c && g' == g
    | _ => false)

/-- The value a VALUES list gives column `c`. -/
def Upsert.valueOf (i : Upsert) (c : Col) : Option E :=
  match (i.cols.zip i.vals).find? (fun p => p.1 == c) with
  | some p => some p.2
  | none => none

/-! ### The model's rows as SQL rows -/

def encX (xs : Xattrs) : SV :=
  match xs with
  | [] => .null
  | _ => .text (Xattrs.text xs)

def encV : Option String → SV
  | none => .null
  | some v => .text v

def enc (cid : Nat) (k : String) (r : Row) : SRow :=
  { collection := .int cid, key := .text k, value := encV r.value, cas := .int r.cas, exp := .int r.exp,
    isJSON := ofBool r.isJSON, xattrs := encX r.xattrs, tombstone := ofBool r.tomb, revSeqNo := .int r.rev }

end Rosmar.Sql
