/-
  Dropping and re-creating collections (`DropDataStore`, `NamedDataStore`), and what calls through a `*Collection` object of a
  dropped collection do. Core-only. Kept outside `step`: the KV proofs quantify over `Op`, these are separate actions.
-/
import Rosmar.Step
namespace Rosmar

/-- `DropDataStore`: the collection's row goes (documents, design documents and index rows cascade), its feeds end.
Dropping a collection that does not exist succeeds. The bucket's own `lastCas` and the clock are untouched. -/
def opDropColl (s : State) (c : String) : State :=
  { s with colls := s.colls.filter (fun p => p.1 ≠ c),
           feeds := s.feeds.map (fun f => if f.coll = c then { f with stopped := true } else f) }

/-- `NamedDataStore` of a collection that does not exist creates it: empty, never-written, with the next row id of the
`collections` table (`integer primary key autoincrement`: ids are never reused). Returns the collection's id. -/
def opMkColl (s : State) (c : String) : State × Nat :=
  match s.coll? c with
  | some x => (s, x.id)
  | none =>
    ({ s with colls := s.colls ++ [(c, { id := s.nextCollId, lastCas := 0, docs := [] })], nextCollId := s.nextCollId + 1 }, s.nextCollId)

/-- A call through a `*Collection` object whose collection was dropped: it runs against a collection without documents – reads
and calls that need an existing document answer as for a missing key; a call that would store a row fails on the foreign key and
the transaction is rolled back. Either way a CAS may have been drawn (the clock advances) and nothing else changes. -/
def stepDropped (s : State) (c : String) (op : Op) : State × Option Resp :=
  let ghost : State := { s with colls := s.colls ++ [(c, { id := 0, lastCas := 0, docs := [] })], feeds := [] }
  let (s2, resp) := step ghost op
  let wrote := s2.lastCas ≠ s.lastCas || (s2.coll? c).map (fun x => x.docs.length) ≠ some 0
  ({ s with hlc := s2.hlc }, if wrote then none else some resp)

theorem opDropColl_coll?_other (s : State) (c c' : String) (h : c' ≠ c) : (opDropColl s c).coll? c' = s.coll? c' := by
  unfold opDropColl State.coll?
  simp only
  induction s.colls with
  | nil => rfl
  | cons a as ih =>
    simp only [List.filter_cons]
    by_cases ha : a.1 = c
    · have hne : ¬ a.1 = c' := fun e => h (e ▸ ha ▸ rfl)
      simp only [ha, ne_eq, not_true_eq_false, decide_false, Bool.false_eq_true, if_false]
      rw [ih]
      have : ¬ (a.1 = c') := hne
      simp [List.find?_cons, this]
    · simp only [ne_eq, ha, not_false_eq_true, decide_true, if_true, List.find?_cons]
      by_cases hc : a.1 = c'
      · simp [hc]
      · simp only [hc, decide_false]; exact ih

theorem opDropColl_gone (s : State) (c : String) : (opDropColl s c).coll? c = none := by
  unfold opDropColl State.coll?
  simp only
  induction s.colls with
  | nil => rfl
  | cons a as ih =>
    simp only [List.filter_cons]
    by_cases ha : a.1 = c
    · simp only [ha, ne_eq, not_true_eq_false, decide_false, Bool.false_eq_true, if_false]; exact ih
    · simp only [ne_eq, ha, not_false_eq_true, decide_true, if_true, List.find?_cons, decide_false]; exact ih

/-- Calls through a dropped collection's object change no collection. -/
theorem stepDropped_colls (s : State) (c : String) (op : Op) : (stepDropped s c op).1.colls = s.colls := rfl

theorem stepDropped_marks (s : State) (c : String) (op : Op) :
    (stepDropped s c op).1.lastCas = s.lastCas ∧ (stepDropped s c op).1.acked = s.acked ∧ (stepDropped s c op).1.expNext = s.expNext := ⟨rfl, rfl, rfl⟩

end Rosmar
