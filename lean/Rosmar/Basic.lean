/-
  State of the model: rows, collections, the store, process-level clock and expiry manager, feeds.
  Core-only.
-/
import Rosmar.Json
namespace Rosmar

/-- The small error enum shared with the harness' canonicaliser. -/
inductive Err where
  | ok | missing | casMismatch | keyExists | tooBig | xattrMissing | unimplemented
  | pathNotFound | pathExists | pathMismatch | needXattrs | needBody | nilXattr
  | delXattrOnInsert | upsertAndDelete | delXattrOnTombstone | closed
  | badXattrKey | badXattrJson | badPath | macroNotMap | macroPath | badJson | cbErr | dbClosed
  deriving DecidableEq, Repr, Inhabited

def Err.name : Err → String
  | .ok => "ok" | .missing => "missing" | .casMismatch => "casmismatch" | .keyExists => "keyexists"
  | .tooBig => "toobig" | .xattrMissing => "xattrmissing" | .unimplemented => "unimplemented"
  | .pathNotFound => "pathnotfound" | .pathExists => "pathexists" | .pathMismatch => "pathmismatch"
  | .needXattrs => "needxattrs" | .needBody => "needbody" | .nilXattr => "nilxattr"
  | .delXattrOnInsert => "delxattroninsert" | .upsertAndDelete => "upsertanddelete"
  | .delXattrOnTombstone => "delxattrontombstone" | .closed => "closed"
  | .badXattrKey => "badxattrkey" | .badXattrJson => "badxattrjson" | .badPath => "badpath"
  | .macroNotMap => "macronotmap" | .macroPath => "macropath" | .badJson => "badjson" | .cbErr => "cberr"
  | .dbClosed => "dbclosed"

/-- xattrs column: a name-sorted association list of raw JSON values; `[]` is SQL NULL. -/
abbrev Xattrs := List (String × String)

namespace Xattrs
def get? : Xattrs → String → Option String
  | [], _ => none
  | (k, v) :: rest, q => if k = q then some v else get? rest q

/-- Insert or replace keeping names in ascending order. -/
def set : Xattrs → String → String → Xattrs
  | [], q, x => [(q, x)]
  | (k, v) :: rest, q, x =>
    if q < k then (q, x) :: (k, v) :: rest
    else if q = k then (k, x) :: rest
    else (k, v) :: set rest q x

def erase : Xattrs → String → Xattrs
  | [], _ => []
  | (k, v) :: rest, q => if k = q then erase rest q else (k, v) :: erase rest q

/-- System xattrs are the ones whose name starts with an underscore. -/
def isSystemName (n : String) : Bool := n.toList.head? = some '_'

def systemOnly (xs : Xattrs) : Xattrs := xs.filter (fun p => isSystemName p.1)

/-- The stored JSON text of a non-empty xattrs column. -/
def text (xs : Xattrs) : String :=
  "{" ++ ",".intercalate (xs.map (fun p => "\"" ++ p.1 ++ "\":" ++ p.2)) ++ "}"
end Xattrs

/-- One row of the `documents` table. -/
structure Row where
  rowid : Nat
  value : Option String
  cas : Nat
  exp : Nat
  isJSON : Bool
  xattrs : Xattrs
  tomb : Bool
  rev : Nat
  deriving DecidableEq, Repr, Inhabited

/-- Association list keyed by document key. -/
abbrev Docs := List (String × Row)

namespace Docs
def get? : Docs → String → Option Row
  | [], _ => none
  | (k, r) :: rest, q => if k = q then some r else get? rest q

/-- Replace the row of an existing key, or append a new key. -/
def put : Docs → String → Row → Docs
  | [], q, r => [(q, r)]
  | (k, r0) :: rest, q, r => if k = q then (k, r) :: rest else (k, r0) :: put rest q r
end Docs

structure Coll where
  id : Nat
  lastCas : Nat
  docs : Docs
  deriving Repr, Inhabited

/-- A feed event as `asFeedEvent` builds it (before the xattr framing, which the harness decodes). -/
structure Event where
  key : String
  value : Option String
  isDeletion : Bool
  isJSON : Bool
  xattrs : Xattrs
  cas : Nat
  exp : Nat
  rev : Nat
  deriving DecidableEq, Repr, Inhabited

inductive FeedItem where
  | beginBackfill | endBackfill
  | ev (e : Event) (collId : Nat) (keysOnlyLive : Bool)
  deriving Repr, Inhabited

structure Feed where
  id : String
  coll : String
  keysOnly : Bool
  dump : Bool
  pending : List FeedItem   -- delivered but not yet printed (oldest first)
  ckPrefix : String := ""   -- CheckpointPrefix ("" = none)
  lastCas : Nat := 0        -- highest CAS delivered in this run (or read from the checkpoint)
  changed : Bool := false   -- lastCasChanged
  stopped : Bool := false   -- its queue was closed (terminator, dump end, drop, shutdown)
  deriving Repr, Inhabited

/-- Everything one program can observe. Collections are addressed by the protocol's labels. -/
structure State where
  hlc : Nat := 0          -- process-global hybrid logical clock: highest time handed out
  phys : Nat := 0         -- scripted physical clock reading (nanoseconds)
  now : Nat := 0          -- scripted wall clock (seconds)
  lastCas : Nat := 0      -- bucket.lastCas
  colls : List (String × Coll) := []
  nextRowId : Nat := 1
  nextCollId : Nat := 1
  expNext : Nat := 0      -- expiry manager: next scheduled time (0 = none)
  feeds : List Feed := []
  acked : List Nat := []  -- ghost history: CAS of every committed `withNewCas` transaction, newest first
  deriving Repr, Inhabited

namespace State
def coll? (s : State) (c : String) : Option Coll :=
  (s.colls.find? (fun p => p.1 = c)).map (·.2)

def setColl (s : State) (c : String) (x : Coll) : State :=
  { s with colls := s.colls.map (fun p => if p.1 = c then (p.1, x) else p) }

def row? (s : State) (c k : String) : Option Row :=
  match s.coll? c with
  | some x => x.docs.get? k
  | none => none
end State

end Rosmar
