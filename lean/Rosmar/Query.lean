/-
  `collection+query.go`: the `$_keyspace` common table expression and a family of queries over it. Core-only.
  SQLite evaluating the user's statement is outside the model: each member of the family has a hand-written twin here.
-/
import Rosmar.Step
namespace Rosmar

/-- One row of `$_keyspace`: `SELECT key AS id, value AS body, xattrs FROM documents WHERE collection = <id> AND value NOT NULL`. -/
structure KsRow where
  id : String
  body : String
  xattrs : Xattrs
  deriving Repr, Inhabited

def keyspace (s : State) (c : String) : List KsRow :=
  match s.coll? c with
  | none => []
  | some x => x.docs.filterMap (fun d => d.2.value.map (fun b => { id := d.1, body := b, xattrs := d.2.xattrs }))

def insertById (x : KsRow) : List KsRow → List KsRow
  | [] => [x]
  | y :: ys => if x.id < y.id then x :: y :: ys else y :: insertById x ys

def orderById (l : List KsRow) : List KsRow := l.foldr insertById []

def jsonValid (b : String) : Bool := (J.parse b).isSome

def quoteId (id : String) : String := "\"" ++ id ++ "\""

/-- `body->>'$.a' >= 50` for the bodies the family is run on (numbers, null or absent). -/
def bodyAAtLeast (b : String) (n : Nat) : Bool :=
  match J.parse b with
  | some (.obj fs) =>
    match fs.get? "a" with
    | some (.atom t) => (match t.toNat? with | some v => v ≥ n | none => false)
    | _ => false
  | _ => false

/-- The rows (JSON texts, as the result iterator assembles them) of query `q` of the family on collection `c`. -/
def opQuery (s : State) (c : String) (q : Nat) : List String :=
  let ks := orderById (keyspace s c)
  match q with
  | 1 => ks.map (fun r => "{\"id\":" ++ quoteId r.id ++ "}")
  | 2 => ["{\"n\":" ++ toString (keyspace s c).length ++ "}"]
  | 3 => (ks.filter (fun r => jsonValid r.body)).map (fun r => "{\"id\":" ++ quoteId r.id ++ ",\"doc\":" ++ r.body ++ "}")
  | 4 => (ks.filter (fun r => !r.xattrs.isEmpty)).map (fun r => "{\"id\":" ++ quoteId r.id ++ "}")
  | 5 => ks.filterMap (fun r => (Xattrs.get? r.xattrs "_sync").map (fun v => "{\"id\":" ++ quoteId r.id ++ ",\"s\":" ++ v ++ "}"))
  | 6 => (ks.filter (fun r => jsonValid r.body && bodyAAtLeast r.body 50)).map (fun r => "{\"id\":" ++ quoteId r.id ++ "}")
  | _ => []

end Rosmar
