/-
  `collection+subdoc.go`: GetSubDocRaw, WriteSubDoc, SubdocInsert as read / edit / conditional-write over the
  JSON object model (sequential view; the retry loop only matters under interleaving). Core-only.
-/
import Rosmar.Feed
namespace Rosmar

/-- The document as `Get(key, &map[string]any)` sees it: an object, or an error class. -/
def bodyAsObject (raw : String) : Err ⊕ J :=
  match J.parse raw with
  | some (.obj fs) => .inr (.obj fs)
  | _ => .inl .badJson

def dropLast' : List String → List String
  | [] => []
  | [_] => []
  | x :: y :: rest => x :: dropLast' (y :: rest)

def last' : List String → String
  | [] => ""
  | [x] => x
  | _ :: y :: rest => last' (y :: rest)

/-- The property is present with a non-null value (what `parent[lastPath] != nil` tests). -/
def hasNonNull (fs : Fields) (k : String) : Bool :=
  match fs.get? k with
  | some v => !v.isNullAtom
  | none => false

/-- The edit of `subdocWrite` on the parsed document. -/
def subdocEdit (doc : J) (path : List String) (value : Option J) (insert : Bool) : Err ⊕ J :=
  match evalSubdocPath doc (dropLast' path) with
  | .inl e => .inl e
  | .inr (.atom _) => .inl .pathMismatch
  | .inr (.obj fs) =>
    if insert ∧ hasNonNull fs (last' path) then .inl .pathExists
    else upsertAt doc path value

/-- The read-and-edit part of `subdocWrite`: an error, or the CAS that was read and the new document text. -/
def subdocPlan (s : State) (c k : String) (pathStr : String) (cas : Nat) (value : Option String) (insert : Bool) : Out ⊕ (Nat × String) :=
  match parseSubdocPath pathStr with
  | .inl e => .inl { err := e }
  | .inr path =>
    let parsedValue : Err ⊕ Option J :=
      match value with
      | none => .inr none
      | some txt => match J.parse txt with
        | some j => .inr (if j.isNullAtom then none else some j)   -- a JSON null decodes to Go's nil: "remove"
        | none => .inl .badJson
    match parsedValue with
    | .inl e => .inl { err := e }
    | .inr v =>
      let g := getRaw s c k
      let doc : Err ⊕ J :=
        match g.2.1 with
        | some body => bodyAsObject body
        | none => if g.1 = .missing ∧ insert then .inl .missing else .inr (.obj .nil)
      match doc with
      | .inl e => .inl { err := e }
      | .inr d =>
        if cas ≠ 0 ∧ g.2.2 ≠ cas then .inl { err := .casMismatch, actual := some g.2.2 }
        else
          match subdocEdit d path v insert with
          | .inl e => .inl { err := e }
          | .inr d' => .inr (g.2.2, d'.canon.print)

/-- `WriteSubDoc` (`insert = false`; an absent value removes the property) and `SubdocInsert` (`insert = true`):
    read, edit, then `WriteCas` on exactly the version that was read. -/
def opSubdocWrite (s : State) (c k : String) (pathStr : String) (cas : Nat) (value : Option String) (insert : Bool) : State × Out :=
  match subdocPlan s c k pathStr cas value insert with
  | .inl out => (s, out)
  | .inr (casRead, body) => opWriteCas s c k 0 casRead (some body) {}

/-- `GetSubDocRaw`. -/
def opGetSubDocRaw (s : State) (c k : String) (pathStr : String) : Out :=
  match parseSubdocPath pathStr with
  | .inl e => { err := e }
  | .inr path =>
    match getRaw s c k with
    | (.ok, some body, cas) =>
      match bodyAsObject body with
      | .inl e => { err := e }
      | .inr d =>
        match evalSubdocPath d path with
        | .inl e => { err := e }
        | .inr v => { cas := cas, val := some v.canon.print }
    | (e, _, _) => { err := if e = .ok then .missing else e }

end Rosmar
