/-
  `feeds.go` (sequential view): starting a feed with backfill, registration, delivery;
  the expiry sweep of `bucket_api.go`/`expiry_manager.go`; and the compound read-modify-write
  loops (`Update`, `WriteUpdateWithXattrs`) as programs over the atomic actions. Core-only.
-/
import Rosmar.Xattr
namespace Rosmar

/-- The event a stored row produces in a backfill (`enqueueBackfillEvents`). -/
def backfillEvent (k : String) (r : Row) (keysOnly : Bool) : Event :=
  { key := k, value := if keysOnly then none else r.value, isDeletion := r.tomb, isJSON := r.isJSON,
    xattrs := if keysOnly then [] else r.xattrs, cas := r.cas, exp := r.exp, rev := r.rev }

/-- Insertion sort by CAS (ascending); equal CAS keep table order. -/
def insertByCas (x : String × Row) : List (String × Row) → List (String × Row)
  | [] => [x]
  | y :: ys => if x.2.cas < y.2.cas then x :: y :: ys else y :: insertByCas x ys

def sortByCas (l : List (String × Row)) : List (String × Row) := l.foldr insertByCas []

/-- `SELECT … WHERE collection=?1 AND cas >= ?2 ORDER BY cas`. -/
def backfillRows (docs : Docs) (startCas : Nat) : List (String × Row) :=
  sortByCas (docs.filter (fun d => d.2.cas ≥ startCas))

inductive Backfill where
  | none | from (cas : Nat) | resume
  deriving Repr, Inhabited

def checkpointKey (pfx id : String) : String := pfx ++ ":" ++ id

/-- `readCheckpoint`: the `last_seq` stored in the checkpoint document, 0 when there is none. -/
def readCheckpoint (s : State) (c pfx id : String) : Nat :=
  match getRaw s c (checkpointKey pfx id) with
  | (.ok, some body, _) =>
    (match J.parse body with
     | some (.obj fs) => (match fs.get? "last_seq" with
        | some (.atom t) => (parseUInt64 t).getD 0
        | _ => 0)
     | _ => 0)
  | _ => 0

def itemCas : FeedItem → Nat
  | .ev e _ _ => e.cas
  | _ => 0

/-- The highest CAS among delivered items and the feed's previous mark (`run`: `if event.Cas > feed.lastCas`). -/
def deliverMark (last : Nat) (items : List FeedItem) : Nat := items.foldl (fun a it => if itemCas it > a then itemCas it else a) last

def checkpointBody (n : Nat) : String := "{\"last_seq\":" ++ toString n ++ "}"

/-- `Collection.StartDCPFeed`: backfill events are queued (from the start CAS, or from the checkpoint + 1 in resume
    mode), then the feed is registered — or, for a dump, runs to its end at once: everything is delivered and, when a
    checkpoint prefix is set and something was delivered, the checkpoint is written (an ordinary `Set`). -/
def opStartFeed (s : State) (id c : String) (bf : Backfill) (dump keysOnly : Bool) (pfx : String := "") : State × Out :=
  match s.coll? c with
  | none => (s, { err := .closed })
  | some x =>
    let ck := match bf with | .resume => readCheckpoint s c pfx id | _ => 0
    let start : Option Nat := match bf with | .none => none | .from n => some n | .resume => some (ck + 1)
    let items : List FeedItem :=
      match start with
      | none => []
      | some startCas =>
        [.beginBackfill] ++ (backfillRows x.docs startCas).map (fun d => .ev (backfillEvent d.1 d.2 keysOnly) x.id false) ++ [.endBackfill]
    let f : Feed := { id := id, coll := c, keysOnly := keysOnly, dump := dump, pending := items, ckPrefix := pfx, lastCas := ck }
    let s1 := { s with feeds := (s.feeds.filter (fun g => g.id ≠ id)) ++ [f] }
    if dump then
      let mark := deliverMark ck items
      let s2 := { s1 with feeds := s1.feeds.map (fun g => if g.id = id then { g with lastCas := mark, changed := mark != ck, stopped := true } else g) }
      if pfx ≠ "" ∧ mark ≠ ck then ((opSet s2 c (checkpointKey pfx id) 0 false (checkpointBody mark) false).1, {}) else (s2, {})
    else (s1, {})

/-- Take everything delivered to the feed since the last drain (and advance the feed's delivered mark). -/
def opDrain (s : State) (id : String) : State × List FeedItem :=
  match s.feeds.find? (fun f => f.id = id) with
  | none => (s, [])
  | some f =>
    let mark := if f.dump then f.lastCas else deliverMark f.lastCas f.pending
    ({ s with feeds := s.feeds.map (fun g => if g.id = id then { g with pending := [], lastCas := mark, changed := g.changed || mark != f.lastCas } else g) }, f.pending)

/-- Closing the feed's terminator: the queue is closed (what is still queued is dropped), the run loop ends, and the
    checkpoint is written if a prefix is set and the delivered mark moved. -/
def opStopFeed (s : State) (id : String) : State × Out :=
  match s.feeds.find? (fun f => f.id = id) with
  | none => (s, {})
  | some f =>
    if f.stopped then (s, {})
    else
      let s1 := { s with feeds := s.feeds.map (fun g => if g.id = id then { g with pending := [], stopped := true } else g) }
      if f.ckPrefix ≠ "" ∧ f.changed then ((opSet s1 f.coll (checkpointKey f.ckPrefix id) 0 false (checkpointBody f.lastCas) false).1, {}) else (s1, {})

/-! ### Expiry sweep (`doExpiration`), with the wall clock as input -/

def insertByExp (x : String × Row) : List (String × Row) → List (String × Row)
  | [] => [x]
  | y :: ys => if x.2.exp < y.2.exp ∨ (x.2.exp = y.2.exp ∧ x.2.rowid < y.2.rowid) then x :: y :: ys else y :: insertByExp x ys

/-- Keys of a collection that are due, in the order the `docs_exp` index yields them. -/
def dueKeys (docs : Docs) (now : Nat) : List String :=
  ((docs.filter (fun d => d.2.exp > 0 ∧ d.2.exp ≤ now)).foldr insertByExp []).map (·.1)

/-- `SELECT min(exp) FROM documents WHERE exp > 0` over every collection. -/
def minExp (s : State) : Nat :=
  (s.colls.foldl (fun acc p => p.2.docs.foldl (fun a d =>
    if d.2.exp > 0 ∧ (a = 0 ∨ d.2.exp < a) then d.2.exp else a) acc) 0)

def insertCollById (q : String × Coll) : List (String × Coll) → List (String × Coll)
  | [] => [q]
  | y :: ys => if q.2.id < y.2.id then q :: y :: ys else y :: insertCollById q ys

/-- The timer function: clear `next`, delete every due document collection by collection, re-arm from the earliest expiry left. -/
def opFireExpiry (s : State) : State :=
  let s0 := { s with expNext := 0 }
  let collsById := s0.colls.foldr insertCollById []
  let s1 := collsById.foldl (fun st p =>
    match st.coll? p.1 with
    | none => st
    | some x => (dueKeys x.docs st.now).foldl (fun st' k => (opDelete st' p.1 k).1) st) s0
  let m := minExp s1
  if m > 0 then { s1 with expNext := schedAtOrBefore s1.expNext m } else s1

/-! ### Compound calls as loops over atomic actions (sequential: nothing interleaves) -/

/-- One scripted answer of an `Update` callback. -/
inductive UpdStep where
  | set (b : String) | del | cancel | err | retry | exp (e : Nat) (b : Option String)
  | delif (b : String)     -- a callback that looks at what it is shown: delete if the body is `b`, else cancel
  | setifnil (b : String)  -- … store `b` if it is shown no document, else cancel
  deriving Repr, Inhabited

def showOpt (v : Option String) : String := match v with | none => "~" | some s => "=" ++ s

/-- `Collection.Update`. `steps` answers successive callback invocations (the last one repeats). -/
def opUpdate (fuel : Nat) (s : State) (c k : String) (exp : Nat) (steps : List UpdStep) (calls : Nat) (seen : List String) : State × Out :=
  match fuel with
  | 0 => (s, { err := .cbErr, calls := calls, seen := seen })
  | fuel + 1 =>
    let (_, raw, cas) := getRaw s c k
    let step := steps.head?.getD .cancel
    let rest := if steps.length > 1 then steps.tail else steps
    let calls := calls + 1
    let seen := seen ++ [showOpt raw]
    let write (raw' : Option String) (exp' : Nat) : State × Out :=
      let (s', out) := opWriteCas s c k exp' cas raw' {}
      if out.err = .ok then (s', { cas := out.cas, calls := calls, seen := seen })
      else if out.err = .casMismatch then opUpdate fuel s' c k exp rest calls seen
      else (s', { err := out.err, calls := calls, seen := seen })
    match step with
    | .retry => opUpdate fuel s c k exp rest calls seen
    | .err => (s, { err := .cbErr, cas := cas, calls := calls, seen := seen })
    | .cancel => (s, { calls := calls, seen := seen })
    | .set b => write (some b) exp
    | .del => write none exp
    | .delif b => if raw = some b then write none exp else (s, { calls := calls, seen := seen })
    | .setifnil b => if raw = none then write (some b) exp else (s, { calls := calls, seen := seen })
    | .exp e b => write (match b with | some x => some x | none => raw) e

inductive WuStep where
  | doc (b : String) | xonly | tomb | err | retry
  deriving Repr, Inhabited

/-- `WriteUpdateWithXattrs` with `previous = nil`; the callback's xattrs/deletes/macros/expiry are fixed per call. -/
def opWuwx (fuel : Nat) (s : State) (c k : String) (names : List String) (steps : List WuStep)
    (sets : List (String × Option String)) (dels : Option (List String)) (macros : List (String × MacroKind))
    (cbExp : Option Nat) (preserveExp : Bool) (accMacros : List (String × MacroKind)) (calls : Nat) (seen : List String) : State × Out :=
  match fuel with
  | 0 => (s, { err := .cbErr, calls := calls, seen := seen })
  | fuel + 1 =>
    -- getRawWithXattrs (a missing document reads as the zero BucketDocument)
    let (body, xs, cas, isTomb) : Option String × Option Xattrs × Nat × Bool :=
      match s.row? c k with
      | none => (none, none, 0, false)
      | some r => (r.value, some (requestedXattrs r names), r.cas, r.tomb)
    let step := steps.head?.getD .err
    let rest := if steps.length > 1 then steps.tail else steps
    let calls := calls + 1
    let showX : String := match xs with
      | none => "~"
      | some l => "{" ++ ",".intercalate (l.map (fun p => p.1 ++ "=" ++ p.2)) ++ "}"
    let seen := seen ++ [showOpt body ++ "/" ++ showX ++ "/" ++ toString cas]
    let exp := cbExp.getD 0
    let finish (r : State × Out) (accMacros' : List (String × MacroKind)) : State × Out :=
      if r.2.err = .casMismatch ∨ r.2.err = .keyExists then
        opWuwx fuel r.1 c k names rest sets dels macros cbExp preserveExp accMacros' calls seen
      else (r.1, { r.2 with calls := calls, seen := seen, actual := none })
    match step with
    | .retry => opWuwx fuel s c k names rest sets dels macros cbExp preserveExp accMacros calls seen
    | .err => (s, { err := .cbErr, cas := cas, calls := calls, seen := seen })
    | .tomb =>
      let am := accMacros ++ macros
      finish (opWriteTombstoneWithXattrs s c k exp cas sets dels body.isSome am) am
    | .doc b =>
      let am := accMacros ++ macros
      if isTomb then
        if (dels.getD []).length > 0 then (s, { err := .delXattrOnTombstone, calls := calls, seen := seen })
        else finish (opWriteResurrectionWithXattrs s c k exp (some b) sets preserveExp am) am
      else finish (opWriteWithXattrs s c k exp cas (some b) sets dels preserveExp am) am
    | .xonly =>
      let am := accMacros ++ macros
      if isTomb then
        if (dels.getD []).length > 0 then (s, { err := .delXattrOnTombstone, calls := calls, seen := seen })
        else finish (opWriteResurrectionWithXattrs s c k exp none sets preserveExp am) am
      else finish (opWriteWithXattrs s c k exp cas none sets dels preserveExp am) am

end Rosmar
