/-
  C04 — CAS values are unique and strictly increasing, whatever the clock does.
-/
import Rosmar.Proofs.Clock
import Rosmar.Colls
namespace Rosmar

/-- **Whatever the physical clock reads** (standing still, jumping backwards, any value at all), a timestamp drawn
    from the hybrid logical clock is strictly greater than every timestamp it handed out before. -/
theorem C04_now_strictly_increases (highest phys : Nat) : hlcNow highest phys > highest := hlcNow_gt highest phys

/-- Folding any sequence of clock readings yields a strictly increasing sequence of timestamps, all above the seed. -/
def drawAll (highest : Nat) : List Nat → List Nat
  | [] => []
  | p :: ps => hlcNow highest p :: drawAll (hlcNow highest p) ps

theorem C04_any_clock_script (readings : List Nat) : ∀ highest,
    (drawAll highest readings).Pairwise (· < ·) ∧ ∀ x ∈ drawAll highest readings, highest < x := by
  induction readings with
  | nil => intro h; simp [drawAll]
  | cons p ps ih =>
    intro h
    obtain ⟨ih1, ih2⟩ := ih (hlcNow h p)
    have hgt := hlcNow_gt h p
    refine ⟨?_, ?_⟩
    · simp only [drawAll, List.pairwise_cons]
      exact ⟨fun a ha => ih2 a ha, ih1⟩
    · intro x hx
      simp only [drawAll, List.mem_cons] at hx
      rcases hx with rfl | hx
      · exact hgt
      · have := ih2 x hx; omega

/-- **Every reachable state, every history** (all entry points, compound calls, WithMeta writes, purges, expiry
    sweeps, draws by other buckets of the process, arbitrary clock scripts): the log of CAS values of committed
    regular-API transactions is strictly increasing in commit order, each is at most the persisted high-water
    mark `bucket.lastCas`, and that mark never exceeds the clock. -/
theorem C04_committed_cas_strictly_increasing (ops : List Op) :
    let s := (run initState ops).1
    s.acked.Pairwise (· > ·) ∧ (∀ x ∈ s.acked, x ≤ s.lastCas) ∧ s.lastCas ≤ s.hlc :=
  let h := run_inv clockInv_step ops initState (fun _ _ => trivial) initState_clockInv
  ⟨h.1, h.2.1, h.2.2.1⟩

/-- **Every successful mutation is stamped with the CAS just drawn** (the one exception, a touch, keeps the document's
    CAS), and that CAS enters the committed log: so a later write to a key always carries a larger CAS than an earlier one. -/
theorem C04_mutation_stamped_with_drawn_cas (s : State) (op : Op) (c k : String) (f : RowFn) (h : op.shape = some (.row c k f))
    (r' : Row) (ev : Option Event) (out : Out)
    (hf : f (hlcNow s.hlc s.phys) s.now (s.row? c k) = .inr (some r', ev, out)) :
    (r'.cas = hlcNow s.hlc s.phys ∨ r'.cas = casOf (s.row? c k)) ∧ hlcNow s.hlc s.phys > s.hlc := by
  refine ⟨?_, hlcNow_gt _ _⟩
  rcases (shape_family oneEventPerNewCas_family op c k f h).1 _ _ _ _ _ _ hf with ⟨h1, _⟩ | ⟨h1, _⟩
  · exact Or.inl h1
  · exact Or.inr h1

/-- **Close / kill and reopen**: the clock of the reopening process — whatever it read before, 0 for a new process —
    is re-seeded from the persisted high-water mark, so every CAS handed out after the reopen is strictly greater
    than every CAS committed before it. -/
theorem C04_reopen (ops : List Op) (processHlc phys : Nat) :
    ∀ x ∈ (reopen (run initState ops).1 processHlc).acked, x < hlcNow (reopen (run initState ops).1 processHlc).hlc phys := by
  intro x hx
  have h := reopen_clockInv _ processHlc (run_inv clockInv_step ops initState (fun _ _ => trivial) initState_clockInv)
  have h1 := h.2.1 x hx
  have h2 := h.2.2.1
  have := hlcNow_gt (reopen (run initState ops).1 processHlc).hlc phys
  omega

/-- The invariant survives the reopen, so everything above keeps holding for the history that follows it. -/
theorem C04_reopen_then_run (ops ops' : List Op) (processHlc : Nat) :
    let s := (run (reopen (run initState ops).1 processHlc) ops').1
    s.acked.Pairwise (· > ·) ∧ s.lastCas ≤ s.hlc :=
  let h := run_inv clockInv_step ops' _ (fun _ _ => trivial)
    (reopen_clockInv _ processHlc (run_inv clockInv_step ops initState (fun _ _ => trivial) initState_clockInv))
  ⟨h.1, h.2.2.1⟩

/-- Non-vacuity: the clock stands still, then jumps backwards; three writes still get increasing CAS values. -/
example :
    let s1 := (run initState [.clock 5000000, .set "c0" "a" 0 false "1" false, .set "c0" "b" 0 false "1" false,
                              .clock 1000, .set "c0" "a" 0 false "2" false]).1
    s1.acked = [4980738, 4980737, 4980736] := by
  decide

/-- **Dropping a collection does not lower the marks the clock is re-seeded from**: the bucket's own high-water mark, the
committed log and the clock are untouched, so a reopen after the drop – even of the collection that received the highest CAS –
still hands out only CAS values above everything committed before (`C04_reopen` applies to the state after the drop). -/
theorem C04_drop_keeps_clock_invariant (s : State) (c : String) (h : ClockInv s) : ClockInv (opDropColl s c) := by
  obtain ⟨h1, h2, h3, h4⟩ := h
  refine ⟨h1, h2, h3, ?_⟩
  intro p hp
  unfold opDropColl at hp
  exact h4 p (List.mem_filter.mp hp).1

theorem C04_create_keeps_clock_invariant (s : State) (c : String) (h : ClockInv s) : ClockInv (opMkColl s c).1 := by
  obtain ⟨h1, h2, h3, h4⟩ := h
  unfold opMkColl
  split
  · exact ⟨h1, h2, h3, h4⟩
  · refine ⟨h1, h2, h3, ?_⟩
    intro p hp
    simp only [List.mem_append, List.mem_singleton] at hp
    rcases hp with hp | rfl
    · exact h4 p hp
    · exact Nat.zero_le _

theorem C04_reopen_after_drop (s : State) (c : String) (h : ClockInv s) (processHlc phys : Nat) :
    ∀ x ∈ (reopen (opDropColl s c) processHlc).acked, x < hlcNow (reopen (opDropColl s c) processHlc).hlc phys := by
  intro x hx
  have hi := reopen_clockInv _ processHlc (C04_drop_keeps_clock_invariant s c h)
  have h1 := hi.2.1 x hx
  have h2 := hi.2.2.1
  have h3 := hlcNow_gt (reopen (opDropColl s c) processHlc).hlc phys
  omega

end Rosmar
