/-
  C13 — bucket handle lifecycle: open modes, sharing, reference counting and deletion (sequential part).
  The reference-count invariant over whole histories is validated by the correspondence check (the harness compares
  `cluster.bucketCount`, `GetBucketNames` and the directories with the model after every step), not proved here;
  the concurrent-open race is a known finding (F13).
-/
import Rosmar.Registry
namespace Rosmar.Registry

theorem lookup_insert_same {α : Type} (l : List (String × α)) (k : String) (v : α) : lookup (insert l k v) k = some v := by
  induction l with
  | nil => simp [insert, lookup]
  | cons hd tl ih =>
    obtain ⟨k0, v0⟩ := hd
    by_cases h : k0 = k
    · simp [insert, lookup, h]
    · simp [insert, lookup, h, ih]

theorem lookup_insert_other {α : Type} (l : List (String × α)) (k k' : String) (v : α) (h : k' ≠ k) :
    lookup (insert l k v) k' = lookup l k' := by
  induction l with
  | nil => simp [insert, lookup, Ne.symm h]
  | cons hd tl ih =>
    obtain ⟨k0, v0⟩ := hd
    by_cases h0 : k0 = k
    · subst h0
      simp [insert, lookup, Ne.symm h]
    · by_cases h1 : k0 = k'
      · subst h1
        simp [insert, lookup, h0]
      · simp [insert, lookup, h0, h1, ih]

theorem lookup_remove_same {α : Type} (l : List (String × α)) (k : String) : lookup (remove l k) k = none := by
  induction l with
  | nil => simp [remove, lookup]
  | cons hd tl ih =>
    obtain ⟨k0, v0⟩ := hd
    by_cases h : k0 = k
    · simp [remove, h, ih]
    · simp [remove, lookup, h, ih]

/-- **Closing a handle twice is closing it once.** -/
theorem C13_close_is_idempotent (r : Reg) (h : String) (hd : Handle) (hh : lookup r.handles h = some hd) :
    closeHandle (closeHandle r h).1 h = ((closeHandle r h).1, .ok) := by
  have hclosed : ∃ hd', lookup (closeHandle r h).1.handles h = some hd' ∧ hd'.closed = true := by
    unfold closeHandle
    rw [hh]
    simp only
    split
    · rename_i hc; exact ⟨hd, hh, hc⟩
    · exact ⟨_, lookup_insert_same _ _ _, rfl⟩
  obtain ⟨hd', h1, h2⟩ := hclosed
  generalize (closeHandle r h).1 = r1 at h1 ⊢
  unfold closeHandle
  rw [h1]
  simp [h2]

/-- **Closing a handle disables only that handle**: every other handle's record is untouched, and the closed handle's
    later calls fail with the bucket-closed error. -/
theorem C13_close_disables_only_that_handle (r : Reg) (h h' : String) (hne : h' ≠ h) :
    lookup (closeHandle r h).1.handles h' = lookup r.handles h' := by
  unfold closeHandle
  split
  · rfl
  · split
    · rfl
    · simp only
      rw [lookup_insert_other _ _ _ _ hne]
      split
      · rfl
      · split
        · split <;> rfl
        · rfl

theorem C13_closed_handle_calls_fail (r : Reg) (h : String) (hd : Handle) (hh : lookup r.handles h = some hd) (k v : String) :
    (put (closeHandle r h).1 h k v).2 = .closed ∧ (get (closeHandle r h).1 h k).1 = .closed := by
  have hclosed : ∃ hd', lookup (closeHandle r h).1.handles h = some hd' ∧ hd'.closed = true := by
    unfold closeHandle
    rw [hh]
    simp only
    split
    · rename_i hc; exact ⟨hd, hh, hc⟩
    · exact ⟨_, lookup_insert_same _ _ _, rfl⟩
  obtain ⟨hd', h1, h2⟩ := hclosed
  constructor
  · unfold put; rw [h1]; simp [probeErr, h2]
  · unfold get; rw [h1]; simp [probeErr, h2]

/-- **While another reference is held the shared database stays open and registered**: with a reference count of at
    least two, `Close` only decrements. -/
theorem C13_other_handles_keep_working (r : Reg) (h : String) (hd : Handle) (hh : lookup r.handles h = some hd)
    (hopen : hd.closed = false) (hcount : r.count hd.name ≥ 2) :
    (closeHandle r h).1.stores = r.stores ∧ (closeHandle r h).1.buckets = r.buckets ∧ (closeHandle r h).1.disk = r.disk ∧
    (closeHandle r h).1.count hd.name = r.count hd.name - 1 := by
  unfold closeHandle
  rw [hh]
  simp only [hopen, Bool.false_eq_true, if_false]
  have h0 : ¬ r.count hd.name = 0 := by omega
  have h1 : ¬ r.count hd.name = 1 := by omega
  simp only [h0, h1, if_false]
  refine ⟨trivial, trivial, trivial, ?_⟩
  simp [Reg.count, lookup_insert_same]

/-- **CreateNew fails iff the bucket exists** (registered under that name, or — on disk — its directory holds a database). -/
theorem C13_createNew_fails_iff_exists (r : Reg) (h url name : String) :
    (openBucket r h url name .createNew).2 = .exist ↔
      ((lookup r.buckets name).isSome ∨ (isMemUrl url = false ∧ (lookup r.disk url).isSome)) := by
  unfold openBucket
  cases hb : lookup r.buckets name with
  | some e => simp
  | none =>
    simp only
    cases hm : isMemUrl url with
    | true => simp
    | false =>
      simp only [Bool.false_eq_true, if_false]
      cases hd : lookup r.disk url <;> simp

/-- **ReOpenExisting fails iff it does not.** -/
theorem C13_reOpenExisting_fails_iff_absent (r : Reg) (h url name : String) :
    (openBucket r h url name .reOpenExisting).2 = .notExist ↔
      ((lookup r.buckets name).isNone ∧ (isMemUrl url = true ∨ (lookup r.disk url).isNone)) := by
  unfold openBucket
  cases hb : lookup r.buckets name with
  | some e =>
    simp only [Option.isNone_some, Bool.false_eq_true, false_and, iff_false]
    split
    · simp
    · split <;> simp
  | none =>
    simp only
    cases hm : isMemUrl url with
    | true => simp
    | false =>
      simp only [Bool.false_eq_true, if_false]
      cases hd : lookup r.disk url with
      | none => simp
      | some sid =>
        simp only
        split <;> simp

/-- **A name already open at another URL is refused.** -/
theorem C13_other_url_is_refused (r : Reg) (h url name : String) (mode : Mode) (e : Entry)
    (hb : lookup r.buckets name = some e) (hm : mode ≠ .createNew) (hu : url ≠ e.url) :
    openBucket r h url name mode = (r, .urlMismatch) := by
  unfold openBucket
  rw [hb]
  simp [hm, hu]

/-- **All handles opened on one name share one store.** -/
theorem C13_handles_share_the_store (r : Reg) (h url name : String) (mode : Mode) (e : Entry)
    (hb : lookup r.buckets name = some e) (hok : (openBucket r h url name mode).2 = .ok) :
    (lookup (openBucket r h url name mode).1.handles h).map (·.store) = some e.store := by
  unfold openBucket at hok ⊢
  rw [hb] at hok ⊢
  simp only at hok ⊢
  split at hok
  · cases hok
  · split at hok
    · cases hok
    · rename_i h1 h2
      simp only [h1, h2, if_false]
      rw [lookup_insert_same]
      rfl

/-- **CloseAndDelete removes the registry entry, the reference count and (on disk) the directory's database.** -/
theorem C13_closeAndDelete_removes (r : Reg) (h : String) (hd : Handle) (hh : lookup r.handles h = some hd) :
    lookup (closeAndDelete r h).1.buckets hd.name = none ∧ (closeAndDelete r h).1.count hd.name = 0 ∧
    (hd.inMem = false → lookup (closeAndDelete r h).1.disk hd.url = none) := by
  unfold closeAndDelete
  rw [hh]
  simp only
  refine ⟨?_, ?_, ?_⟩
  · cases hd.inMem <;> simp [Reg.modifyStore, closeStore, lookup_remove_same]
  · cases hd.inMem <;> simp [Reg.modifyStore, closeStore, Reg.count, lookup_remove_same]
  · intro him
    simp [him, Reg.modifyStore, closeStore, lookup_remove_same]

theorem modifyStore_data (r : Reg) (sid : Nat) (f : Store → Store) (hf : ∀ st, (f st).data = st.data ∧ (f st).id = st.id) :
    (r.modifyStore sid f).stores.map (fun s => (s.id, s.data)) = r.stores.map (fun s => (s.id, s.data)) := by
  unfold Reg.modifyStore
  simp only [List.map_map]
  apply List.map_congr_left
  intro x _
  simp only [Function.comp]
  split
  · rw [(hf x).1, (hf x).2]
  · rfl

/-- **An on-disk bucket's data is intact when reopened after its last handle closed**: `Close` — the last one
    included — leaves every directory's database file and its contents alone (and a later open of that directory
    attaches to the database file it finds there: `openBucket`, disk case). -/
theorem C13_data_intact_after_close (r : Reg) (h : String) :
    (closeHandle r h).1.disk = r.disk ∧
    (closeHandle r h).1.stores.map (fun s => (s.id, s.data)) = r.stores.map (fun s => (s.id, s.data)) := by
  unfold closeHandle
  split
  · exact ⟨rfl, rfl⟩
  · split
    · exact ⟨rfl, rfl⟩
    · simp only
      split
      · exact ⟨rfl, rfl⟩
      · split
        · split
          · exact ⟨rfl, rfl⟩
          · exact ⟨rfl, modifyStore_data _ _ _ (fun st => ⟨rfl, rfl⟩)⟩
        · exact ⟨rfl, rfl⟩

/-- … and an in-memory bucket's data survives until `CloseAndDelete`: the last `Close` keeps its registry entry and database. -/
theorem C13_in_memory_survives_close (r : Reg) (h : String) (hd : Handle) (hh : lookup r.handles h = some hd) (him : hd.inMem = true) :
    (closeHandle r h).1.buckets = r.buckets ∧ (closeHandle r h).1.stores = r.stores := by
  unfold closeHandle
  rw [hh]
  simp only
  split
  · exact ⟨rfl, rfl⟩
  · split
    · exact ⟨rfl, rfl⟩
    · split
      · simp [him]
      · exact ⟨rfl, rfl⟩

/-- Non-vacuity: two handles on an on-disk bucket, the first closed twice; the second keeps working; after the last
    close and a reopen the data is still there; CreateNew is refused. -/
example :
    let r := rrun {} [.open_ "h0" "d0" "A" .createNew, .open_ "h1" "d0" "A" .createOrOpen, .put "h0" "x" "1",
                      .close "h0", .close "h0", .put "h1" "y" "2", .close "h1", .open_ "h2" "d0" "A" .reOpenExisting]
    (get r "h2" "x", get r "h2" "y", (openBucket r "h3" "d0" "A" .createNew).2, (get r "h0" "x").1) =
      ((.ok, some "1"), (.ok, some "2"), .exist, .closed) := by
  decide

end Rosmar.Registry
