import Rosmar.Step
namespace Rosmar

/-- placeholder while the framework is brought up: a failed Add leaves the documents alone. -/
theorem C17_placeholder (k : String) (exp : Nat) (v : String) (j : Bool) (newCas now nid : Nat) :
    ∃ r, addFn k exp v j newCas now nid [] = .inr r := by
  simp [addFn, Docs.get?]

end Rosmar
