/-
  C17 — the revision sequence number counts the mutations of a key.
  Property theorems only; helper lemmas live in Rosmar/Proofs.
-/
import Rosmar.Proofs.Shape
import Rosmar.Proofs.Coherence
namespace Rosmar

/-- Every row function bumps the revision by one and puts that number in the event it posts. -/
def RevBump (_k : String) (f : RowFn) : Prop :=
  ∀ nc now old r' ev o, f nc now old = .inr (some r', ev, o) → r'.rev = revOf old + 1 ∧ ∀ e, ev = some e → e.rev = r'.rev

theorem revBump_family : Family RevBump where
  add k exp v j := fun nc now old r' ev o h => by
    obtain ⟨h1, _, h3⟩ := addRow_faithful k exp v j nc now old r' ev o h
    exact ⟨h1, fun e he => by rw [h3 e he]; rfl⟩
  set k exp pe v j := fun nc now old r' ev o h => by
    obtain ⟨h1, _, h3⟩ := setRow_faithful k exp pe v j nc now old r' ev o h
    exact ⟨h1, fun e he => by rw [h3 e he]; rfl⟩
  incr k amt d exp := fun nc now old r' ev o h => by
    obtain ⟨h1, _, h3⟩ := incrRow_faithful k amt d exp nc now old r' ev o h
    exact ⟨h1, fun e he => by rw [h3 e he]; rfl⟩
  wcas k exp cas v o := fun nc now old r' ev out h => by
    obtain ⟨h1, _, h3⟩ := wcasRow_faithful k exp cas v o nc now old r' ev out h
    exact ⟨h1, fun e he => by rw [h3 e he]; rfl⟩
  remove k ifCas := fun nc now old r' ev o h => by
    obtain ⟨h1, _, h3⟩ := removeRow_faithful k ifCas nc now old r' ev o h
    exact ⟨h1, fun e he => by rw [h3 e he]; rfl⟩
  touch k exp := fun nc now old r' ev o h => by
    obtain ⟨r, rfl, h1, _, _, _, _, h7, _⟩ := touchRow_spec exp nc now old r' ev o h
    exact ⟨h1, fun e he => by rw [h7] at he; cases he⟩
  wwx k val edits ifCas exp o m := fun nc now old r' ev out h => by
    obtain ⟨h1, _, h3⟩ := wwxRow_faithful k val edits ifCas exp o m nc now old r' ev out h
    exact ⟨h1, fun e he => by rw [h3 e he]; rfl⟩
  delx k names := fun nc now old r' ev o h => by
    obtain ⟨h1, _, h3⟩ := delxRow_faithful k names nc now old r' ev o h
    exact ⟨h1, fun e he => by rw [h3 e he]; rfl⟩
  dsp k names := fun nc now old r' ev o h => by
    obtain ⟨h1, _, h3⟩ := dspRow_faithful k names nc now old r' ev o h
    exact ⟨h1, fun e he => by rw [h3 e he]; rfl⟩

/-- **C17 (every single-row entry point, every state).** A call either leaves every row exactly as it was
    (it failed, was refused, or was cancelled), or it raises the addressed key's revision number by exactly one —
    starting from 1 for a key that has no row (never written, or purged) — and changes no other key. Touches,
    xattr-only writes, deletions and resurrections are all among the entry points covered. -/
theorem C17_plus_one_per_mutation (s : State) (op : Op) (c k : String) (f : RowFn) (h : op.shape = some (.row c k f)) :
    (∀ c' k', (step s op).1.row? c' k' = s.row? c' k') ∨
    (revOf ((step s op).1.row? c k) = revOf (s.row? c k) + 1 ∧
      ∀ c' k', (c' ≠ c ∨ k' ≠ k) → (step s op).1.row? c' k' = s.row? c' k') := by
  obtain ⟨out, _, ho⟩ := step_outcome s op c k f h
  cases ho with
  | noColl _ hr _ => exact Or.inl hr
  | failed _ hr => exact Or.inl hr
  | unchanged _ _ hr => exact Or.inl hr
  | wrote r' ev hf hr hother =>
    right
    refine ⟨?_, hother⟩
    rw [hr]
    exact (shape_family revBump_family op c k f h _ _ _ _ _ _ hf).1

/-- A rejected call (argument checks) changes nothing at all. -/
theorem C17_rejected_changes_nothing (s : State) (op : Op) (e : Err) (h : op.shape = some (.rejected e)) :
    (step s op).1 = s := by
  rw [step_rejected s op e h]

/-- The live event of a mutation carries the revision number the row now has. -/
theorem C17_live_event_revno (op : Op) (c k : String) (f : RowFn) (h : op.shape = some (.row c k f))
    (nc now : Nat) (old : Option Row) (r' : Row) (e : Event) (o : Out) (hf : f nc now old = .inr (some r', some e, o)) :
    e.rev = r'.rev :=
  (shape_family revBump_family op c k f h nc now old r' (some e) o hf).2 e rfl

/-- WithMeta writes count too. -/
theorem C17_withMeta (k : String) (oldCas newCas exp : Nat) (xs : Xattrs) (body : Option String) (j d : Bool)
    (hwf : d = body.isNone) (nc now : Nat) (old : Option Row) (r' : Row) (ev : Option Event) (o : Out)
    (h : wmetaRow k oldCas newCas exp xs body j d nc now old = .inr (some r', ev, o)) :
    r'.rev = revOf old + 1 ∧ ∀ e, ev = some e → e.rev = r'.rev := by
  obtain ⟨h1, _, h3⟩ := wmetaRow_faithful k oldCas newCas exp xs body j d hwf nc now old r' ev o h
  exact ⟨h1, fun e he => by rw [h3] at he; cases he; rfl⟩

/-- A backfill event reports the stored revision number. -/
theorem C17_backfill_event_revno (k : String) (r : Row) (keysOnly : Bool) : (backfillEvent k r keysOnly).rev = r.rev := rfl

/-- `$document.revid` and the `revid` inside `$document` are that same number. -/
theorem C17_virtual_xattrs (r : Row) :
    Xattrs.get? (requestedXattrs r ["$document.revid"]) "$document.revid" = some ("\"" ++ toString r.rev ++ "\"") ∧
    Xattrs.get? (requestedXattrs r ["$document"]) "$document" =
      some ("{\"value_crc32c\":\"" ++ crcString r.value ++ "\",\"revid\":\"" ++ toString r.rev ++ "\"}") := by
  constructor <;> simp [requestedXattrs, Xattrs.set, Xattrs.get?]

/-- A purge forgets the row, so the next creation starts again from 1. -/
theorem C17_recreated_after_purge_starts_at_one (op : Op) (c k : String) (f : RowFn) (h : op.shape = some (.row c k f))
    (nc now : Nat) (r' : Row) (ev : Option Event) (o : Out) (hf : f nc now none = .inr (some r', ev, o)) : r'.rev = 1 := by
  have := (shape_family revBump_family op c k f h nc now none r' ev o hf).1
  simpa [revOf] using this

/-- Non-vacuity: a concrete history on which the hypotheses hold and the revision really moves 0 → 1 → 2 → 3. -/
example :
    let s1 := (step initState (.add "c0" "k" 0 "{}" true)).1
    let s2 := (step s1 (.delete "c0" "k")).1
    let s3 := (step s2 (.touch "c0" "k" 0)).1
    let s4 := (step s2 (.add "c0" "k" 0 "{}" true)).1
    revOf (s1.row? "c0" "k") = 1 ∧ revOf (s2.row? "c0" "k") = 2 ∧ revOf (s3.row? "c0" "k") = 2 ∧ revOf (s4.row? "c0" "k") = 3 := by
  decide

end Rosmar
