import Rosmar.Proofs.ViewLemmas
import Rosmar.Proofs.Collate

/-!
# C12 — A non-stale view query equals the map function applied to the current documents

The model (`Rosmar/View.lean`) keeps, per view, `lastCas` and the `mapped` rows grouped by document; `updateIndex` is
`updateView`'s transaction (delete the rows of documents with `cas > lastCas`, re-map those that have a body or xattrs, set
`lastCas` to the collection's); a query ranges over `mapped INNER JOIN documents` (`joined`), then the SQL stage (range, order,
limit) and sg-bucket's `ProcessParsed` stage (`keys`, reduce / group).

What is proved, for **every** history of calls that contains no WithMeta write, every placement of queries and every parameter
combination: the rows a non-stale query ranges over are literally the map function evaluated from scratch over the current
documents, so the result cannot depend on when or how often the index was updated. With a WithMeta write in the history the
statement is false (the write stamps a caller-chosen CAS and does not advance the collection's `lastCas`): `C12_full_false`,
recorded as an open known finding with a replay on the real code.
-/

namespace Rosmar.View
open Rosmar

/-- **The index invariant survives every call that is not a WithMeta write** – all entry points, deletes, resurrections,
xattr-only writes, touches, purges, expiry sweeps, reopening. -/
theorem C12_invariant_along_history (c : String) (v : ViewDef) (ops : List Op) (hwf : ∀ op ∈ ops, NoMeta op) (s : State)
    (h : VInv c v s) : VInv c v (run s ops).1 :=
  run_inv (vinv_step c v) ops s hwf h

/-- **A non-stale query ranges over exactly the map function's output for the current documents** (every document that has a
body or xattrs, once, in its current version; nothing for a document that is gone), whatever was indexed before and whenever. -/
theorem C12_nonstale_rows_are_fresh (c : String) (v : ViewDef) (s : State) (h : VInv c v s) (x : Coll) (hx : s.coll? c = some x) :
    joined x.docs (updateIndex x.docs x.lastCas v) = freshIndex x.docs v.mapId :=
  (updateIndex_exact v x (h.2 x hx)).1

/-- Hence the query result is the same query evaluated over a from-scratch index, for every parameter combination. -/
theorem C12_result_independent_of_index_history (c : String) (v : ViewDef) (s : State) (h : VInv c v s) (x : Coll)
    (hx : s.coll? c = some x) (p : Params) :
    queryRows p v.reduce (joined x.docs (updateIndex x.docs x.lastCas v)) = queryRows p v.reduce (freshIndex x.docs v.mapId) := by
  rw [C12_nonstale_rows_are_fresh c v s h x hx]

/-- The query leaves the view fit for the histories that follow (so the two theorems above apply again at the next query). -/
theorem C12_query_keeps_invariant (c : String) (v : ViewDef) (s : State) (h : VInv c v s) (x : Coll) (hx : s.coll? c = some x) :
    VInv c (updateIndex x.docs x.lastCas v) s :=
  ⟨h.1, fun x' hx' => by rw [hx] at hx'; cases hx'; exact (updateIndex_exact v x (h.2 x hx)).2⟩

/-- So does the cascade that removes the rows of purged documents. -/
theorem C12_gc_keeps_invariant (c : String) (v : ViewDef) (s : State) (h : VInv c v s) (x : Coll) (hx : s.coll? c = some x) :
    VInv c (v.gc x.docs) s :=
  ⟨h.1, fun x' hx' => by rw [hx] at hx'; cases hx'; exact gc_collOK v x (h.2 x hx)⟩

/-- Putting (or replacing) a design document creates views that are fit at once, at any point of a history. -/
theorem C12_new_view_is_fit (c : String) (v : ViewDef) (s : State) (h : VInv c v s) (name : String) (m : Nat) (red : String) :
    VInv c { name := name, mapId := m, reduce := red } s :=
  ⟨h.1, fun x hx => new_view_collOK name m red x (h.2 x hx).1 (h.2 x hx).2.1⟩

/-! ### The whole history at once: KV calls and queries on one view, interleaved in any way -/

inductive VOp where
  | kv (op : Op)
  | query (p : Params)

/-- One step of the (bucket, view) pair; a query reports its rows. -/
def vstep (c : String) (sv : State × ViewDef) : VOp → (State × ViewDef) × Option (List VRow)
  | .kv op =>
    let s' := (step sv.1 op).1
    ((s', match s'.coll? c with | some x => sv.2.gc x.docs | none => sv.2), none)
  | .query p =>
    match sv.1.coll? c with
    | some x =>
      let v' := if p.staleOk then sv.2 else updateIndex x.docs x.lastCas sv.2
      ((sv.1, v'), some (queryRows p v'.reduce (joined x.docs v')))
    | none => (sv, none)

/-- What a query in state `sv` must answer. -/
def expectedAnswer (c : String) (sv : State × ViewDef) (p : Params) : Option (List VRow) :=
  (sv.1.coll? c).map (fun x => queryRows p sv.2.reduce (freshIndex x.docs sv.2.mapId))

/-- Every non-stale query of the history answers as a from-scratch evaluation would. -/
def AllFresh (c : String) : State × ViewDef → List VOp → Prop
  | _, [] => True
  | sv, .kv op :: rest => AllFresh c (vstep c sv (.kv op)).1 rest
  | sv, .query p :: rest =>
    (p.staleOk = false → (vstep c sv (.query p)).2 = expectedAnswer c sv p) ∧ AllFresh c (vstep c sv (.query p)).1 rest

theorem updateIndex_mapId (docs : Docs) (L : Nat) (v : ViewDef) : (updateIndex docs L v).mapId = v.mapId := by
  unfold updateIndex; split <;> rfl
theorem updateIndex_reduce (docs : Docs) (L : Nat) (v : ViewDef) : (updateIndex docs L v).reduce = v.reduce := by
  unfold updateIndex; split <;> rfl

/-- **C12 (partial: histories without WithMeta writes)** – for all write histories through all other entry points, all
placements of (stale and non-stale) view queries inside the history, and all query parameter combinations, every non-stale
query returns the query evaluated over the map function applied to the documents as they are at that moment. -/
theorem C12_history_partial (c : String) (ops : List VOp) (hnm : ∀ op, VOp.kv op ∈ ops → NoMeta op) :
    ∀ sv : State × ViewDef, VInv c sv.2 sv.1 → AllFresh c sv ops := by
  induction ops with
  | nil => intro _ _; trivial
  | cons o rest ih =>
    intro sv hinv
    have hrest : ∀ op, VOp.kv op ∈ rest → NoMeta op := fun op h => hnm op (List.mem_cons_of_mem _ h)
    cases o with
    | kv op =>
      show AllFresh c (vstep c sv (.kv op)).1 rest
      apply ih hrest
      have h1 : VInv c sv.2 (step sv.1 op).1 := step_inv (vinv_step c sv.2) sv.1 op (hnm op List.mem_cons_self) hinv
      show VInv c (match (step sv.1 op).1.coll? c with | some x => sv.2.gc x.docs | none => sv.2) (step sv.1 op).1
      cases hx : (step sv.1 op).1.coll? c with
      | none => exact h1
      | some x => exact C12_gc_keeps_invariant c sv.2 _ h1 x hx
    | query p =>
      refine ⟨?_, ?_⟩
      · intro hst
        unfold vstep expectedAnswer
        cases hx : sv.1.coll? c with
        | none => rfl
        | some x =>
          simp only [hst, Bool.false_eq_true, if_false, Option.map_some]
          rw [C12_nonstale_rows_are_fresh c sv.2 sv.1 hinv x hx, updateIndex_reduce]
      · apply ih hrest
        unfold vstep
        cases hx : sv.1.coll? c with
        | none => exact hinv
        | some x =>
          simp only
          split
          · exact hinv
          · exact C12_query_keeps_invariant c sv.2 sv.1 hinv x hx

/-- The initial bucket with a just-created view satisfies the invariant (so the theorem above starts somewhere). -/
theorem C12_initial (c name : String) (m : Nat) (red : String) : VInv c { name := name, mapId := m, reduce := red } initState := by
  refine ⟨initState_clockInv, ?_⟩
  intro x hx
  have hnil : x.docs = [] := by
    obtain ⟨q, hq, rfl⟩ := State.coll?_mem initState c x hx
    simp only [initState, List.mem_cons, List.not_mem_nil, or_false] at hq
    rcases hq with rfl | rfl | rfl <;> rfl
  refine new_view_collOK name m red x ?_ ?_
  · rw [hnil]; exact List.nodup_nil
  · rw [hnil]; intro d hd; cases hd

/-! ### The rest of the statement: order, range, limit, descending, reduce -/

/-- Without `keys` and without grouping, the query as rosmar runs it is the specification (CouchDB semantics over a from-scratch
evaluation) outright: ordered by key collation then document id, restricted to the range, reversed when descending, cut at the
limit, reduced when asked. -/
theorem C12_query_meets_spec_nokeys_nogroup (p : Params) (red : String) (docs : Docs) (m : Nat) (hk : p.keys = none)
    (hg : p.group = false) (hl : p.groupLevel = none) :
    queryRows p red (freshIndex docs m) = specRows p red docs m := by
  unfold queryRows queryRowsWith specRows processStage sqlStage
  simp only [hk, hg, hl, Bool.false_eq_true, if_false]

/-- With `keys` (not combined with descending or limit) or grouping, the two coincide as soon as the comparison used by
sg-bucket's `keys` selection and grouping (`collateGo`) agrees with the JSON collation – which it does except between two objects. -/
theorem C12_query_meets_spec_when_collators_agree (p : Params) (red : String) (docs : Docs) (m : Nat)
    (hk : p.keys.isSome → p.descending = false ∧ p.limit = none) :
    queryRowsWith collate p red (freshIndex docs m) = specRows p red docs m := by
  unfold queryRowsWith specRows processStage sqlStage
  cases hks : p.keys with
  | none => simp only
  | some ks =>
    obtain ⟨hd, hl⟩ := hk (by rw [hks]; rfl)
    have hb : bounds p = (none, true, none, true) := by unfold bounds; simp [hks]
    have hft : ∀ l : List VRow, l.filter (fun _ => true) = l := fun l => List.filter_eq_self.mpr (fun _ _ => rfl)
    simp only [hb, hd, hl, takeLimit, geMin, leMax, Bool.false_eq_true, if_false, Bool.and_self, hft, filterKeys]

/-- **With every emitted key and every requested key free of objects, the query as rosmar runs it is the specification** – for
`keys` (not combined with descending / limit) and grouping too: sg-bucket's Go-value collator provably agrees with the JSON collation
on such values (`collateGo_eq_collate`). -/
theorem C12_query_meets_spec_objfree (p : Params) (red : String) (docs : Docs) (m : Nat)
    (hk : p.keys.isSome → p.descending = false ∧ p.limit = none)
    (hidx : ∀ r ∈ flatten (freshIndex docs m), r.key.objFree = true)
    (hkeys : ∀ ks, p.keys = some ks → ∀ t ∈ ks, t.objFree = true) :
    queryRows p red (freshIndex docs m) = specRows p red docs m := by
  rw [queryRows_eq_with_collate p red _ hidx hkeys]
  exact C12_query_meets_spec_when_collators_agree p red docs m hk

/-! ### The full statement is false: WithMeta writes (open known finding F11) -/

/-- A view indexed up to CAS 10 over one document; a `DeleteWithMeta` then stores the tombstone with the caller's CAS 5 and – as
every WithMeta write – leaves the collection's `lastCas` at 10: the next non-stale query sees `lastCas` unchanged, does not update,
and still returns the row of the deleted document. -/
theorem C12_full_false :
    let v : ViewDef := { name := "v", mapId := 0, reduce := "", lastCas := 10, mapped := [("k", [(.str "k", .null)])] }
    let tomb : Row := { rowid := 1, value := none, cas := 5, exp := 0, isJSON := false, xattrs := [], tomb := true, rev := 2 }
    let docs : Docs := [("k", tomb)]
    joined docs (updateIndex docs 10 v) ≠ freshIndex docs v.mapId := by
  intro v tomb docs h
  have := congrArg (fun l => l.map (fun p => p.2.length)) h
  revert this
  decide

/-- The premise of the partial theorems is satisfiable by a state with documents and an indexed view. -/
example :
    let r : Row := { rowid := 1, value := some "{}", cas := 7, exp := 0, isJSON := true, xattrs := [], tomb := false, rev := 1 }
    let x : Coll := { id := 1, lastCas := 9, docs := [("k", r)] }
    CollOK { name := "v", mapId := 0, reduce := "", lastCas := 3, mapped := [] } x := by
  refine ⟨by unfold KeysNodup; decide, ?_, by decide, ?_⟩
  · intro d hd; simp only [List.mem_singleton] at hd; subst hd; decide
  · intro d hd hc; simp only [List.mem_singleton] at hd; subst hd; simp at hc

end Rosmar.View
