/-
  C05 — tombstone coherence: deleted means no body, for every observer and every path.
-/
import Rosmar.Proofs.Insert
namespace Rosmar

/-- **The invariant, for every reachable state.** After any well-formed operation history (every entry point,
    including compound calls, purges and the expiry sweep), every stored row of every collection has the tombstone
    flag set exactly when it has no body. -/
theorem C05_tombstone_iff_no_body (ops : List Op) (hwf : ∀ op ∈ ops, op.WF) (c : String) (x : Coll)
    (hx : (run initState ops).1.coll? c = some x) (k : String) (r : Row) (hr : x.docs.get? k = some r) :
    r.tomb = true ↔ r.value = none :=
  ((run_coh ops hwf).coll c x hx).get k r hr

/-- **Every observer agrees** (each is a function of the stored row; with the invariant they all say the same):
    reads report a tombstone missing, `GetWithXattrs` returns no body, a backfilled event carries the deletion
    opcode, an insert-style write treats it as absent. -/
theorem C05_observers_agree (s : State) (hs : StateAll RowCoh s) (c k : String) (x : Coll) (hx : s.coll? c = some x)
    (r : Row) (hr : s.row? c k = some r) (names : List String) :
    (r.tomb = true ↔ (getRaw s c k).1 = .missing) ∧
    (r.tomb = true ↔ exists_ s c k = false) ∧
    (r.tomb = true ↔ (getWithXattrs s c k names).2.1 = none) ∧
    (r.tomb = true ↔ (backfillEvent k r false).isDeletion = true) ∧
    (r.tomb = true ↔ (eventOf k r).isDeletion = true) ∧
    (r.tomb = true ↔ ∀ exp v j nc now, ∃ r' ev o, addRow k exp v j nc now (some r) = .inr (some r', ev, o)) := by
  have hco : RowCoh r := by
    rw [State.row?_def, hx] at hr
    exact (hs.coll c x hx).get k r hr
  unfold RowCoh at hco
  refine ⟨?_, ?_, ?_, ?_, ?_, ?_⟩
  · rw [hco]; unfold getRaw; rw [hr]; cases hv : r.value <;> simp [hv]
  · rw [hco]; unfold exists_; rw [hr]; cases hv : r.value <;> simp [hv]
  · rw [hco]; unfold getWithXattrs; rw [hr]; simp only
    split <;> simp_all
  · simp [backfillEvent]
  · rw [hco]; simp [eventOf]
  · constructor
    · intro ht exp v j nc now; simp [addRow, ht]
    · intro h
      obtain ⟨r', ev, o, hf⟩ := h 0 "" false 0 0
      by_cases ht : r.tomb = true
      · exact ht
      · simp [addRow, ht] at hf

/-- **Delete / Remove keep system xattrs, drop user xattrs and the expiry.** -/
theorem C05_delete_keeps_system_drops_user_and_expiry (k : String) (ifCas : Option Nat) (nc now : Nat) (r : Row) (r' : Row)
    (ev : Option Event) (o : Out) (h : removeRow k ifCas nc now (some r) = .inr (some r', ev, o)) :
    r'.value = none ∧ r'.tomb = true ∧ r'.exp = 0 ∧ r'.xattrs = r.xattrs.filter (fun p => Xattrs.isSystemName p.1) := by
  unfold removeRow at h
  simp only at h
  split at h
  · cases h
  · cases h; exact ⟨rfl, rfl, rfl, rfl⟩

/-- **A body written onto a tombstone yields a live document with none of the tombstone's xattrs**: through the
    body-only entry points no xattr at all survives … -/
theorem C05_resurrection_clears_xattrs (r : Row) (ht : r.tomb = true) (hco : RowCoh r) (k : String) (nc now : Nat) :
    (∀ exp v j r' ev o, addRow k exp v j nc now (some r) = .inr (some r', ev, o) → r'.xattrs = [] ∧ r'.tomb = false ∧ r'.value = some v) ∧
    (∀ exp pe v j r' ev o, setRow k exp pe v j nc now (some r) = .inr (some r', ev, o) → r'.xattrs = [] ∧ r'.tomb = false ∧ r'.value = some v) ∧
    (∀ exp cas v o r' ev out, wcasRow k exp cas (some v) o nc now (some r) = .inr (some r', ev, out) → r'.xattrs = [] ∧ r'.tomb = false) := by
  have hv : r.value = none := hco.mp ht
  refine ⟨?_, ?_, ?_⟩
  · intro exp v j r' ev o h
    simp [addRow, ht] at h
    obtain ⟨rfl, _, _⟩ := h; exact ⟨rfl, rfl, rfl⟩
  · intro exp pe v j r' ev o h
    simp [setRow, setCore, hv] at h
    obtain ⟨rfl, _, _⟩ := h; exact ⟨rfl, rfl, rfl⟩
  · intro exp cas v o r' ev out h
    obtain ⟨h1, h2, _⟩ := wcasRow_shape k exp cas (some v) o nc now (some r) r' ev out h
    exact ⟨h2 r rfl ht, by simpa using h1⟩

/-- … and through `writeWithXattrs` with a body only the xattrs the call itself sets: the edits are applied to an
    empty map, whatever the tombstone carried. -/
theorem C05_resurrection_with_xattrs (r : Row) (ht : r.tomb = true) (k b : String) (edits : List XEdit) (ifCas exp : Option Nat)
    (o : XOpts) (m : Macros) (nc now : Nat) (r' : Row) (ev : Option Event) (out : Out)
    (h : wwxRow k (.body b) edits ifCas exp o m nc now (some r) = .inr (some r', ev, out)) :
    applyEdits [] edits m nc (some b) = .inr r'.xattrs ∧ r'.tomb = false ∧ r'.value = some b := by
  unfold wwxRow at h
  simp only at h
  split at h
  · cases h
  · rename_i value0 isJSON0 prevCas exp0 xattrs0 rev0 hpre
    simp only [ht, ValArg.isBody, and_self, if_true] at hpre
    split at hpre
    · cases hpre
    · cases hpre
      split at h
      · cases h
      · split at h
        · cases h
        · split at h
          · cases h
          · rename_i xs hx
            cases h
            exact ⟨hx, rfl, rfl⟩

/-- **PurgeTombstones removes exactly the tombstones**: precisely the rows without a body disappear, every other
    row stays as it is. -/
theorem C05_purge_removes_exactly_tombstones (s : State) (p : String × Coll) (hp : p ∈ (opPurge s).1.colls) :
    ∃ q ∈ s.colls, p.1 = q.1 ∧ p.2.docs = q.2.docs.filter (fun d => d.2.value.isSome) := by
  unfold opPurge at hp
  simp only [List.mem_map] at hp
  obtain ⟨q, hq, rfl⟩ := hp
  exact ⟨q, hq, rfl, rfl⟩

/-- Non-vacuity: a history that deletes and re-creates through different entry points; the historical drift
    (`Set` over a tombstone leaving the flag set) is gone. -/
example :
    let s1 := (step initState (.wwx "c0" "k" 0 0 (some "{}") [("_sync", some "1"), ("usr", some "2")] none false [])).1
    let s2 := (step s1 (.delete "c0" "k")).1
    let s3 := (step s2 (.set "c0" "k" 0 false "{}" false)).1
    (s2.row? "c0" "k").map (fun r => (r.tomb, r.value, r.xattrs)) = some (true, none, [("_sync", "1")]) ∧
    (s3.row? "c0" "k").map (fun r => (r.tomb, r.value, r.xattrs)) = some (false, some "{}", []) := by
  decide

end Rosmar
