/-
  C08 — live feed: one faithful event per successful mutation (sequential part; the cross-thread ordering part is
  a known finding, see DESIGN.md F16 and Properties/C08 `C08_order_*` in Rosmar/Properties/Sched.lean).
-/
import Rosmar.Proofs.FeedLemmas
namespace Rosmar

/-- **The event is faithful**: whatever single-row entry point made the write, the event it posts equals
    `eventOf k r'` for the row `r'` it stored — same key, opcode deletion iff the row has no body, same body,
    same complete xattrs, datatype (JSON flag; xattr flag iff it has xattrs), CAS, expiry and revision number. -/
theorem C08_event_is_faithful (op : Op) (c k : String) (f : RowFn) (h : op.shape = some (.row c k f))
    (nc now : Nat) (old : Option Row) (r' : Row) (e : Event) (o : Out) (hf : f nc now old = .inr (some r', some e, o)) :
    e.key = k ∧ (e.isDeletion = true ↔ r'.value = none) ∧ e.value = r'.value ∧ e.xattrs = r'.xattrs ∧
    e.isJSON = r'.isJSON ∧ e.cas = r'.cas ∧ e.exp = r'.exp ∧ e.rev = r'.rev := by
  have := shape_family evFaithful_family op c k f h nc now old r' (some e) o hf e rfl
  subst this
  simp [eventOf]

/-- **Exactly one event per write that gives the document a new CAS; none for a touch; none when nothing is stored.** -/
theorem C08_one_event_per_new_cas (op : Op) (c k : String) (f : RowFn) (h : op.shape = some (.row c k f))
    (nc now : Nat) (old : Option Row) :
    (∀ r' ev o, f nc now old = .inr (some r', ev, o) → (r'.cas = nc ∧ ev.isSome) ∨ (r'.cas = casOf old ∧ ev = none)) ∧
    (∀ ev o, f nc now old = .inr (none, ev, o) → ev = none) :=
  ⟨fun r' ev o hf => (shape_family oneEventPerNewCas_family op c k f h).1 nc now old r' ev o hf,
   fun ev o hf => (shape_family oneEventPerNewCas_family op c k f h).2 nc now old ev o hf⟩

/-- **Delivered exactly once to every feed already running on that collection** (the feed list is shared by all
    handles of the bucket — handles are not part of this model, the harness checks it through two handles), and to no
    other feed; **failed operations deliver nothing**. -/
theorem C08_delivery (s : State) (op : Op) (c k : String) (f : RowFn) (h : op.shape = some (.row c k f)) (x : Coll)
    (hx : s.coll? c = some x) :
    (∀ r' e o, f (hlcNow s.hlc s.phys) s.now (s.row? c k) = .inr (r', some e, o) →
      (step s op).1.feeds = s.feeds.map (fun fd =>
        if fd.coll = c ∧ ¬ fd.dump ∧ ¬ fd.stopped then { fd with pending := fd.pending ++ [.ev e x.id fd.keysOnly] } else fd)) ∧
    ((∀ r' e o, f (hlcNow s.hlc s.phys) s.now (s.row? c k) ≠ .inr (r', some e, o)) → (step s op).1.feeds = s.feeds) := by
  have hrow : s.row? c k = x.docs.get? k := by rw [State.row?_def, hx]; rfl
  -- feeds of `step` are those of the transaction (arming the timer for a touch does not touch them)
  have hfeeds : (step s op).1.feeds = (withNewCas s c (liftRow k f)).1.feeds := by
    cases op <;> simp only [Op.shape, Option.some.injEq, reduceCtorEq] at h
    case touch =>
      cases h
      exact armOnSuccess_feeds ..
    all_goals first
      | (cases h; rfl)
      | (simp only [step, opSetXattrs, opRemoveXattrs, opUpdateXattrs, opWriteWithXattrs, opWriteTombstoneWithXattrs,
          opWriteResurrectionWithXattrs, opUpdateXattrDeleteBody, opDeleteWithXattrs, opDeleteSubDocPaths, h, runShape])
  rw [hfeeds, withNewCas_feeds, hx]
  simp only
  -- relate the lifted function's event to the row function's
  have hl : ∀ docs' nid ev out, liftRow k f (hlcNow s.hlc s.phys) s.now s.nextRowId x.docs = .inr (docs', nid, ev, out) →
      ∃ r', f (hlcNow s.hlc s.phys) s.now (s.row? c k) = .inr (r', ev, out) := by
    intro docs' nid ev out hfn
    rw [hrow]
    unfold liftRow at hfn
    cases hfr : f (hlcNow s.hlc s.phys) s.now (x.docs.get? k) with
    | inl o' => rw [hfr] at hfn; cases hfn
    | inr p =>
      obtain ⟨ro, ev', o'⟩ := p
      rw [hfr] at hfn
      cases ro with
      | none => simp only at hfn; cases hfn; exact ⟨none, rfl⟩
      | some r' =>
        simp only at hfn
        cases hg : x.docs.get? k <;> rw [hg] at hfn <;> simp only at hfn <;> cases hfn <;> exact ⟨some r', rfl⟩
  have hl' : ∀ r' ev out, f (hlcNow s.hlc s.phys) s.now (s.row? c k) = .inr (r', ev, out) →
      ∃ docs' nid, liftRow k f (hlcNow s.hlc s.phys) s.now s.nextRowId x.docs = .inr (docs', nid, ev, out) := by
    intro r' ev out hf
    rw [hrow] at hf
    unfold liftRow
    rw [hf]
    cases r' with
    | none => exact ⟨_, _, rfl⟩
    | some r'' => cases x.docs.get? k <;> exact ⟨_, _, rfl⟩
  constructor
  · intro r' e o hf
    obtain ⟨docs', nid, hfn⟩ := hl' r' (some e) o hf
    rw [hfn]
  · intro hno
    cases hfn : liftRow k f (hlcNow s.hlc s.phys) s.now s.nextRowId x.docs with
    | inl out => rfl
    | inr q =>
      obtain ⟨docs', nid, ev, out⟩ := q
      cases ev with
      | none => rfl
      | some e =>
        obtain ⟨r', hf⟩ := hl docs' nid (some e) out hfn
        exact absurd hf (hno r' e out)

/-- Within one writer's history, CAS values posted to a feed increase: each posted event carries the CAS just drawn,
    which exceeds the clock's previous high-water mark (C04). -/
theorem C08_posted_cas_exceeds_clock (op : Op) (c k : String) (f : RowFn) (h : op.shape = some (.row c k f)) (s : State)
    (r' : Row) (e : Event) (o : Out) (hf : f (hlcNow s.hlc s.phys) s.now (s.row? c k) = .inr (some r', some e, o)) :
    e.cas = hlcNow s.hlc s.phys ∧ e.cas > s.hlc := by
  have h1 := (C08_event_is_faithful op c k f h _ _ _ r' e o hf).2.2.2.2.2.1
  rcases (shape_family oneEventPerNewCas_family op c k f h).1 _ _ _ _ _ _ hf with ⟨h2, _⟩ | ⟨_, h3⟩
  · rw [h1, h2]; exact ⟨rfl, hlcNow_gt _ _⟩
  · cases h3

/-- Non-vacuity: a feed on `c0` and one on `c1`; a write to `c0`, a refused `Add`, a touch. -/
example :
    let s0 := (run initState [.startFeed "f0" "c0" .none false false, .startFeed "f1" "c1" .none false false]).1
    let s1 := (run s0 [.set "c0" "k" 0 false "1" false, .add "c0" "k" 0 "2" true, .touch "c0" "k" 9]).1
    (s1.feeds.map (fun f => f.pending.length)) = [1, 0] := by
  decide

end Rosmar
