/-
  C18 — sub-document writes change only the addressed property, CAS-safely.
  (Go's decode of the document into map[string]any and its re-encoding — number formats, key order, escaping — are outside
  the model; the correspondence check stresses that glue, and F18 records what it found.)
-/
import Rosmar.Proofs.SubdocLemmas
import Rosmar.Proofs.Insert
namespace Rosmar

/-- **Every other property is preserved**: a set or remove at any dotted path leaves every other top-level property of
    the document exactly as it was (and, recursively, every sibling inside the parents it walks through). -/
theorem C18_other_properties_preserved (path : List String) (d d' : J) (v : Option J) (insert : Bool)
    (h : subdocEdit d path v insert = .inr d') (q : String) (hq : path.head? ≠ some q) : topGet d' q = topGet d q := by
  unfold subdocEdit at h
  split at h
  · cases h
  · cases h
  · split at h
    · cases h
    · exact upsertAt_top_frame path d d' v h q hq

/-- **The addressed property is set**: afterwards the path evaluates to the value written … -/
theorem C18_sets_the_addressed_property (path : List String) (hp : path ≠ []) (d d' : J) (x : J) (hx : x.isNullAtom = false)
    (insert : Bool) (h : subdocEdit d path (some x) insert = .inr d') : evalSubdocPath d' path = .inr x := by
  unfold subdocEdit at h
  split at h
  · cases h
  · cases h
  · split at h
    · cases h
    · exact eval_after_set path d d' x hp hx h

/-- … **or, for an empty value, removed**. -/
theorem C18_removes_for_empty_value (path : List String) (hp : path ≠ []) (d d' : J) (insert : Bool)
    (h : subdocEdit d path none insert = .inr d') : evalSubdocPath d' path = .inl .pathNotFound := by
  unfold subdocEdit at h
  split at h
  · cases h
  · cases h
  · split at h
    · cases h
    · exact eval_after_remove path d d' hp h

/-- **SubdocInsert refuses an existing property** (present with a non-null value). -/
theorem C18_insert_refuses_existing (d : J) (path : List String) (v : Option J) (fs : Fields)
    (hparent : evalSubdocPath d (dropLast' path) = .inr (.obj fs)) (hex : hasNonNull fs (last' path) = true) :
    subdocEdit d path v true = .inl .pathExists := by
  simp [subdocEdit, hparent, hex]

/-- **SubdocInsert refuses a missing document** (never written, deleted or purged), writing nothing. -/
theorem C18_insert_refuses_missing_document (s : State) (c k pathStr : String) (path : List String) (cas : Nat) (txt : String) (j : J)
    (hp : parseSubdocPath pathStr = .inr path) (hv : J.parse txt = some j)
    (hmiss : getRaw s c k = (.missing, none, (getRaw s c k).2.2)) :
    opSubdocWrite s c k pathStr cas (some txt) true = (s, { err := .missing }) := by
  have h1 : (getRaw s c k).2.1 = none := by rw [hmiss]
  have h2 : (getRaw s c k).1 = .missing := by rw [hmiss]
  simp [opSubdocWrite, subdocPlan, hp, hv, h1, h2]

/-- **A supplied CAS is honoured**: the plan only proceeds to the write when the CAS it read is the one supplied (or none
    was supplied), and the write it then issues is conditional on that very CAS. -/
theorem C18_supplied_cas_is_honoured (s : State) (c k path : String) (cas : Nat) (v : Option String) (insert : Bool)
    (casRead : Nat) (body : String) (h : subdocPlan s c k path cas v insert = .inr (casRead, body)) :
    casRead = (getRaw s c k).2.2 ∧ (cas = 0 ∨ casRead = cas) := by
  unfold subdocPlan at h
  split at h
  · cases h
  · simp only at h
    split at h
    · cases h
    · split at h
      · cases h
      · split at h
        · cases h
        · rename_i hcas
          split at h
          · cases h
          · cases h
            refine ⟨rfl, ?_⟩
            by_cases h0 : cas = 0
            · exact Or.inl h0
            · right
              simp only [not_and, Decidable.not_not] at hcas
              exact hcas h0

/-- **Equivalent to reading, editing and writing back atomically on the version that was read**: the call is a pure plan
    (read + edit) followed by one `WriteCas` conditional on exactly the CAS the plan read — so (C02) it is applied only if
    no other writer replaced that version in between, and a concurrent update of another property is never lost. -/
theorem C18_is_plan_then_conditional_write (s : State) (c k path : String) (cas : Nat) (v : Option String) (insert : Bool) :
    opSubdocWrite s c k path cas v insert =
      match subdocPlan s c k path cas v insert with
      | .inl out => (s, out)
      | .inr (casRead, body) => opWriteCas s c k 0 casRead (some body) {} := rfl

/-- **GetSubDocRaw returns the JSON of exactly the addressed property.** -/
theorem C18_get_returns_addressed_property (s : State) (c k pathStr body : String) (path : List String) (cas : Nat) (d x : J)
    (hp : parseSubdocPath pathStr = .inr path) (hg : getRaw s c k = (.ok, some body, cas)) (hd : bodyAsObject body = .inr d)
    (hx : evalSubdocPath d path = .inr x) : opGetSubDocRaw s c k pathStr = { cas := cas, val := some x.canon.print } := by
  simp [opGetSubDocRaw, hp, hg, hd, hx]

/-- Non-vacuity on the object model: set a nested property, a sibling and another top-level property survive. -/
example :
    let d : J := .obj (.cons "a" (.atom "1") (.cons "n" (.obj (.cons "x" (.atom "2") (.cons "y" (.atom "3") .nil))) .nil))
    (match subdocEdit d ["n", "x"] (some (.atom "9")) false with
     | .inr d' => (d'.print, (topGet d' "a").map J.print)
     | .inl _ => ("", none)) = ("{\"a\":1,\"n\":{\"x\":9,\"y\":3}}", some "1") := by
  decide

end Rosmar
