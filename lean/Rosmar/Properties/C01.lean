/-
  C01 — key-value read-after-write: every read returns the last successful write.
-/
import Rosmar.Proofs.Families
namespace Rosmar

/-- **Reads are projections of the single stored version of the key**: body, CAS and expiry of `GetRaw`/`Get`,
    `Exists`, `GetExpiry`, `GetWithXattrs` all come from the same row; a key without a row (never written, or purged)
    and a row without a body (deleted) are reported missing. -/
theorem C01_reads_return_the_stored_version (s : State) (c k : String) (names : List String) :
    (match s.row? c k with
     | none =>
        getRaw s c k = (.missing, none, 0) ∧ exists_ s c k = false ∧ getExpiry s c k = (.missing, 0) ∧
        getWithXattrs s c k names = (.missing, none, 0, none)
     | some r =>
        getExpiry s c k = (.ok, r.exp) ∧
        (match r.value with
         | some b => getRaw s c k = (.ok, some b, r.cas) ∧ exists_ s c k = true ∧
                     (getWithXattrs s c k names).1 = .ok ∧ (getWithXattrs s c k names).2.1 = some b ∧ (getWithXattrs s c k names).2.2.1 = r.cas
         | none => getRaw s c k = (.missing, none, r.cas) ∧ exists_ s c k = false ∧ (getWithXattrs s c k names).2.1 = none)) := by
  cases h : s.row? c k with
  | none => simp [getRaw, exists_, getExpiry, getWithXattrs, h]
  | some r =>
    cases hv : r.value with
    | none => simp [getRaw, exists_, getExpiry, getWithXattrs, h, hv]; split <;> simp
    | some b => simp [getRaw, exists_, getExpiry, getWithXattrs, h, hv]

/-- **The version a key holds is the one its most recent successful mutation stored**: a single-row call either
    leaves every row alone, or stores the row its row function computed under the addressed key and leaves every
    other key of every collection alone. By induction over a history, what a read of `(c', k')` returns is what the
    last call that wrote `(c', k')` stored. -/
theorem C01_last_successful_write_wins (s : State) (op : Op) (c k : String) (f : RowFn) (h : op.shape = some (.row c k f)) :
    (∀ c' k', (step s op).1.row? c' k' = s.row? c' k') ∨
    (∃ r' ev out, f (hlcNow s.hlc s.phys) s.now (s.row? c k) = .inr (some r', ev, out) ∧
      (step s op).1.row? c k = some (storedRow (s.row? c k) s.nextRowId r') ∧
      ∀ c' k', (c' ≠ c ∨ k' ≠ k) → (step s op).1.row? c' k' = s.row? c' k') := by
  obtain ⟨out, _, ho⟩ := step_outcome s op c k f h
  cases ho with
  | noColl _ hr _ => exact Or.inl hr
  | failed _ hr => exact Or.inl hr
  | unchanged _ _ hr => exact Or.inl hr
  | wrote r' ev hf hr hother => exact Or.inr ⟨r', ev, out, hf, hr, hother⟩

/-- **An operation that returns an error leaves every document exactly as it was** — every single-row entry point … -/
theorem C01_error_leaves_everything_unchanged (s : State) (op : Op) (c k : String) (f : RowFn) (h : op.shape = some (.row c k f))
    (out : Out) (hout : (step s op).2 = .out out) (herr : out.err ≠ .ok) :
    ∀ c' k', (step s op).1.row? c' k' = s.row? c' k' := by
  obtain ⟨out', hout', ho⟩ := step_outcome s op c k f h
  rw [hout] at hout'; cases hout'
  cases ho with
  | noColl _ hr _ => exact hr
  | failed _ hr => exact hr
  | unchanged _ _ hr => exact hr
  | wrote r' ev hf _ _ => exact absurd (shape_family okOnWrite_family op c k f h _ _ _ _ _ _ hf) herr

/-- … and every call rejected by its argument checks. -/
theorem C01_rejected_call_changes_nothing (s : State) (op : Op) (e : Err) (h : op.shape = some (.rejected e)) :
    step s op = (s, .out { err := e }) := step_rejected s op e h

/-- The CAS a write returns is the CAS reads then report. -/
theorem C01_returned_cas_is_stored_cas (s : State) (c k : String) (exp cas : Nat) (v : Option String) (o : WOpts)
    (out : Out) (hout : (step s (.wcas c k exp cas v o)).2 = .out out) (hok : out.err = .ok) (x : Coll) (hx : s.coll? c = some x) :
    (getRaw (step s (.wcas c k exp cas v o)).1 c k).2.2 = out.cas := by
  obtain ⟨out', hout', ho⟩ := step_outcome s (.wcas c k exp cas v o) c k _ rfl
  rw [hout] at hout'; cases hout'
  cases ho with
  | noColl hc _ _ => rw [hx] at hc; cases hc
  | failed hf _ =>
    exfalso
    -- a failed row function returns an error result
    unfold wcasRow at hf
    split at hf
    · cases hf; simp at hok
    · simp only at hf
      split at hf
      · split at hf
        · cases hf; simp at hok
        · split at hf
          · cases hf; simp at hok
          · split at hf <;> (cases hf; simp at hok)
      · cases hf
  | unchanged _ hf _ => exact absurd hf (by apply (noneStored_quiet k).2.2.1)
  | wrote r' ev hf hr _ =>
    have hcas := (wcasRow_faithful k exp cas v o _ _ _ _ _ _ hf).2.1
    unfold getRaw
    rw [hr]
    unfold wcasRow at hf
    split at hf
    · cases hf
    · simp only at hf
      split at hf
      · split at hf
        · cases hf
        · split at hf
          · cases hf
          · split at hf <;> cases hf
      · cases hf
        cases hv : (storedRow (s.row? c k) s.nextRowId _).value <;> simp [storedRow] at hv ⊢ <;> simp [storedRow, hcas]

/-- Non-vacuity: `Set`, a failing `WriteCas`, a read. -/
example :
    let s1 := (step initState (.set "c0" "k" 7 false "{\"a\":1}" false)).1
    let r2 := step s1 (.wcas "c0" "k" 0 12345 (some "x") {})
    getRaw r2.1 "c0" "k" = (.ok, some "{\"a\":1}", 1048576) ∧ getExpiry r2.1 "c0" "k" = (.ok, 1700000007) ∧
      r2.1.row? "c0" "k" = s1.row? "c0" "k" := by
  decide

end Rosmar
