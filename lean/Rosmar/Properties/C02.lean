/-
  C02 — a CAS-conditional write succeeds iff the CAS is current.
-/
import Rosmar.Proofs.Insert
namespace Rosmar

/-- The expected-CAS argument of the CAS-conditional entry points (`none`: the call is not CAS-conditional —
    in particular `WriteCas` with CAS 0 or `AddOnly`, which is insert-style and belongs to C06). -/
def Op.expectedCas : Op → Option Nat
  | .wcas _ _ _ cas _ o => if cas ≠ 0 ∧ o.addOnly = false then some cas else none
  | .remove _ _ cas => some cas
  | .rmx _ _ _ cas => some cas
  | .updx _ _ _ cas _ _ => some cas
  | .wwx _ _ _ cas _ _ _ _ _ => some cas
  | .wtx _ _ _ cas _ _ _ _ => some cas
  | .uxdb _ _ _ _ cas _ _ => some cas
  | _ => none

/-- Row functions run by a conditional call with expected CAS `cas` write only onto the version with that CAS. -/
theorem conditional_row (op : Op) (cas : Nat) (hc : op.expectedCas = some cas) (c k : String) (f : RowFn)
    (h : op.shape = some (.row c k f)) (nc now : Nat) (old : Option Row) (r' : Row) (ev : Option Event) (out : Out)
    (hf : f nc now old = .inr (some r', ev, out)) : casOf old = cas ∧ r'.cas = nc := by
  have wwx : ∀ (val : ValArg) (edits : List XEdit) (ex : Option Nat) (o : XOpts) (m : Macros) (c' k' : String) (f' : RowFn),
      wwxShape c' k' val edits (some cas) ex o m = .row c k f' → f' = f → casOf old = cas ∧ r'.cas = nc := by
    intro val edits ex o m c' k' f' hsh hff
    unfold wwxShape at hsh
    split at hsh
    · cases hsh
    · cases hsh; subst hff
      exact ⟨wwxRow_conditional _ _ _ _ _ _ _ _ _ _ _ _ _ hf, (wwxRow_faithful _ _ _ _ _ _ _ _ _ _ _ _ _ hf).2.1⟩
  cases op <;> simp only [Op.expectedCas, reduceCtorEq] at hc <;> simp only [Op.shape, Option.some.injEq] at h
  case wcas c0 k0 exp cas0 v o =>
    split at hc
    · rename_i hh; cases hc; cases h
      exact ⟨wcasRow_conditional _ _ _ _ _ _ _ _ hh.1 hh.2 _ _ _ hf, (wcasRow_faithful _ _ _ _ _ _ _ _ _ _ _ hf).2.1⟩
    · cases hc
  case remove c0 k0 cas0 =>
    cases hc; cases h
    obtain ⟨r, rfl, hr⟩ := removeRow_conditional _ _ _ _ _ _ _ _ hf
    exact ⟨by simpa [casOf] using hr, (removeRow_faithful _ _ _ _ _ _ _ _ hf).2.1⟩
  case rmx => cases hc; exact wwx _ _ _ _ _ _ _ _ h rfl
  case uxdb => cases hc; exact wwx _ _ _ _ _ _ _ _ h rfl
  case updx =>
    cases hc
    unfold shapeUpdateXattrs at h
    split at h
    · cases h
    · exact wwx _ _ _ _ _ _ _ _ h rfl
  case wwx =>
    cases hc
    unfold shapeWriteWithXattrs at h
    split at h; · cases h
    split at h; · cases h
    split at h; · cases h
    split at h
    · cases h
    · exact wwx _ _ _ _ _ _ _ _ h rfl
  case wtx =>
    cases hc
    unfold shapeWriteTombstoneWithXattrs at h
    split at h; · cases h
    split at h; · cases h
    split at h; · cases h
    split at h
    · cases h
    · exact wwx _ _ _ _ _ _ _ _ h rfl

/-- **C02, all conditional entry points, all states.** The call either changes no row of any collection, or the
    expected CAS it carried was the document's current CAS (0 = no such document), the document now carries the new
    CAS just drawn from the clock, and no other key changed. -/
theorem C02_applied_only_if_current (s : State) (op : Op) (cas : Nat) (hc : op.expectedCas = some cas)
    (c k : String) (f : RowFn) (h : op.shape = some (.row c k f)) :
    (∀ c' k', (step s op).1.row? c' k' = s.row? c' k') ∨
    (casOf (s.row? c k) = cas ∧ casOf ((step s op).1.row? c k) = hlcNow s.hlc s.phys ∧
      ∀ c' k', (c' ≠ c ∨ k' ≠ k) → (step s op).1.row? c' k' = s.row? c' k') := by
  obtain ⟨out, _, ho⟩ := step_outcome s op c k f h
  cases ho with
  | noColl _ hr _ => exact Or.inl hr
  | failed _ hr => exact Or.inl hr
  | unchanged _ _ hr => exact Or.inl hr
  | wrote r' ev hf hr hother =>
    right
    obtain ⟨h1, h2⟩ := conditional_row op cas hc c k f h _ _ _ _ _ _ hf
    refine ⟨h1, ?_, hother⟩
    rw [hr]
    simpa [casOf, storedRow] using h2

/-- **Consequently two writers that both read version `v` can never both replace it**: once a conditional write on
    version `cas` has been applied the document carries the CAS just drawn from the clock, which is larger than the
    clock's previous high-water mark; a second conditional call that still expects `cas` is therefore not applied
    whenever the version it expects is not newer than that mark (true of every CAS the regular API ever handed out, C04). -/
theorem C02_at_most_one_of_two_writers (s : State) (op1 op2 : Op) (cas : Nat)
    (h1c : op1.expectedCas = some cas) (h2c : op2.expectedCas = some cas)
    (c k : String) (f1 f2 : RowFn) (h1 : op1.shape = some (.row c k f1)) (h2 : op2.shape = some (.row c k f2))
    (hle : cas ≤ s.hlc)
    (hw1 : ¬ ∀ c' k', (step s op1).1.row? c' k' = s.row? c' k') :
    ∀ c' k', (step (step s op1).1 op2).1.row? c' k' = (step s op1).1.row? c' k' := by
  rcases C02_applied_only_if_current s op1 cas h1c c k f1 h1 with hno | ⟨_, hnew, _⟩
  · exact absurd hno hw1
  · rcases C02_applied_only_if_current (step s op1).1 op2 cas h2c c k f2 h2 with hno | ⟨hcur, _, _⟩
    · exact hno
    · exfalso
      rw [hnew] at hcur
      have : hlcNow s.hlc s.phys > s.hlc := by unfold hlcNow; simp only; split <;> omega
      omega

/-- SetWithMeta / DeleteWithMeta are conditional on `oldCas` in the same way. -/
theorem C02_withMeta (k : String) (oldCas newCas exp : Nat) (xs : Xattrs) (body : Option String) (j d : Bool)
    (nc now : Nat) (old : Option Row) (r' : Row) (ev : Option Event) (out : Out)
    (h : wmetaRow k oldCas newCas exp xs body j d nc now old = .inr (some r', ev, out)) : casOf old = oldCas :=
  wmetaRow_conditional k oldCas newCas exp xs body j d nc now old r' ev out h

/-- Non-vacuity: a stale CAS is refused and changes nothing; the current one is applied. -/
example :
    let s1 := (step initState (.set "c0" "k" 0 false "1" false)).1
    let cur := casOf (s1.row? "c0" "k")
    let stale := step s1 (.wcas "c0" "k" 0 (cur + 7) (some "2") {})
    let good := step s1 (.wcas "c0" "k" 0 cur (some "2") {})
    stale.1.row? "c0" "k" = s1.row? "c0" "k" ∧ (good.1.row? "c0" "k").map (·.value) = some (some "2") := by
  decide

end Rosmar
