/-
  C11 — collections (and buckets) are isolated from one another.
-/
import Rosmar.Proofs.Shape
import Rosmar.Colls
namespace Rosmar

/-- **Frame.** A single-row call addressed to collection `c` leaves every other collection exactly as it was:
    documents, xattrs, expiries, CAS, revision numbers, the collection's high-water mark — the whole `Coll` value. -/
theorem C11_other_collections_untouched (s : State) (op : Op) (c k : String) (f : RowFn) (h : op.shape = some (.row c k f))
    (c' : String) (hne : c' ≠ c) : (step s op).1.coll? c' = s.coll? c' := by
  obtain ⟨_, _, hcoll⟩ := step_shape s op _ h
  rw [hcoll c']
  exact withNewCas_coll?_other s c c' _ hne

/-- … in particular every key of every other collection reads as before, even when the same key exists in both. -/
theorem C11_same_key_other_collection (s : State) (op : Op) (c k : String) (f : RowFn) (h : op.shape = some (.row c k f))
    (c' : String) (hne : c' ≠ c) (k' : String) : (step s op).1.row? c' k' = s.row? c' k' := by
  rw [State.row?_def, State.row?_def, C11_other_collections_untouched s op c k f h c' hne]

/-- A rejected call changes nothing anywhere. -/
theorem C11_rejected (s : State) (op : Op) (e : Err) (h : op.shape = some (.rejected e)) : (step s op).1 = s := by
  rw [step_rejected s op e h]

/-- **Feeds**: the event of a write to `c` is queued only on feeds of `c`. -/
theorem C11_feeds_of_other_collections (s : State) (c : String) (id : Nat) (e : Event) (f : Feed) (hf : f ∈ s.feeds)
    (hne : f.coll ≠ c) : f ∈ (postEvent s c id e).feeds := by
  unfold postEvent
  simp only [List.mem_map]
  exact ⟨f, hf, by simp [hne]⟩

/-- The compound read-modify-write calls only ever run single-row transactions on their own collection,
    so the frame extends to them. -/
theorem C11_update_frame (fuel : Nat) : ∀ (s : State) (c k : String) (exp : Nat) (steps : List UpdStep) (calls : Nat) (seen : List String)
    (c' : String), c' ≠ c → (opUpdate fuel s c k exp steps calls seen).1.coll? c' = s.coll? c' := by
  induction fuel with
  | zero => intro s c k exp steps calls seen c' _; rfl
  | succ n ih =>
    intro s c k exp steps calls seen c' hne
    have hw : ∀ (v : Option String) (e cas : Nat), (opWriteCas s c k e cas v {}).1.coll? c' = s.coll? c' :=
      fun v e cas => withNewCas_coll?_other s c c' _ hne
    unfold opUpdate
    simp only
    repeat' (first
      | rfl
      | exact hw _ _ _
      | exact ih _ _ _ _ _ _ _ _ hne
      | exact (ih _ _ _ _ _ _ _ _ hne).trans (hw _ _ _)
      | split)

/-- Non-vacuity: `Touch` (whose UPDATE once had no collection conjunct) on `c0/k` leaves `c1/k` alone. -/
example :
    let s1 := (step initState (.set "c0" "k" 0 false "1" false)).1
    let s2 := (step s1 (.set "c1" "k" 0 false "2" false)).1
    let s3 := (step s2 (.touch "c0" "k" 500)).1
    s3.row? "c1" "k" = s2.row? "c1" "k" ∧ (s3.row? "c0" "k").map (·.exp) = some 1700000500 := by
  decide

/-! ### Dropping and re-creating collections -/

/-- Dropping a collection leaves every other collection exactly as it was… -/
theorem C11_drop_leaves_other_collections (s : State) (c c' : String) (h : c' ≠ c) : (opDropColl s c).coll? c' = s.coll? c' :=
  opDropColl_coll?_other s c c' h

/-- …and removes it: whatever it held is gone. -/
theorem C11_dropped_collection_is_gone (s : State) (c : String) : (opDropColl s c).coll? c = none := opDropColl_gone s c

/-- A collection created after a drop (under the old or another name) starts empty, never written, with an id that no
collection of the bucket has had (`nextCollId` only grows), and every other collection is as it was. -/
theorem C11_recreated_collection_is_empty_and_new (s : State) (c : String) (h : s.coll? c = none) :
    (opMkColl s c).2 = s.nextCollId ∧ (opMkColl s c).1.nextCollId = s.nextCollId + 1 ∧
    (opMkColl s c).1.colls = s.colls ++ [(c, { id := s.nextCollId, lastCas := 0, docs := [] })] := by
  unfold opMkColl; rw [h]; exact ⟨rfl, rfl, rfl⟩

/-- A call made through the object of a dropped collection changes no collection (nor the bucket's high-water mark, the
committed log or the expiry timer): at most the clock has advanced. -/
theorem C11_calls_on_a_dropped_collection_touch_nothing (s : State) (c : String) (op : Op) :
    (stepDropped s c op).1.colls = s.colls ∧ (stepDropped s c op).1.lastCas = s.lastCas ∧
    (stepDropped s c op).1.acked = s.acked ∧ (stepDropped s c op).1.expNext = s.expNext :=
  ⟨rfl, rfl, rfl, rfl⟩

end Rosmar
