/-
  C11 — collections (and buckets) are isolated from one another.
-/
import Rosmar.Proofs.Shape
namespace Rosmar

/-- **Frame.** A single-row call addressed to collection `c` leaves every other collection exactly as it was:
    documents, xattrs, expiries, CAS, revision numbers, the collection's high-water mark — the whole `Coll` value. -/
theorem C11_other_collections_untouched (s : State) (op : Op) (c k : String) (f : RowFn) (h : op.shape = some (.row c k f))
    (c' : String) (hne : c' ≠ c) : (step s op).1.coll? c' = s.coll? c' := by
  obtain ⟨_, _, hcoll⟩ := step_shape s op _ h
  rw [hcoll c']
  exact withNewCas_coll?_other s c c' _ hne

/-- … in particular every key of every other collection reads as before, even when the same key exists in both. -/
theorem C11_same_key_other_collection (s : State) (op : Op) (c k : String) (f : RowFn) (h : op.shape = some (.row c k f))
    (c' : String) (hne : c' ≠ c) (k' : String) : (step s op).1.row? c' k' = s.row? c' k' := by
  rw [State.row?_def, State.row?_def, C11_other_collections_untouched s op c k f h c' hne]

/-- A rejected call changes nothing anywhere. -/
theorem C11_rejected (s : State) (op : Op) (e : Err) (h : op.shape = some (.rejected e)) : (step s op).1 = s := by
  rw [step_rejected s op e h]

/-- **Feeds**: the event of a write to `c` is queued only on feeds of `c`. -/
theorem C11_feeds_of_other_collections (s : State) (c : String) (id : Nat) (e : Event) (f : Feed) (hf : f ∈ s.feeds)
    (hne : f.coll ≠ c) : f ∈ (postEvent s c id e).feeds := by
  unfold postEvent
  simp only [List.mem_map]
  exact ⟨f, hf, by simp [hne]⟩

/-- The compound read-modify-write calls only ever run single-row transactions on their own collection,
    so the frame extends to them. -/
theorem C11_update_frame (fuel : Nat) : ∀ (s : State) (c k : String) (exp : Nat) (steps : List UpdStep) (calls : Nat) (seen : List String)
    (c' : String), c' ≠ c → (opUpdate fuel s c k exp steps calls seen).1.coll? c' = s.coll? c' := by
  induction fuel with
  | zero => intro s c k exp steps calls seen c' _; rfl
  | succ n ih =>
    intro s c k exp steps calls seen c' hne
    have hw : ∀ (v : Option String) (e cas : Nat), (opWriteCas s c k e cas v {}).1.coll? c' = s.coll? c' :=
      fun v e cas => withNewCas_coll?_other s c c' _ hne
    unfold opUpdate
    simp only
    repeat' (first
      | rfl
      | exact hw _ _ _
      | exact ih _ _ _ _ _ _ _ _ hne
      | exact (ih _ _ _ _ _ _ _ _ hne).trans (hw _ _ _)
      | split)

/-- Non-vacuity: `Touch` (whose UPDATE once had no collection conjunct) on `c0/k` leaves `c1/k` alone. -/
example :
    let s1 := (step initState (.set "c0" "k" 0 false "1" false)).1
    let s2 := (step s1 (.set "c1" "k" 0 false "2" false)).1
    let s3 := (step s2 (.touch "c0" "k" 500)).1
    s3.row? "c1" "k" = s2.row? "c1" "k" ∧ (s3.row? "c0" "k").map (·.exp) = some 1700000500 := by
  decide

end Rosmar
