/-
  The schedule-level clauses of C08 / C09 / C15 that do NOT hold of this code, proved false of the model by a concrete
  schedule (each is replayed on the implementation by the forced-schedule check and recorded as a known finding), next to
  the restricted statements that do hold.
-/
import Rosmar.Sched
import Rosmar.Proofs.FeedLemmas
namespace Rosmar

/-- C08's full ordering clause: under every schedule of commits and posts, every feed is given increasing CAS values. -/
def C08_order_full : Prop :=
  ∀ (s : State) (c : String) (fn1 fn2 : TxnFn),
    let a := commitOnly s c fn1
    let b := commitOnly a.1 c fn2
    -- the second writer posts first
    let s' := postPending (postPending b.1 c b.2.2) c a.2.2
    ∀ f ∈ s'.feeds, (feedCas f).Pairwise (· < ·)

/-- **It is false**: writer 1 commits, writer 2 commits and posts, writer 1 posts — the feed gets CAS₂ before CAS₁. -/
theorem C08_order_full_false : ¬ C08_order_full := by
  intro h
  have := h (step initState (.startFeed "f" "c0" .none false false)).1 "c0"
    (setFn "k1" 0 false "1" true) (setFn "k2" 0 false "2" true)
  revert this
  decide

/-- **What does hold**: when each post immediately follows its own commit (a single writer, or any schedule that does not
    separate the two), the CAS given to a feed by a write exceeds every CAS the clock handed out before. -/
theorem C08_order_partial (s : State) (c : String) (fn : TxnFn) (docs' : Docs) (nid : Nat) (e : Event) (out : Out) (x : Coll)
    (hx : s.coll? c = some x) (hfn : fn (hlcNow s.hlc s.phys) s.now s.nextRowId x.docs = .inr (docs', nid, some e, out)) :
    (withNewCas s c fn).1.feeds = s.feeds.map (fun f =>
      if f.coll = c ∧ ¬ f.dump ∧ ¬ f.stopped then { f with pending := f.pending ++ [.ev e x.id f.keysOnly] } else f) ∧
    hlcNow s.hlc s.phys > s.hlc := by
  refine ⟨?_, hlcNow_gt _ _⟩
  rw [withNewCas_feeds, hx]
  simp only [hfn]

/-- C09's "no gap" clause: whatever commits and posts between a feed's backfill query and its registration, the key's
    final version reaches the feed by backfill or live. -/
def C09_nogap_full : Prop :=
  ∀ (s : State) (c : String) (fn : TxnFn),
    let items := feedQuery s c (.from 0) false
    let w := withNewCas s c fn                           -- a complete write (commit + post) in the window
    let s' := feedRegister w.1 "f" c items false false
    ∀ k r, w.1.row? c k = some r → ∀ f ∈ s'.feeds, f.id = "f" → k ∈ feedKeys f

/-- **It is false**: the write commits and posts after the query and before the registration; neither path delivers it. -/
theorem C09_nogap_full_false : ¬ C09_nogap_full := by
  intro h
  have := h initState "c0" (setFn "k" 0 false "1" true) "k"
  revert this
  decide

/-- **What does hold**: with no write in that window (`opStartFeed` = query and registration back to back) every stored
    row with CAS ≥ start is in the backfill (C09_snapshot), and every later write is delivered live (C08_delivery). -/
theorem C09_nogap_partial (s : State) (id c : String) (start : Nat) (ko : Bool) :
    (opStartFeed s id c (.from start) false ko).1 =
      (match s.coll? c with
       | none => s
       | some _ => feedRegister s id c (feedQuery s c (.from start) ko) false ko) := by
  unfold opStartFeed feedRegister feedQuery
  cases s.coll? c <;> simp

end Rosmar
