/-
  C06 — insert-only writes never overwrite a live document, always create an absent one.
-/
import Rosmar.Proofs.Insert
namespace Rosmar

/-- What `GetRaw` reports: the key is missing exactly when it has no body. -/
theorem C06_getRaw_missing_iff (s : State) (c k : String) : (getRaw s c k).1 = .missing ↔ NoBody (s.row? c k) := by
  unfold getRaw NoBody
  cases h : s.row? c k with
  | none => simp
  | some r => cases hv : r.value <;> simp [hv]

/-- **Add / AddRaw**: in every coherent state (every reachable one, by `run_coh`), the call stores the document
    iff a `GetRaw` at that point reports the key missing; when it is refused nothing at all is written and
    `added = false` is returned. -/
theorem C06_add (s : State) (c k : String) (exp : Nat) (v : String) (json : Bool) (hs : StateAll RowCoh s)
    (x : Coll) (hx : s.coll? c = some x) :
    let r := step s (.add c k exp v json)
    ((getRaw s c k).1 = .missing →
        ∃ row, r.1.row? c k = some row ∧ row.value = some v ∧ r.2 = .out { added := true }) ∧
    ((getRaw s c k).1 ≠ .missing →
        (∀ c' k', r.1.row? c' k' = s.row? c' k') ∧ r.2 = .out { added := false }) := by
  intro r
  have hold : OldCoh (s.row? c k) := by
    intro r0 hr0
    rw [State.row?_def, hx] at hr0
    exact (hs.coll c x hx).get k r0 hr0
  obtain ⟨out, hout, ho⟩ := step_outcome s (.add c k exp v json) c k _ rfl
  have hiff := addRow_succeeds_iff k exp v (if json then true else looksLikeJSON v) (hlcNow s.hlc s.phys) s.now (s.row? c k) hold
  have href := addRow_refusal k exp v (if json then true else looksLikeJSON v) (hlcNow s.hlc s.phys) s.now (s.row? c k)
  simp only [ne_eq, C06_getRaw_missing_iff]
  constructor
  · intro hnb
    obtain ⟨r', ev, o, hf⟩ := hiff.mpr hnb
    cases ho with
    | noColl hc _ _ => rw [hx] at hc; cases hc
    | failed hf' _ => rw [hf] at hf'; cases hf'
    | unchanged _ hf' _ => rw [hf] at hf'; cases hf'
    | wrote r'' ev' hf' hrow _ =>
      rw [hf] at hf'; cases hf'
      refine ⟨_, hrow, ?_, ?_⟩
      · unfold addRow at hf
        cases hold' : s.row? c k with
        | none => rw [hold'] at hf; simp at hf; obtain ⟨rfl, _, _⟩ := hf; rfl
        | some r0 =>
          rw [hold'] at hf
          by_cases ht : r0.tomb = true
          · simp [ht] at hf; obtain ⟨rfl, _, _⟩ := hf; rfl
          · simp [ht] at hf
      · rw [hout]
        unfold addRow at hf
        cases hold' : s.row? c k with
        | none => rw [hold'] at hf; simp at hf; obtain ⟨_, _, rfl⟩ := hf; rfl
        | some r0 =>
          rw [hold'] at hf
          by_cases ht : r0.tomb = true
          · simp [ht] at hf; obtain ⟨_, _, rfl⟩ := hf; rfl
          · simp [ht] at hf
  · intro hb
    have hno : ¬ ∃ r' ev o, addRow k exp v (if json then true else looksLikeJSON v) (hlcNow s.hlc s.phys) s.now (s.row? c k) = .inr (some r', ev, o) :=
      fun h => hb (hiff.mp h)
    rcases href with ⟨r', ev, o, hf, _⟩ | hf
    · exact absurd ⟨r', ev, o, hf⟩ hno
    · cases ho with
      | noColl hc _ _ => rw [hx] at hc; cases hc
      | failed hf' _ => rw [hf] at hf'; cases hf'
      | unchanged _ hf' hr => rw [hf] at hf'; cases hf'; exact ⟨hr, hout⟩
      | wrote r'' ev' hf' _ _ => rw [hf] at hf'; cases hf'

/-- **WriteCas with CAS 0 or with AddOnly** (not Append): it writes iff the key has no body; otherwise every row is
    left exactly as it was. (With `AddOnly` and a non-zero CAS on a key that has no row at all the code reports
    *missing*; that call is outside this statement's hypothesis.) -/
theorem C06_writeCas_insert (s : State) (c k : String) (exp cas : Nat) (v : Option String) (o : WOpts)
    (hs : StateAll RowCoh s) (x : Coll) (hx : s.coll? c = some x) (happ : o.append = false)
    (hins : cas = 0 ∨ (o.addOnly = true ∧ s.row? c k ≠ none)) :
    let r := step s (.wcas c k exp cas v o)
    (NoBody (s.row? c k) → ∃ row, r.1.row? c k = some row ∧ row.value = v ∧ row.cas = hlcNow s.hlc s.phys) ∧
    (¬ NoBody (s.row? c k) → ∀ c' k', r.1.row? c' k' = s.row? c' k') := by
  intro r
  have hold : OldCoh (s.row? c k) := by
    intro r0 hr0
    rw [State.row?_def, hx] at hr0
    exact (hs.coll c x hx).get k r0 hr0
  obtain ⟨out, hout, ho⟩ := step_outcome s (.wcas c k exp cas v o) c k _ rfl
  have hiff := wcasRow_insert_iff k exp cas v o (hlcNow s.hlc s.phys) s.now (s.row? c k) hold happ hins
  constructor
  · intro hnb
    obtain ⟨r', ev, o', hf⟩ := hiff.mpr hnb
    cases ho with
    | noColl hc _ _ => rw [hx] at hc; cases hc
    | failed hf' _ => rw [hf] at hf'; cases hf'
    | unchanged _ hf' _ => rw [hf] at hf'; cases hf'
    | wrote r'' ev' hf' hrow _ =>
      rw [hf] at hf'; cases hf'
      refine ⟨_, hrow, ?_, ?_⟩
      · -- the stored value is the value passed (not Append)
        have := (wcasRow_faithful k exp cas v o _ _ _ _ _ _ hf)
        unfold wcasRow at hf
        cases hold' : s.row? c k with
        | none =>
          rw [hold'] at hf
          cases cas with
          | zero => simp [happ] at hf; obtain ⟨rfl, _, _⟩ := hf; rfl
          | succ n => simp at hf
        | some r0 =>
          rw [hold'] at hf
          have hv0 : r0.value = none := hnb r0 hold'
          have ht0 : r0.tomb = true := (hold r0 hold').mpr hv0
          have hb : (o.addOnly = true ∨ cas = 0) := by
            rcases hins with h | ⟨h, _⟩; exact Or.inr h; exact Or.inl h
          cases cas with
          | zero => simp [happ, ht0] at hf; obtain ⟨rfl, _, _⟩ := hf; rfl
          | succ n =>
            have ha : o.addOnly = true := by rcases hins with h | ⟨h, _⟩; cases h; exact h
            simp [happ, ha, ht0] at hf; obtain ⟨rfl, _, _⟩ := hf; rfl
      · exact (wcasRow_faithful k exp cas v o _ _ _ _ _ _ hf).2.1
  · intro hb
    have hno : ¬ ∃ r' ev o', wcasRow k exp cas v o (hlcNow s.hlc s.phys) s.now (s.row? c k) = .inr (some r', ev, o') :=
      fun h => hb (hiff.mp h)
    cases ho with
    | noColl hc _ _ => rw [hx] at hc; cases hc
    | failed _ hr => exact hr
    | unchanged _ _ hr => exact hr
    | wrote r'' ev' hf' _ _ => exact absurd ⟨_, _, _, hf'⟩ hno

/-- **WriteResurrectionWithXattrs**: whenever it writes, the key had no body; on a key without a body it is never
    refused for existing (`applyEdits` failures — bad JSON, macro paths — are the only ones left). -/
theorem C06_writeResurrection (k b : String) (edits : List XEdit) (exp : Option Nat) (m : Macros) (nc now : Nat)
    (old : Option Row) (hc : OldCoh old) :
    (∀ r' ev out, wwxRow k (.body b) edits none exp { insertDoc := true } m nc now old = .inr (some r', ev, out) → NoBody old) ∧
    (NoBody old → ∀ out, wwxRow k (.body b) edits none exp { insertDoc := true } m nc now old = .inl out →
        ∃ e, applyEdits [] edits m nc (some b) = .inl e ∧ out = { err := e }) :=
  ⟨fun r' ev out h => wwxRow_insertDoc k b edits exp m nc now old hc r' ev out h,
   fun hnb out h => wwxRow_insertDoc_not_refused k b edits exp m nc now old hc hnb out h⟩

/-- **WriteWithXattrs with CAS 0** writes only if the key does not exist at all. -/
theorem C06_writeWithXattrs_cas0 (k : String) (val : ValArg) (edits : List XEdit) (exp : Option Nat) (o : XOpts) (m : Macros)
    (nc now : Nat) (old : Option Row) (hpos : ∀ r, old = some r → r.cas ≠ 0) (r' : Row) (ev : Option Event) (out : Out)
    (h : wwxRow k val edits (some 0) exp o m nc now old = .inr (some r', ev, out)) : old = none :=
  wwxRow_cas0_only_if_absent k val edits exp o m nc now old hpos r' ev out h

/-- **A refused insert-style call leaves the document untouched** — indeed every single-row call that does not write
    leaves every row of every collection as it was. -/
theorem C06_refusal_untouched (s : State) (op : Op) (c k : String) (f : RowFn) (h : op.shape = some (.row c k f))
    (hno : ∀ r' ev out, f (hlcNow s.hlc s.phys) s.now (s.row? c k) ≠ .inr (some r', ev, out)) :
    ∀ c' k', (step s op).1.row? c' k' = s.row? c' k' := by
  obtain ⟨out, _, ho⟩ := step_outcome s op c k f h
  cases ho with
  | noColl _ hr _ => exact hr
  | failed _ hr => exact hr
  | unchanged _ _ hr => exact hr
  | wrote r' ev hf _ _ => exact absurd hf (hno r' ev out)

/-- Non-vacuity and the historical failure (`Add, Delete, Add, Add`): the last `Add` is refused and the document survives. -/
example :
    let s1 := (step initState (.add "c0" "k" 0 "1" true)).1
    let s2 := (step s1 (.delete "c0" "k")).1
    let s3 := (step s2 (.add "c0" "k" 0 "2" true)).1
    let r4 := step s3 (.add "c0" "k" 0 "3" true)
    (r4.1.row? "c0" "k").map (·.value) = some (some "2") ∧ (match r4.2 with | .out o => o.added | _ => true) = false := by
  decide

end Rosmar
