/-
  C10 — durability and crash atomicity of on-disk buckets.
  In the model one `withNewCas` (one `inTransaction`) is one atomic action, so the logical content of the property is
  what a transaction bundles and what a reopen keeps; that SQLite commits atomically and durably (WAL) and that every
  statement of a call runs inside its one transaction is what the kill-at-every-point check exercises on the real files.
-/
import Rosmar.Proofs.Expiry
import Rosmar.Proofs.Shape
namespace Rosmar

/-- What is in the database file (everything else in `State` lives in the process and dies with it). -/
def persisted (s : State) : List (String × Coll) × Nat × Nat := (s.colls, s.lastCas, s.nextRowId)

/-- **A reopen observes exactly what was committed**: rows (body, xattrs, CAS, expiry, revision number), collections and
    their high-water marks, the bucket's high-water mark — whatever the dying process' clock, feeds or timer were. -/
theorem C10_reopen_keeps_everything_committed (s : State) (processHlc : Nat) : persisted (reopen s processHlc) = persisted s := rfl

/-- … so a call that returned success before the kill is visible to any later open. -/
theorem C10_acknowledged_is_durable (s : State) (ops : List Op) (processHlc : Nat) (c k : String) :
    (reopen (run s ops).1 processHlc).row? c k = (run s ops).1.row? c k := rfl

/-- **Entirely applied or not at all**: a transaction either fails, leaving the persisted state exactly as it was, or
    commits the document row, the bucket's high-water mark and the collection's high-water mark together under the one
    CAS it drew. There is no state in which only some of them changed. -/
theorem C10_transaction_is_all_or_nothing (s : State) (c : String) (fn : TxnFn) :
    persisted (withNewCas s c fn).1 = persisted s ∨
    (∃ x docs' nid ev out, s.coll? c = some x ∧ fn (hlcNow s.hlc s.phys) s.now s.nextRowId x.docs = .inr (docs', nid, ev, out) ∧
      (withNewCas s c fn).1.lastCas = hlcNow s.hlc s.phys ∧ (withNewCas s c fn).1.nextRowId = nid ∧
      (withNewCas s c fn).1.coll? c = some { x with docs := docs', lastCas := hlcNow s.hlc s.phys }) := by
  unfold withNewCas
  cases hx : s.coll? c with
  | none => exact Or.inl rfl
  | some x =>
    simp only
    cases hfn : fn (hlcNow s.hlc s.phys) s.now s.nextRowId x.docs with
    | inl out => exact Or.inl rfl
    | inr q =>
      obtain ⟨docs', nid, ev, out⟩ := q
      right
      refine ⟨x, docs', nid, ev, out, rfl, hfn, ?_⟩
      have hc : (commit s c x (hlcNow s.hlc s.phys) nid docs').coll? c = some { x with docs := docs', lastCas := hlcNow s.hlc s.phys } := by
        unfold commit
        exact State.coll?_setColl_same _ _ _ x (by simpa [State.coll?] using hx)
      cases ev with
      | none => exact ⟨rfl, rfl, hc⟩
      | some e => exact ⟨rfl, rfl, by rw [postEvent_coll?]; exact hc⟩

/-- Every single-row entry point is exactly one such transaction (or is rejected before it starts one). -/
theorem C10_one_transaction_per_call (s : State) (op : Op) (sh : OpShape) (h : op.shape = some sh) :
    ∀ c', (step s op).1.coll? c' = (runShape s sh).1.coll? c' := (step_shape s op sh h).2.2

/-- The reopened bucket keeps its pending expirations: the timer is re-armed from the stored expiries. -/
theorem C10_reopen_keeps_pending_expirations (s : State) (processHlc : Nat) (p : String × Coll) (hp : p ∈ (reopen s processHlc).colls)
    (d : String × Row) (hd : d ∈ p.2.docs) (hexp : d.2.exp > 0) :
    (reopen s processHlc).expNext ≠ 0 ∧ (reopen s processHlc).expNext ≤ d.2.exp :=
  reopen_expInv s processHlc p hp d hd hexp

/-- Non-vacuity: a failed conditional write between two successful ones; reopen with a forgetful clock. -/
example :
    let s := (run initState [.set "c0" "k" 50 false "1" false, .wcas "c0" "k" 0 7 (some "x") {}, .set "c1" "j" 0 false "2" false]).1
    let r := reopen s 0
    (r.row? "c0" "k").map (·.value) = some (some "1") ∧ r.lastCas = s.lastCas ∧ r.hlc = s.lastCas ∧ r.expNext = 1700000050 := by
  decide

end Rosmar
