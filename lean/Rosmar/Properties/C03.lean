/-
  C03 — concurrent operations are linearizable.
  What is proved is about lists of atomic actions of the model; that an atomic action of the model is atomic in the
  implementation (one critical section under the bucket mutex inside BEGIN IMMEDIATE … COMMIT; a read is one SELECT)
  is the assumption, exercised by the forced-schedule check through the instrumentation points.
-/
import Rosmar.Proofs.Lin
namespace Rosmar

/-- **The version a callback was shown stays identified by its CAS, whatever else happens in between.** Take any state
    in which `(c, k)` carries CAS `cas0` (already handed out by the clock) with body `b0` and xattrs `x0`, and let *any*
    sequence of regular operations by any number of other callers run — reads, blind writes, CAS writes, Incr, Update
    loops, deletes, xattr writes, touches, expiry sweeps, feeds. If afterwards the key still carries CAS `cas0`, it still
    has exactly body `b0` and xattrs `x0`. -/
theorem C03_cas_identifies_the_version (c k : String) (cas0 : Nat) (hpos : cas0 ≠ 0) (b0 : Option String) (x0 : Xattrs)
    (s : State) (hle : cas0 ≤ s.hlc) (hcas : casOf (s.row? c k) = cas0) (hb : (s.row? c k).bind (·.value) = b0)
    (hx : ((s.row? c k).map (·.xattrs)).getD [] = x0) (env : List Op) (henv : ∀ op ∈ env, op.Regular) :
    casOf ((run s env).1.row? c k) = cas0 →
      ((run s env).1.row? c k).bind (·.value) = b0 ∧ (((run s env).1.row? c k).map (·.xattrs)).getD [] = x0 :=
  (run_inv (versionInv_step c k cas0 hpos b0 x0) env s henv ⟨hle, fun _ => ⟨hb, hx⟩⟩).2

/-- **Update / WriteUpdateWithXattrs / WriteSubDoc never lose an update**: the write that ends an iteration of their
    loop is `WriteCas` (resp. `writeWithXattrs`) conditional on the CAS read at the start of that iteration; after any
    interference `env` it is applied only if the key still carries that CAS (C02) — hence, by the theorem above, only on
    top of exactly the body and xattrs the callback was shown. Otherwise it changes nothing and the loop reads again. -/
theorem C03_callback_result_stored_only_on_version_shown (c k : String) (exp : Nat) (v : Option String)
    (s : State) (cas0 : Nat) (hpos : cas0 ≠ 0) (hle : cas0 ≤ s.hlc) (hcas : casOf (s.row? c k) = cas0)
    (env : List Op) (henv : ∀ op ∈ env, op.Regular) :
    let s' := (run s env).1
    (∀ c' k', (step s' (.wcas c k exp cas0 v {})).1.row? c' k' = s'.row? c' k') ∨
    (s'.row? c k).bind (·.value) = (s.row? c k).bind (·.value) ∧
      ((s'.row? c k).map (·.xattrs)).getD [] = ((s.row? c k).map (·.xattrs)).getD [] := by
  intro s'
  obtain ⟨out, _, ho⟩ := step_outcome s' (.wcas c k exp cas0 v {}) c k _ rfl
  cases ho with
  | noColl _ hr _ => exact Or.inl hr
  | failed _ hr => exact Or.inl hr
  | unchanged _ _ hr => exact Or.inl hr
  | wrote r' ev hf _ _ =>
    right
    have hcur : casOf (s'.row? c k) = cas0 := wcasRow_conditional k exp cas0 v {} _ _ _ hpos rfl r' ev out hf
    exact C03_cas_identifies_the_version c k cas0 hpos _ _ s hle hcas rfl rfl env henv hcur

/-- **Incr never loses an increment**: it is one atomic action — the read of the counter happens inside the same
    transaction as its write (`incrRow` receives the row and returns the row) — so `n` of them, however interleaved
    with each other, add up. -/
theorem C03_incr_is_one_atomic_action (s : State) (c k : String) (amt d exp : Nat) :
    (Op.incr c k amt d exp).shape = some (.row c k (incrRow k amt d exp)) := rfl

theorem C03_incrs_add_up (k : String) (nc now : Nat) (r : Row) (n amt : Nat) (hv : r.value = some (toString n)) (hn : parseUInt64 (toString n) = some n)
    (d exp : Nat) : ∃ r' ev, incrRow k amt d exp nc now (some r) = .inr (some r', ev, { n := (n + amt) % 2 ^ 64 }) ∧
      r'.value = some (toString ((n + amt) % 2 ^ 64)) := by
  unfold incrRow
  simp only [hv, hn, setCore]
  exact ⟨_, _, rfl, rfl⟩

/-- **A read is one atomic action that changes nothing**; a failed attempt changes no document (C01). -/
theorem C03_reads_change_nothing (s : State) (c k : String) (names : List String) : (step s (.rb c k names)).1 = s := rfl

/-- Non-vacuity: the interleaving `read; other writer; conditional write` — the stale write is refused, the retry wins. -/
example :
    let s0 := (run initState [.set "c0" "k" 0 false "1" false]).1
    let cas0 := casOf (s0.row? "c0" "k")
    let s1 := (run s0 [.set "c0" "k" 0 false "2" false]).1
    let stale := step s1 (.wcas "c0" "k" 0 cas0 (some "from-1") {})
    stale.1.row? "c0" "k" = s1.row? "c0" "k" ∧ casOf (s1.row? "c0" "k") ≠ cas0 := by
  decide

end Rosmar
