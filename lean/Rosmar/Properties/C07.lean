/-
  C07 — body and xattrs are independent; a combined write is all-or-nothing.
-/
import Rosmar.Proofs.XattrLemmas
import Rosmar.Proofs.Families
namespace Rosmar

/-- **An xattr write changes exactly the named xattrs**: through every xattr entry point (`SetXattrs`, `UpdateXattrs`,
    `RemoveXattrs`, `WriteWithXattrs`, `WriteTombstoneWithXattrs`, `WriteResurrectionWithXattrs`, `UpdateXattrDeleteBody`,
    each step of `WriteUpdateWithXattrs` — all are `writeWithXattrs`), an xattr whose name is not among the edits has,
    after the call, byte-for-byte the value `writeWithXattrs` started from. -/
theorem C07_unnamed_xattrs_intact (k : String) (val : ValArg) (edits : List XEdit) (ifCas exp : Option Nat) (o : XOpts) (m : Macros)
    (nc now : Nat) (old : Option Row) (r' : Row) (ev : Option Event) (out : Out)
    (h : wwxRow k val edits ifCas exp o m nc now old = .inr (some r', ev, out)) (n : String) (hn : ∀ e ∈ edits, e.1 ≠ n) :
    ∃ value0 isJSON0 prevCas exp0 xattrs0 rev0, wwxPre val ifCas o old = .inr (value0, isJSON0, prevCas, exp0, xattrs0, rev0) ∧
      Xattrs.get? r'.xattrs n = Xattrs.get? (wwxBody val value0 isJSON0 xattrs0).2.2 n := by
  obtain ⟨value0, isJSON0, prevCas, exp0, xattrs0, rev0, hpre, _, _, _, hx⟩ := wwxRow_effect k val edits ifCas exp o m nc now old r' ev out h
  exact ⟨value0, isJSON0, prevCas, exp0, xattrs0, rev0, hpre, applyEdits_frame edits m _ _ _ _ hx n hn⟩

/-- … in particular, on a live document whose body is kept or replaced, it is the old value of that xattr. -/
theorem C07_unnamed_xattrs_intact_live (k : String) (val : ValArg) (hval : val ≠ .delete) (edits : List XEdit) (ifCas exp : Option Nat)
    (o : XOpts) (m : Macros) (nc now : Nat) (r : Row) (hlive : r.tomb = false) (r' : Row) (ev : Option Event) (out : Out)
    (h : wwxRow k val edits ifCas exp o m nc now (some r) = .inr (some r', ev, out)) (n : String) (hn : ∀ e ∈ edits, e.1 ≠ n) :
    Xattrs.get? r'.xattrs n = Xattrs.get? r.xattrs n := by
  obtain ⟨value0, isJSON0, prevCas, exp0, xattrs0, rev0, hpre, hget⟩ := C07_unnamed_xattrs_intact k val edits ifCas exp o m nc now (some r) r' ev out h n hn
  obtain ⟨_, _, hx0⟩ := wwxPre_xattrs val ifCas o (some r) _ _ _ _ _ _ hpre
  rw [hget, hx0]
  cases val with
  | keep => simp [wwxBody, hlive]
  | delete => exact absurd rfl hval
  | body b => simp [wwxBody, hlive]

/-- **… and leaves the body and the expiry intact unless given.** -/
theorem C07_body_and_expiry_intact_unless_given (k : String) (edits : List XEdit) (ifCas : Option Nat) (o : XOpts) (m : Macros)
    (nc now : Nat) (r : Row) (r' : Row) (ev : Option Event) (out : Out)
    (h : wwxRow k .keep edits ifCas none o m nc now (some r) = .inr (some r', ev, out)) :
    r'.value = r.value ∧ r'.exp = r.exp := by
  obtain ⟨value0, isJSON0, prevCas, exp0, xattrs0, rev0, hpre, _, hv, he, _⟩ := wwxRow_effect k .keep edits ifCas none o m nc now (some r) r' ev out h
  obtain ⟨h1, h2, _⟩ := wwxPre_xattrs .keep ifCas o (some r) _ _ _ _ _ _ hpre
  simp only [wwxBody] at hv
  simp_all

/-- **A body-only write to a live document leaves its xattrs intact.** -/
theorem C07_body_write_keeps_xattrs (k : String) (r : Row) (hco : RowCoh r) (hlive : r.value ≠ none) (nc now : Nat) :
    (∀ exp pe v j r' ev o, setRow k exp pe v j nc now (some r) = .inr (some r', ev, o) → r'.xattrs = r.xattrs) ∧
    (∀ a d e r' ev o, incrRow k a d e nc now (some r) = .inr (some r', ev, o) → r'.xattrs = r.xattrs) ∧
    (∀ e c v o r' ev out, wcasRow k e c (some v) o nc now (some r) = .inr (some r', ev, out) → r'.xattrs = r.xattrs) :=
  bodyOnly_keeps_xattrs k r hco hlive nc now

/-- **All of it under one new CAS, or none of it**: a combined call either stores one row carrying the new body, all
    xattr edits, the expiry, the revision and the CAS just drawn — in one row update — or, for whatever reason it fails
    (CAS mismatch, missing xattr, bad JSON, oversize), changes no row of any collection. -/
theorem C07_all_or_nothing (s : State) (op : Op) (c k : String) (f : RowFn) (h : op.shape = some (.row c k f)) :
    (∀ c' k', (step s op).1.row? c' k' = s.row? c' k') ∨
    (∃ r' ev out, f (hlcNow s.hlc s.phys) s.now (s.row? c k) = .inr (some r', ev, out) ∧
      (step s op).1.row? c k = some (storedRow (s.row? c k) s.nextRowId r')) := by
  obtain ⟨out, _, ho⟩ := step_outcome s op c k f h
  cases ho with
  | noColl _ hr _ => exact Or.inl hr
  | failed _ hr => exact Or.inl hr
  | unchanged _ _ hr => exact Or.inl hr
  | wrote r' ev hf hr _ => exact Or.inr ⟨r', ev, out, hf, hr⟩

/-- **Macro expansions resolve to that same new CAS and to the checksum of the body as stored**: the edits (and their
    macros) are evaluated against exactly the CAS and the body of the row that is stored. -/
theorem C07_macros_use_stored_cas_and_body (k : String) (val : ValArg) (edits : List XEdit) (ifCas exp : Option Nat) (o : XOpts) (m : Macros)
    (nc now : Nat) (old : Option Row) (r' : Row) (ev : Option Event) (out : Out)
    (h : wwxRow k val edits ifCas exp o m nc now old = .inr (some r', ev, out)) :
    ∃ start, applyEdits start edits m r'.cas r'.value = .inr r'.xattrs := by
  obtain ⟨value0, isJSON0, _, _, xattrs0, _, _, _, _, _, hx⟩ := wwxRow_effect k val edits ifCas exp o m nc now old r' ev out h
  exact ⟨_, hx⟩

/-- Non-vacuity: remove one xattr of a document that has two; the other one, the body and the expiry are untouched;
    removing an xattr that is not there fails and changes nothing. -/
example :
    let s1 := (step initState (.wmeta "c0" "k" 0 100 77 [("_sync", "1"), ("usr", "2")] (some "{}") true false)).1
    let s2 := (step s1 (.rmx "c0" "k" ["usr"] 100)).1
    let s3 := (step s2 (.rmx "c0" "k" ["usr"] 1048576)).1
    (s2.row? "c0" "k").map (fun r => (r.value, r.exp, r.xattrs)) = some (some "{}", 77, [("_sync", "1")]) ∧
    s3.row? "c0" "k" = s2.row? "c0" "k" := by
  decide

end Rosmar
