/-
  C14 — expiry: documents live until their expiry time and are tombstoned by the sweep the timer runs.
  (That Go's timer actually fires within seconds of its deadline is an assumption; the harness' real-time slice exercises it.)
-/
import Rosmar.Proofs.Expiry
namespace Rosmar

/-- **The timer is always armed early enough** — every reachable state, every history (all write paths, touches,
    PreserveExpiry, deletes, WithMeta writes, sweeps, purges, reopen): if any stored document of any collection has an
    expiry `T`, the expiry manager has a timer pending for some time `≤ T`. So, provided the runtime fires timers, the
    sweep runs no later than `T` without any further client activity. -/
theorem C14_timer_armed_no_later_than_any_expiry (ops : List Op) (p : String × Coll) (hp : p ∈ (run initState ops).1.colls)
    (d : String × Row) (hd : d ∈ p.2.docs) (hexp : d.2.exp > 0) :
    (run initState ops).1.expNext ≠ 0 ∧ (run initState ops).1.expNext ≤ d.2.exp :=
  run_inv expInv_step ops initState (fun _ _ => trivial) initState_expInv p hp d hd hexp

/-- The expiry given is the expiry stored: an offset of at most 30 days is taken from the write's wall clock, anything
    larger is an absolute time, 0 is never. -/
theorem C14_absolute_expiry (now exp : Nat) :
    absExp now exp = (if exp = 0 then 0 else if exp ≤ 60 * 60 * 24 * 30 then now + exp else exp) := by
  unfold absExp maxDeltaTtl
  split <;> split <;> first | omega | (split <;> omega)

/-- **The expiry in force is the one set by the most recent write or touch, kept by PreserveExpiry, cleared by delete.** -/
theorem C14_expiry_in_force (k : String) (nc now : Nat) (r : Row) :
    (∀ exp v j r' ev o, setRow k exp false v j nc now (some r) = .inr (some r', ev, o) → r'.exp = absExp now exp) ∧
    (∀ exp v j r' ev o, setRow k exp true v j nc now (some r) = .inr (some r', ev, o) → r'.exp = r.exp) ∧
    (∀ exp r' ev o, touchRow exp nc now (some r) = .inr (some r', ev, o) → r'.exp = absExp now exp) ∧
    (∀ ic r' ev o, removeRow k ic nc now (some r) = .inr (some r', ev, o) → r'.exp = 0) ∧
    (∀ names r' ev o, delxRow k names nc now (some r) = .inr (some r', ev, o) → r'.exp = 0) := by
  refine ⟨?_, ?_, ?_, ?_, ?_⟩
  · intro exp v j r' ev o h; simp [setRow, setCore] at h; obtain ⟨rfl, _, _⟩ := h; rfl
  · intro exp v j r' ev o h; simp [setRow, setCore] at h; obtain ⟨rfl, _, _⟩ := h; rfl
  · intro exp r' ev o h; exact (touchRow_exp exp nc now _ r' ev o h).1
  · intro ic r' ev o h
    unfold removeRow at h
    simp only at h
    split at h
    · cases h
    · cases h; rfl
  · intro names r' ev o h
    unfold delxRow at h
    simp only at h
    split at h
    · cases h
    · cases h; rfl

/-- **Nothing but the sweep (or an explicit delete) takes a body away**: the sweep only ever runs `Delete`, and only
    on keys whose expiry is due; a key that is not due at `now` is not in the list. -/
theorem C14_only_due_keys_are_swept (docs : Docs) (now : Nat) (k : String) (hk : k ∈ dueKeys docs now) :
    ∃ r, (k, r) ∈ docs ∧ 0 < r.exp ∧ r.exp ≤ now := by
  unfold dueKeys at hk
  simp only [List.mem_map] at hk
  obtain ⟨d, hd, rfl⟩ := hk
  have hperm : ∀ (l : List (String × Row)) (x : String × Row), x ∈ l.foldr insertByExp [] → x ∈ l := by
    intro l
    induction l with
    | nil => intro x hx; simp at hx
    | cons y ys ih =>
      intro x hx
      simp only [List.foldr] at hx
      have hins : ∀ (a : String × Row) (l' : List (String × Row)) (z : String × Row), z ∈ insertByExp a l' → z = a ∨ z ∈ l' := by
        intro a l'
        induction l' with
        | nil => intro z hz; simp [insertByExp] at hz; exact Or.inl hz
        | cons b bs ihb =>
          intro z hz
          unfold insertByExp at hz
          split at hz
          · rcases List.mem_cons.mp hz with h | h
            · exact Or.inl h
            · exact Or.inr h
          · rcases List.mem_cons.mp hz with h | h
            · exact Or.inr (by rw [h]; exact List.mem_cons_self)
            · rcases ihb z h with h' | h'
              · exact Or.inl h'
              · exact Or.inr (List.mem_cons_of_mem _ h')
      rcases hins y _ x hx with h | h
      · rw [h]; exact List.mem_cons_self
      · exact List.mem_cons_of_mem _ (ih x h)
  have hmem := hperm _ d hd
  rw [List.mem_filter] at hmem
  obtain ⟨h1, h2⟩ := hmem
  simp at h2
  exact ⟨d.2, h1, h2.1, h2.2⟩

/-- The sweep's `Delete` turns a due document into a tombstone with no expiry and posts a deletion event. -/
theorem C14_sweep_delete_tombstones (k : String) (nc now : Nat) (r : Row) :
    ∃ r' e o, removeRow k none nc now (some r) = .inr (some r', some e, o) ∧
      r'.value = none ∧ r'.tomb = true ∧ r'.exp = 0 ∧ e.isDeletion = true ∧ e.key = k := by
  unfold removeRow
  simp only [Option.isSome_none, Bool.false_eq_true, false_and, if_false]
  exact ⟨_, _, _, rfl, rfl, rfl, rfl, rfl, rfl⟩

/-- After a reopen the timer is re-armed from the stored expiries. -/
theorem C14_reopen_rearms (s : State) (processHlc : Nat) (p : String × Coll) (hp : p ∈ (reopen s processHlc).colls)
    (d : String × Row) (hd : d ∈ p.2.docs) (hexp : d.2.exp > 0) :
    (reopen s processHlc).expNext ≠ 0 ∧ (reopen s processHlc).expNext ≤ d.2.exp :=
  reopen_expInv s processHlc p hp d hd hexp

/-- Non-vacuity: two documents with expiries 50 s and 500 s; at +60 s the sweep tombstones exactly the first and
    re-arms for the second. -/
example :
    let s1 := (run initState [.set "c0" "a" 50 false "1" false, .set "c1" "b" 500 false "2" false, .touch "c0" "a" 40]).1
    let s2 := (run s1 [.now 1700000060, .fire]).1
    s1.expNext = 1700000040 ∧ (s2.row? "c0" "a").map (·.tomb) = some true ∧ (s2.row? "c1" "b").map (·.tomb) = some false ∧
      s2.expNext = 1700000500 := by
  decide

end Rosmar
