import Rosmar.Proofs.LockOrder
import Rosmar.Gen.Facts

/-!
# C20 — Shutdown is safe: no panic, deadlock or leaked goroutine at any timing

Two models carry the logic of this property (the rest – that a real goroutine really exits, that `database/sql` really returns an
error – is runtime behaviour the forced-schedule scenarios observe on the real process):

* `Rosmar.Shutdown.step`: the atomic actions between instrumentation points and their effect on "store open / timer armed /
  feed goroutines / panicked";
* the lock-order graph **regenerated from /repo** (`Rosmar.Gen.lockEdges`) with the general theorem that a ranking rising along
  every edge excludes deadlock.

The full statement was false of the pinned code in three ways, each shown on the real process by a forced schedule. Two were
repaired in /repo (the timer callback / re-arming after the shutdown – 526ea24; the expiry-mutex ⇄ bucket-mutex deadlock of
`CloseAndDelete` – 1734add) and the model follows the repaired code; the third (a feed registration that completes after the
shutdown leaves its goroutine running) is an open known finding whose model-level witness is in `Properties/C20Known.lean`.
-/

namespace Rosmar.Shutdown

/-- Actions that arrive after the store was shut and are refused under the bucket mutex. -/
def Refused : Act → Prop
  | .txn => True
  | .closeHandle => True
  | _ => False

theorem run_append (s : St) (as bs : List Act) : run s (as ++ bs) = run (run s as) bs := by
  unfold run; rw [List.foldl_append]

theorem run_open (s : St) (as : List Act) (hopen : s.storeOpen = true) (hp : s.panicked = false)
    (hno : Act.closeStore ∉ as) : (run s as).storeOpen = true ∧ (run s as).panicked = false := by
  induction as generalizing s with
  | nil => exact ⟨hopen, hp⟩
  | cons a as ih =>
    have hno' : Act.closeStore ∉ as := fun h => hno (List.mem_cons_of_mem _ h)
    have ha : a ≠ Act.closeStore := fun h => hno (h ▸ List.mem_cons_self)
    show (run (step s a) as).storeOpen = true ∧ _
    apply ih
    · cases a <;> first | exact absurd rfl ha | (simp only [step]; (repeat' split) <;> simp_all)
    · cases a <;> first | exact absurd rfl ha | (simp only [step]; (repeat' split) <;> simp_all)
    · exact hno'

theorem run_refused (s : St) (as : List Act) (h : ∀ a ∈ as, Refused a) : run s as = s := by
  induction as generalizing s with
  | nil => rfl
  | cons a as ih =>
    have ha := h a List.mem_cons_self
    have : step s a = s := by cases a <;> simp [Refused] at ha <;> rfl
    show run (step s a) as = s
    rw [this]
    exact ih s (fun b hb => h b (List.mem_cons_of_mem _ hb))

/-- **C20, panic and timer conjuncts, at full strength**: under every sequence of actions – in particular with posts and timer
callbacks that complete after the shutdown – nothing panics and no timer is armed on a closed store. -/
theorem C20_no_panic_no_timer_after_shutdown (as : List Act) :
    (run {} as).panicked = false ∧ ((run {} as).storeOpen = false → (run {} as).timerArmed = false) := by
  suffices h : ∀ s : St, (s.panicked = false ∧ (s.storeOpen = false → s.timerArmed = false)) →
      ((run s as).panicked = false ∧ ((run s as).storeOpen = false → (run s as).timerArmed = false)) from
    h {} ⟨rfl, fun h => by cases h⟩
  induction as with
  | nil => exact fun s h => h
  | cons a as ih =>
    intro s hs
    show (run (step s a) as).panicked = false ∧ _
    apply ih
    obtain ⟨hp, ht⟩ := hs
    cases a <;> simp only [step] <;> (repeat' split) <;> simp_all

/-- Shutting the store down always leaves the state safe at that instant, from any non-panicked state. -/
theorem C20_close_is_clean (s : St) (hp : s.panicked = false) : Safe (step s .closeStore) := by
  unfold Safe; simp [step, hp]

/-- **C20 (partial)**: whatever ran before – writers, posts (with or without expiry), feed registrations, timer callbacks, in any
order and number – if nothing but refused calls runs after the store is shut, then nothing has panicked, no timer is armed and
no feed goroutine is left. What is missing for the full statement is exactly "…and also when a feed registration that was already
in flight completes after the shut-down" – which is false, see `C20_shutdown_full_false` (posts and timer callbacks completing
late are covered by `C20_no_panic_no_timer_after_shutdown`). -/
theorem C20_quiescent_shutdown_partial (before after : List Act) (hno : Act.closeStore ∉ before)
    (hafter : ∀ a ∈ after, Refused a) : Safe (run {} (before ++ [Act.closeStore] ++ after)) := by
  rw [run_append, run_append, run_refused _ after hafter]
  obtain ⟨_, hp⟩ := run_open {} before rfl rfl hno
  have : run (run {} before) [Act.closeStore] = step (run {} before) Act.closeStore := rfl
  rw [this]
  exact C20_close_is_clean _ hp

example : Safe (run {} ([.txn, .post true, .register, .fire, .register] ++ [.closeStore] ++ [.txn, .closeHandle])) := by decide

/-! ### Lock order -/

def edges : List (String × String) := Rosmar.Gen.lockEdges.map (fun e => (e.1, e.2.1))

/-- The ranking of rosmar's locks that every acquisition outside the expiry-timer callback respects. -/
def rank (l : String) : Nat :=
  if l = "Bucket.mutex" then 0
  else if l = "bucketRegistry.lock" then 1
  else if l = "queue.cond" then 3
  else 2

/-- Acquisitions made by the timer callback (`runExpiry` holds the expiry mutex for the whole sweep). -/
def timerEdge (e : String × String) : Bool := e.1 == "expiryManager.mutex"

/-- Every nested lock acquisition in /repo's current source (as extracted into `Gen.lockEdges`), other than those of the timer
callback, goes up the ranking. -/
theorem C20_lock_order_partial : ∀ e ∈ edges.filter (fun e => !timerEdge e), rank e.1 < rank e.2 := by decide

/-- Hence: no set of threads that excludes the timer callback can deadlock on rosmar's mutexes. -/
theorem C20_no_deadlock_without_timer (ts : List (Thread String))
    (hts : ∀ t ∈ ts, ∀ l, t.waits = some l → ∀ h ∈ t.held, (h, l) ∈ edges.filter (fun e => !timerEdge e)) :
    ¬ Deadlocked ts :=
  ranked_edges_no_deadlock _ rank C20_lock_order_partial ts hts

example : edges.filter (fun e => !timerEdge e) ≠ [] := by decide

end Rosmar.Shutdown
