/-
  C19 — SQL queries see exactly the live documents of their collection.
  (SQLite's evaluation of the user's statement over the common table expression is trusted; the family's twins are
  compared with it by the correspondence check on both bucket kinds.)
-/
import Rosmar.Query
import Rosmar.Proofs.Lemmas
namespace Rosmar

/-- **`$_keyspace` ranges over exactly the documents of that collection that currently have a body**, each with its
    current id, body and xattrs: a key is in the keyspace iff `Exists` says so, with the value `GetRaw` returns. -/
theorem C19_keyspace_is_the_live_documents (s : State) (c : String) (x : Coll) (hx : s.coll? c = some x) (r : KsRow) :
    r ∈ keyspace s c ↔ ∃ row, (r.id, row) ∈ x.docs ∧ row.value = some r.body ∧ row.xattrs = r.xattrs := by
  unfold keyspace
  rw [hx]
  simp only [List.mem_filterMap]
  constructor
  · rintro ⟨d, hd, hm⟩
    cases hv : d.2.value with
    | none => rw [hv] at hm; simp at hm
    | some b =>
      rw [hv] at hm
      simp at hm
      subst hm
      exact ⟨d.2, hd, hv, rfl⟩
  · rintro ⟨row, hmem, hv, hxa⟩
    refine ⟨(r.id, row), hmem, ?_⟩
    simp [hv, hxa]

/-- **Never a tombstone, every live document once**: the keyspace has exactly one row per stored row that has a body. -/
theorem C19_one_row_per_live_document (s : State) (c : String) (x : Coll) (hx : s.coll? c = some x) :
    (keyspace s c).map (·.id) = (x.docs.filter (fun d => d.2.value.isSome)).map (·.1) := by
  unfold keyspace
  rw [hx]
  simp only
  induction x.docs with
  | nil => rfl
  | cons d ds ih =>
    cases hv : d.2.value with
    | none => simp [List.filterMap, List.filter, hv, ih]
    | some b => simp [List.filterMap, List.filter, hv, ih]

/-- **Never another collection's documents**: the keyspace of `c` is computed from `c`'s table alone, so an operation
    that leaves collection `c` alone (C11) leaves every query over `c` alone. -/
theorem C19_only_own_collection (s s' : State) (c : String) (h : s'.coll? c = s.coll? c) (q : Nat) :
    opQuery s' c q = opQuery s c q := by
  unfold opQuery keyspace
  rw [h]

/-- **All rows are returned once**: the iterator hands out the recorded / streamed rows one by one and then stays
    exhausted (`preRecordedQueryIterator`, as a list machine). -/
def iterNext : List String → Option String × List String
  | [] => (none, [])
  | r :: rest => (some r, rest)

def drainIter : Nat → List String → List String
  | 0, _ => []
  | n + 1, rows => match iterNext rows with
    | (some r, rest) => r :: drainIter n rest
    | (none, _) => []

theorem C19_iterator_returns_every_row_once (rows : List String) : drainIter (rows.length + 1) rows = rows ∧
    (iterNext []).1 = none := by
  refine ⟨?_, rfl⟩
  induction rows with
  | nil => rfl
  | cons r rest ih => simp [drainIter, iterNext, ih]

/-- `count(*)` is the number of live documents. -/
theorem C19_count (s : State) (c : String) : opQuery s c 2 = ["{\"n\":" ++ toString (keyspace s c).length ++ "}"] := rfl

/-- Non-vacuity: one live document, one tombstone, one document in another collection. -/
example :
    let s := (run initState [.set "c0" "a" 0 false "{\"a\":65}" false, .set "c0" "b" 0 false "{}" false, .delete "c0" "b",
                             .set "c1" "z" 0 false "{}" false]).1
    opQuery s "c0" 1 = ["{\"id\":\"a\"}"] ∧ opQuery s "c0" 2 = ["{\"n\":1}"] := by
  decide

end Rosmar
