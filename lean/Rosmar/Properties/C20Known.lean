import Rosmar.Properties.C20

/-!
# C20 — the full statement is false of the current code: model-level witnesses

These theorems document the open known finding of C20 and a benign static lock cycle. They are *expected to stop holding* when
rosmar changes (e.g. the lock cycle disappears from the regenerated `Gen.lockEdges`); the check therefore builds this module
separately and reports a failure here as a note, never as a violation.
-/

namespace Rosmar.Shutdown

/-- A feed registration that was in flight when the store was shut leaves its goroutine running. -/
theorem C20_late_register_leaks : ¬ Safe (run {} [.closeStore, .register]) := by decide

theorem C20_shutdown_full_false : ¬ ∀ as : List Act, Safe (run {} as) :=
  fun h => C20_late_register_leaks (h _)

/-! The regenerated lock graph still has the static cycle bucket mutex ⇄ expiry mutex (`_closeSqliteDB` calls `stop()` under the
bucket mutex; the timer callback takes the bucket mutex under the expiry mutex). Since 1734add `CloseAndDelete` calls `stop()`
*before* taking the bucket mutex and since 526ea24 a stopped manager's callback returns without touching the bucket, so the second
`stop()` never waits for a callback that needs the bucket mutex: the forced schedule no longer deadlocks. The cycle is kept here
as a documented fact about the static graph; `C20_no_deadlock_without_timer` is what is proved from the graph. -/

/-- The regenerated lock graph has the cycle bucket mutex ⇄ expiry mutex… -/
theorem C20_lock_cycle :
    ("Bucket.mutex", "expiryManager.mutex") ∈ edges ∧ ("expiryManager.mutex", "Bucket.mutex") ∈ edges := by decide

/-- …so no ranking exists… -/
theorem C20_lock_order_full_false : ¬ ∃ rank : String → Nat, ∀ e ∈ edges, rank e.1 < rank e.2 := by
  rintro ⟨r, h⟩
  have h1 := h _ C20_lock_cycle.1
  have h2 := h _ C20_lock_cycle.2
  simp only at h1 h2
  omega

end Rosmar.Shutdown
