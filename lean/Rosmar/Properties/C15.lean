/-
  C15 — checkpointed feeds resume without skipping a mutation.
  The unconditional half (the checkpoint never exceeds what was delivered; a resumed run starts right after the
  checkpoint and its backfill holds every newer row) is proved; the coverage half depends on deliveries reaching the feed
  in CAS order, which the code does not guarantee under concurrent writers (F16): proved false by a concrete schedule,
  and stated for the schedules where it holds.
-/
import Rosmar.Sched
import Rosmar.Proofs.FeedLemmas
namespace Rosmar

/-- **The delivered mark is the previous mark or the CAS of something actually delivered**, and it dominates both. -/
theorem deliverMark_spec (items : List FeedItem) : ∀ last,
    (deliverMark last items = last ∨ ∃ it ∈ items, itemCas it = deliverMark last items) ∧
    last ≤ deliverMark last items ∧ ∀ it ∈ items, itemCas it ≤ deliverMark last items := by
  induction items with
  | nil => intro last; exact ⟨Or.inl rfl, Nat.le_refl _, fun it h => by simp at h⟩
  | cons hd tl ih =>
    intro last
    simp only [deliverMark, List.foldl]
    by_cases hgt : itemCas hd > last
    · simp only [hgt, if_true]
      obtain ⟨h1, h2, h3⟩ := ih (itemCas hd)
      simp only [deliverMark] at h1 h2 h3
      refine ⟨?_, by omega, ?_⟩
      · rcases h1 with h | ⟨it, hit, he⟩
        · exact Or.inr ⟨hd, List.mem_cons_self, h.symm⟩
        · exact Or.inr ⟨it, List.mem_cons_of_mem _ hit, he⟩
      · intro it hit
        rcases List.mem_cons.mp hit with rfl | hit'
        · exact h2
        · exact h3 it hit'
    · simp only [hgt, if_false]
      obtain ⟨h1, h2, h3⟩ := ih last
      simp only [deliverMark] at h1 h2 h3
      refine ⟨?_, h2, ?_⟩
      · rcases h1 with h | ⟨it, hit, he⟩
        · exact Or.inl h
        · exact Or.inr ⟨it, List.mem_cons_of_mem _ hit, he⟩
      · intro it hit
        rcases List.mem_cons.mp hit with rfl | hit'
        · omega
        · exact h3 it hit'

/-- **The persisted checkpoint never exceeds the highest CAS the feed actually delivered**: what `stop` persists is the
    feed's delivered mark, which only ever moves to the CAS of a delivered event. -/
theorem C15_checkpoint_never_exceeds_delivered (s : State) (id : String) (f : Feed) (hf : s.feeds.find? (fun g => g.id = id) = some f)
    (hdump : f.dump = false) :
    let mark := deliverMark f.lastCas f.pending
    (mark = f.lastCas ∨ ∃ it ∈ f.pending, itemCas it = mark) ∧
    (∀ g ∈ (opDrain s id).1.feeds, g.id = id → g.lastCas = mark) := by
  refine ⟨(deliverMark_spec f.pending f.lastCas).1, ?_⟩
  intro g hg hid
  unfold opDrain at hg
  rw [hf] at hg
  simp only [hdump, Bool.false_eq_true, if_false, List.mem_map] at hg
  obtain ⟨g0, _, rfl⟩ := hg
  by_cases h0 : g0.id = id
  · simp [h0]
  · simp [h0] at hid

/-- **A resumed run starts right after the checkpoint and its backfill holds every row newer than the checkpoint.** -/
theorem C15_resume_backfill_covers_everything_newer (s : State) (id c pfx : String) (ko : Bool) (x : Coll) (hx : s.coll? c = some x)
    (d : String × Row) (hd : d ∈ x.docs) (hnew : d.2.cas > readCheckpoint s c pfx id) :
    ∃ f ∈ (opStartFeed s id c .resume false ko pfx).1.feeds, f.id = id ∧
      FeedItem.ev (backfillEvent d.1 d.2 ko) x.id false ∈ f.pending := by
  unfold opStartFeed
  rw [hx]
  simp only [Bool.false_eq_true, if_false]
  refine ⟨_, List.mem_append_right _ (List.mem_singleton.mpr rfl), rfl, ?_⟩
  simp only [List.mem_append, List.mem_map, List.mem_singleton, List.mem_cons]
  left; right
  exact ⟨d, (mem_backfillRows x.docs _ d).mpr ⟨hd, by omega⟩, rfl⟩

/-- **What a resumed run can never deliver**: every event of its backfill has a CAS above the checkpoint. So a version
    whose CAS is at or below the checkpoint and that was *not* delivered before the stop is skipped for good. -/
theorem C15_resume_delivers_only_newer (s : State) (id c pfx : String) (ko : Bool) (x : Coll) (hx : s.coll? c = some x)
    (f : Feed) (hf : f ∈ (opStartFeed s id c .resume false ko pfx).1.feeds) (hid : f.id = id) :
    ∀ it ∈ f.pending, itemCas it = 0 ∨ itemCas it > readCheckpoint s c pfx id := by
  unfold opStartFeed at hf
  rw [hx] at hf
  simp only [Bool.false_eq_true, if_false, List.mem_append, List.mem_filter, List.mem_singleton] at hf
  rcases hf with ⟨_, hne⟩ | rfl
  · simp [hid] at hne
  · intro it hit
    simp only [List.mem_append, List.mem_map, List.mem_singleton, List.mem_cons, List.mem_nil_iff, or_false] at hit
    rcases hit with (rfl | ⟨d, hd, rfl⟩) | rfl
    · left; rfl
    · right
      have := ((mem_backfillRows x.docs _ d).mp hd).2
      simp only [itemCas, backfillEvent]
      omega
    · left; rfl

/-- C15's coverage clause, in the bookkeeping's own terms: whatever order events reach a feed in, everything committed is
    either delivered before the stop or newer than the checkpoint the stop persists (and so delivered by the next run). -/
def C15_cover_full : Prop :=
  ∀ (committed deliveredBeforeStop : List Nat), (∀ x ∈ deliveredBeforeStop, x ∈ committed) →
    ∀ x ∈ committed, x ∈ deliveredBeforeStop ∨ x > deliverMark 0 (deliveredBeforeStop.map (fun cas =>
      FeedItem.ev { key := "", value := none, isDeletion := false, isJSON := false, xattrs := [], cas := cas, exp := 0, rev := 0 } 0 false))

/-- **It is false** as soon as deliveries can overtake one another (C08_order_full_false): CAS 1 and CAS 2 are committed,
    the feed is given CAS 2 first and is stopped — the checkpoint is 2 and CAS 1 is skipped (`C15_resume_delivers_only_newer`). -/
theorem C15_cover_full_false : ¬ C15_cover_full := by
  intro h
  have := h [1, 2] [2] (by decide) 1 (by decide)
  revert this
  decide

/-- **It holds for in-order delivery**: if what was delivered before the stop is a prefix of the committed CAS values in
    increasing order, everything else is newer than the checkpoint. -/
theorem C15_cover_partial (delivered rest : List Nat) (hsorted : (delivered ++ rest).Pairwise (· < ·))
    (hpos : ∀ x ∈ delivered ++ rest, x > 0) :
    ∀ x ∈ delivered ++ rest, x ∈ delivered ∨ x > deliverMark 0 (delivered.map (fun cas =>
      FeedItem.ev { key := "", value := none, isDeletion := false, isJSON := false, xattrs := [], cas := cas, exp := 0, rev := 0 } 0 false)) := by
  intro x hx
  rcases List.mem_append.mp hx with h | h
  · exact Or.inl h
  · right
    have hspec := deliverMark_spec (delivered.map (fun cas =>
      FeedItem.ev { key := "", value := none, isDeletion := false, isJSON := false, xattrs := [], cas := cas, exp := 0, rev := 0 } 0 false)) 0
    rcases hspec.1 with h0 | ⟨it, hit, he⟩
    · rw [h0]; exact hpos x hx
    · simp only [List.mem_map] at hit
      obtain ⟨cas, hc, rfl⟩ := hit
      rw [← he]
      exact (List.pairwise_append.mp hsorted).2.2 cas hc x h

end Rosmar
