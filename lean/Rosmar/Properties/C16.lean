/-
  C16 — feeds terminate cleanly and independently (the bookkeeping; goroutine-level facts — the callback is not running
  when the done channel closes, the channel is closed once — are observed on the real code by the lifecycle scenarios).
-/
import Rosmar.FeedLife
import Rosmar.Proofs.FeedLemmas
namespace Rosmar.FeedLife

/-- **Ended is forever**: no event revives a feed (its done channel is closed exactly once). -/
theorem C16_ended_stays_ended (l : Life) (e : LEvent) (f : LFeed) (hf : f ∈ l.feeds) (he : f.ended = true) :
    ∃ f' ∈ (lstep l e).feeds, f'.id = f.id ∧ f'.coll = f.coll ∧ f'.ended = true := by
  have hend : ∀ (p : LFeed → Bool) (l0 : Life), f ∈ l0.feeds → ∃ f' ∈ (endWhere p l0).feeds, f'.id = f.id ∧ f'.coll = f.coll ∧ f'.ended = true := by
    intro p l0 h0
    refine ⟨if p f then { f with ended := true } else f, ?_, ?_⟩
    · simp only [endWhere, List.mem_map]; exact ⟨f, h0, rfl⟩
    · split <;> simp [he]
  cases e with
  | start id coll dump => exact ⟨f, by simp [lstep, hf], rfl, rfl, he⟩
  | term id => exact hend _ l hf
  | drop coll => exact hend _ l hf
  | closeHandle h =>
    simp only [lstep]
    split
    · exact hend _ _ hf
    · exact ⟨f, hf, rfl, rfl, he⟩
  | deleteBucket => exact hend _ _ hf
  | openHandle h => exact ⟨f, hf, rfl, rfl, he⟩

/-- **Ending one feed ends only that feed**: closing a terminator leaves every feed with another id as it was. -/
theorem C16_terminator_ends_only_its_feed (l : Life) (id : String) (f : LFeed) (hf : f ∈ l.feeds) (hne : f.id ≠ id) :
    f ∈ (lstep l (.term id)).feeds := by
  simp only [lstep, endWhere, List.mem_map]
  exact ⟨f, hf, by simp [hne]⟩

/-- **Dropping another collection never stops a feed.** -/
theorem C16_drop_ends_only_that_collections_feeds (l : Life) (coll : String) (f : LFeed) (hf : f ∈ l.feeds) (hne : f.coll ≠ coll) :
    f ∈ (lstep l (.drop coll)).feeds := by
  simp only [lstep, endWhere, List.mem_map]
  exact ⟨f, hf, by simp [hne]⟩

/-- **Closing one of several handles never stops a feed** (nor does closing the last handle of an in-memory bucket). -/
theorem C16_closing_a_non_last_handle_ends_nothing (l : Life) (h : String)
    (hnotlast : l.onDisk = false ∨ (l.openHandles.filter (· ≠ h)).isEmpty = false) :
    (lstep l (.closeHandle h)).feeds = l.feeds := by
  simp only [lstep]
  split
  · rename_i hc
    exfalso
    rcases hnotlast with h1 | h1
    · simp [h1] at hc
    · have h2 := hc.2.1
      rw [h1] at h2
      exact Bool.false_ne_true h2
  · rfl

/-- **The ending events end the feed, whichever handle they come through**: its terminator, its collection's drop,
    the bucket's deletion, the last close of an on-disk bucket; a dump ends on its own. -/
theorem C16_ending_events_end_the_feed (l : Life) (f : LFeed) (hf : f ∈ l.feeds) :
    (∀ f' ∈ (lstep l (.term f.id)).feeds, f'.id = f.id → f'.ended = true) ∧
    (∀ f' ∈ (lstep l (.drop f.coll)).feeds, f'.coll = f.coll → f'.ended = true) ∧
    (∀ f' ∈ (lstep l .deleteBucket).feeds, f'.ended = true) ∧
    (∀ h, l.onDisk = true → l.openHandles = [h] → ∀ f' ∈ (lstep l (.closeHandle h)).feeds, f'.ended = true) := by
  refine ⟨?_, ?_, ?_, ?_⟩
  · intro f' hf' hid
    simp only [lstep, endWhere, List.mem_map] at hf'
    obtain ⟨g, _, rfl⟩ := hf'
    by_cases hg : g.id = f.id
    · simp [hg]
    · exfalso; apply hg; revert hid; split <;> simp_all
  · intro f' hf' hc
    simp only [lstep, endWhere, List.mem_map] at hf'
    obtain ⟨g, _, rfl⟩ := hf'
    by_cases hg : g.coll = f.coll
    · simp [hg]
    · exfalso; apply hg; revert hc; split <;> simp_all
  · intro f' hf'
    simp only [lstep, endWhere, List.mem_map] at hf'
    obtain ⟨g, _, rfl⟩ := hf'
    simp
  · intro h hd ho f' hf'
    simp only [lstep, hd, ho] at hf'
    simp [endWhere] at hf'
    obtain ⟨g, _, rfl⟩ := hf'
    rfl

/-- A dump feed ends by itself. -/
theorem C16_dump_ends_by_itself (l : Life) (id coll : String) :
    endedOf (lstep { l with feeds := [] } (.start id coll true)) id = some true := by
  simp [lstep, endedOf]

end Rosmar.FeedLife

namespace Rosmar

/-- **After it has ended a feed is given nothing more** (KV model): `postEvent` skips stopped feeds. -/
theorem C16_no_delivery_after_end (s : State) (c : String) (id : Nat) (e : Event) (f : Feed) (hf : f ∈ s.feeds) (hs : f.stopped = true) :
    f ∈ (postEvent s c id e).feeds := by
  unfold postEvent
  simp only [List.mem_map]
  exact ⟨f, hf, by simp [hs]⟩

end Rosmar
