/-
  C09 — backfill is a faithful snapshot (the "no gap while starting" part is schedule-level: known finding F16).
-/
import Rosmar.Proofs.FeedLemmas
import Rosmar.Proofs.Coherence
namespace Rosmar

/-- **Between the markers, in CAS order, exactly the current version of every document (tombstones included) whose
    CAS is at least the start CAS** — one event per stored row. -/
theorem C09_snapshot (s : State) (id c : String) (start : Nat) (ko : Bool) (x : Coll) (hx : s.coll? c = some x) :
    ∃ rows : List (String × Row),
      ((opStartFeed s id c (.from start) false ko).1.feeds.getLast?.map (·.pending)) =
        some ([.beginBackfill] ++ rows.map (fun d => .ev (backfillEvent d.1 d.2 ko) x.id false) ++ [.endBackfill]) ∧
      rows.Pairwise (fun a b => a.2.cas ≤ b.2.cas) ∧
      rows.Perm (x.docs.filter (fun d => d.2.cas ≥ start)) ∧
      (∀ p, p ∈ rows ↔ p ∈ x.docs ∧ p.2.cas ≥ start) := by
  refine ⟨backfillRows x.docs start, ?_, sortByCas_sorted _, sortByCas_perm _, mem_backfillRows x.docs start⟩
  unfold opStartFeed
  rw [hx]
  simp

/-- **Each backfilled event describes the document's current state exactly as a live event for that state does**:
    in a coherent state (every reachable one) the backfill event of a row is the faithful event `eventOf`, which is
    what every live mutation posts (C08). -/
theorem C09_backfill_event_equals_live_event (k : String) (r : Row) (hco : RowCoh r) :
    backfillEvent k r false = eventOf k r := by
  unfold backfillEvent eventOf RowCoh at *
  simp only [Bool.false_eq_true, if_false]
  congr 1
  cases hv : r.value with
  | none => simpa using hco.mpr hv
  | some b =>
    cases ht : r.tomb with
    | false => simp
    | true => rw [hco.mp ht] at hv; cases hv

/-- With `KeysOnly` no value or xattrs leave the store. -/
theorem C09_keys_only (k : String) (r : Row) : (backfillEvent k r true).value = none ∧ (backfillEvent k r true).xattrs = [] := by
  simp [backfillEvent]

/-- A dump feed is not registered for live events. -/
theorem C09_dump_not_live (s : State) (c : String) (id : Nat) (e : Event) (f : Feed) (hf : f ∈ s.feeds) (hd : f.dump = true) :
    f ∈ (postEvent s c id e).feeds := by
  unfold postEvent
  simp only [List.mem_map]
  exact ⟨f, hf, by simp [hd]⟩

/-- Non-vacuity: three documents, one deleted; backfill from the second CAS. -/
example :
    let s := (run initState [.clock 2000000, .set "c0" "a" 0 false "1" false, .clock 3000000, .set "c0" "b" 0 false "2" false,
                             .clock 4000000, .delete "c0" "a", .startFeed "d" "c0" (.from 2949120) true false]).1
    (s.feeds.getLast?.map (fun f => f.pending.length)) = some 4 := by
  decide

end Rosmar
