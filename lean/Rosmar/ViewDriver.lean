import Rosmar.Driver
import Rosmar.View
/-! Line protocol for the view operations (driver side). -/
namespace Rosmar.View
open Rosmar.Driver

def parseParams (l : Line) : Params :=
  let j (k : String) : Option VJ := (l.get? k).bind VJ.parse
  { key := j "key", startkey := j "startkey", endkey := j "endkey",
    inclusiveEnd := l.str "incl" ≠ "0",
    keys := match j "keys" with
      | some (.arr xs) => some xs.toList
      | _ => none
    descending := l.str "desc" = "1",
    limit := (l.get? "limit").bind String.toNat?,
    reduce := l.str "reduce" ≠ "0",
    group := l.str "group" = "1",
    groupLevel := (l.get? "glevel").bind String.toNat?,
    staleOk := l.str "stale" = "ok" }

def parseViewDefs (l : Line) : List (String × Nat × String) :=
  (l.prefixed "v.").map (fun a =>
    match a.2.splitOn ":" with
    | [m] => (a.1, m.toNat?.getD 0, "")
    | m :: r :: _ => (a.1, m.toNat?.getD 0, r)
    | [] => (a.1, 0, ""))

def insertStr (x : String) : List String → List String
  | [] => [x]
  | y :: ys => if x ≤ y then x :: y :: ys else y :: insertStr x ys
def sortStr (l : List String) : List String := l.foldr insertStr []

def ddocsLine (vs : VState) (c : String) : String :=
  let ds := vs.ddocs.filter (fun d => d.coll = c)
  let items := ds.map (fun d =>
    d.name ++ "(" ++ ",".intercalate (sortStr (d.views.map (fun v => s!"{v.name}={v.mapId}:{v.reduce}"))) ++ ")")
  "r=ok dd=" ++ ",".intercalate (sortStr items)

/-- `some` when the line is one of the view operations. -/
def viewLine (vs : VState) (l : Line) : Option (VState × String) :=
  match l.op with
  | "putddoc" =>
    let (vs', e) := opPutDDoc vs l.p0 l.p1 (parseViewDefs l)
    some (vs', "r=" ++ e.name)
  | "delddoc" =>
    let (vs', e) := opDelDDoc vs l.p0 l.p1
    some (vs', "r=" ++ e.name)
  | "view" =>
    let (vs', e, rows) := opView vs l.p0 l.p1 ((l.pos.drop 2).headD "") (parseParams l)
    if e = .ok then some (vs', s!"r=ok n={rows.length} rows=" ++ printRows rows)
    else some (vs', "r=" ++ e.name)
  | "ddocs" => some (vs, ddocsLine vs l.p0)
  | _ => none

end Rosmar.View
