/-!
# Shutdown: the atomic actions between instrumentation points, and who holds which lock

The part of "closing while things are in flight" that is logic. The atomic actions are the stretches of code between the
instrumentation points the forced schedules park at:

* `txn`        – a write transaction (`inTransaction`, under `bucket.mutex`): refuses with an error once the store is closed;
* `post e`     – `postNewEvent` after the transaction: pushes to the feeds and, when the event carries an expiry (`e = true`),
                 arms the expiry timer (`scheduleExpirationAtOrBefore`) – unless the expiry manager has been stopped
                 (`expiryManager.stopped`, set by `stop()` when the store is shut; fix 526ea24);
* `register`   – the tail of `StartDCPFeed`: append to `collectionFeeds` under the mutex and `go feed.run()` – no look either;
* `closeStore` – `_closeSqliteDB`: stop the timer, close every feed of the shared map, close the database
                 (`CloseAndDelete`; `Close` of the last handle of an on-disk bucket);
* `closeHandle`– `Close` when the store stays (in-memory bucket, or other handles remain): only the handle is marked closed;
* `drop`       – `DropDataStore`: ends the feeds of one collection; the store stays open (the count of feed goroutines kept here
                 is bucket-wide and only compared with 0 after the store is shut, so the action leaves it alone);
* `fire`       – the timer callback (`runExpiry` → `doExpiration`): returns at once when the manager has been stopped (before
                 fix 526ea24 it went on to `doExpiration`, which panics when the database is closed).
-/

namespace Rosmar.Shutdown

inductive Act where
  | txn
  | post (exp : Bool)
  | register
  | closeStore
  | closeHandle
  | drop
  | fire
  deriving DecidableEq, Repr

structure St where
  storeOpen : Bool := true
  timerArmed : Bool := false
  feeds : Nat := 0
  panicked : Bool := false
  deriving DecidableEq, Repr

def step (s : St) : Act → St
  | .txn => s
  | .post exp => if exp && s.storeOpen then { s with timerArmed := true } else s
  | .register => { s with feeds := s.feeds + 1 }
  | .closeStore => { s with storeOpen := false, timerArmed := false, feeds := 0 }
  | .closeHandle => s
  | .drop => s
  | .fire => if s.storeOpen then { s with timerArmed := false } else s

def run (s : St) (as : List Act) : St := as.foldl step s

/-- What C20 asks of a state: nothing panicked, and once the store is shut no timer is armed and no feed goroutine runs. -/
def Safe (s : St) : Prop := s.panicked = false ∧ (s.storeOpen = false → s.timerArmed = false ∧ s.feeds = 0)

instance (s : St) : Decidable (Safe s) := by unfold Safe; infer_instance

/-- The verdict the scenario runner compares with what the real process did. An armed timer on a closed store is reported as
the panic it turns into when it fires. -/
def verdict (s : St) : String :=
  if s.panicked then "panic"
  else if !s.storeOpen && s.feeds ≠ 0 then "leak"
  else if !s.storeOpen && s.timerArmed then "armed"
  else "ok"

def parseAct : String → Option Act
  | "txn" => some .txn
  | "post" => some (.post false)
  | "postexp" => some (.post true)
  | "register" => some .register
  | "closestore" => some .closeStore
  | "closehandle" => some .closeHandle
  | "drop" => some .drop
  | "fire" => some .fire
  | _ => none

/-! ## Locks -/

/-- A thread, as far as deadlock is concerned: the locks it holds and the one it is blocked on. -/
structure Thread (L : Type) where
  held : List L
  waits : Option L

/-- A non-empty set of threads each blocked on a lock held by a member of the set. -/
def Deadlocked {L : Type} (ts : List (Thread L)) : Prop :=
  ts ≠ [] ∧ ∀ t ∈ ts, ∃ l, t.waits = some l ∧ ∃ t' ∈ ts, l ∈ t'.held

def deadlockedB (ts : List (Thread String)) : Bool :=
  !ts.isEmpty && ts.all (fun t => match t.waits with
    | none => false
    | some l => ts.any (fun t' => t'.held.contains l))

end Rosmar.Shutdown
