/-
  Finer-grained atomic actions for the places where the code releases the bucket mutex between two steps of one call:
  the commit of a write and the posting of its event (`withNewCas`: `postNewEvent` runs after `inTransaction` returned),
  and the backfill query of a starting feed and its registration (`StartDCPFeed`). Core-only.
-/
import Rosmar.Step
namespace Rosmar

/-- The transaction of `withNewCas` without the post: returns the event still to be posted. -/
def commitOnly (s : State) (c : String) (fn : TxnFn) : State × Out × Option (Nat × Event) :=
  match s.coll? c with
  | none => (s, { err := .closed }, none)
  | some x =>
    let newCas := hlcNow s.hlc s.phys
    match fn newCas s.now s.nextRowId x.docs with
    | .inl out => ({ s with hlc := newCas }, out, none)
    | .inr (docs', nid, ev, out) => (commit s c x newCas nid docs', out, ev.map (fun e => (x.id, e)))

/-- The second half: `postNewEvent`, whenever the scheduler lets it run. -/
def postPending (s : State) (c : String) (p : Option (Nat × Event)) : State :=
  match p with
  | some (id, e) => postEvent s c id e
  | none => s

/-- `withNewCas` is the two halves back to back. -/
theorem withNewCas_eq_commit_then_post (s : State) (c : String) (fn : TxnFn) :
    withNewCas s c fn = (postPending (commitOnly s c fn).1 c (commitOnly s c fn).2.2, (commitOnly s c fn).2.1) := by
  unfold withNewCas commitOnly postPending
  cases s.coll? c with
  | none => rfl
  | some x =>
    simp only
    cases fn (hlcNow s.hlc s.phys) s.now s.nextRowId x.docs with
    | inl out => rfl
    | inr q =>
      obtain ⟨docs', nid, ev, out⟩ := q
      cases ev <;> rfl

/-- `StartDCPFeed` in two halves: the backfill query (the items are computed from the table as it is now) … -/
def feedQuery (s : State) (c : String) (bf : Backfill) (keysOnly : Bool) : List FeedItem :=
  match s.coll? c with
  | none => []
  | some x =>
    match bf with
    | .none => []
    | .resume => []
    | .from startCas =>
      [.beginBackfill] ++ (backfillRows x.docs startCas).map (fun d => .ev (backfillEvent d.1 d.2 keysOnly) x.id false) ++ [.endBackfill]

/-- … and, later, the registration that makes live events reach the feed. -/
def feedRegister (s : State) (id c : String) (items : List FeedItem) (dump keysOnly : Bool) : State :=
  { s with feeds := (s.feeds.filter (fun g => g.id ≠ id)) ++ [{ id := id, coll := c, keysOnly := keysOnly, dump := dump, pending := items }] }

/-- The CAS values of the events a feed has been given, in delivery order. -/
def feedCas (f : Feed) : List Nat :=
  f.pending.filterMap (fun it => match it with | .ev e _ _ => some e.cas | _ => none)

def feedKeys (f : Feed) : List String :=
  f.pending.filterMap (fun it => match it with | .ev e _ _ => some e.key | _ => none)

end Rosmar
