/-
  `collection+xattrs.go`: the Swiss-army `writeWithXattrs`, its public wrappers, the WithMeta writes,
  xattr deletion, and the xattr-aware reads. Core-only.
-/
import Rosmar.Kv
namespace Rosmar

/-- The body argument of `writeWithXattrs`: leave alone, delete, or replace (always stored as JSON). -/
inductive ValArg where
  | keep | delete | body (b : String)
  deriving Repr, Inhabited, DecidableEq

inductive MacroKind where | cas | crc
  deriving Repr, Inhabited, DecidableEq

structure XOpts where
  insertDoc : Bool := false
  requireExistingDoc : Bool := false
  deleteBody : Bool := false
  deriving Repr, Inhabited

/-- `validateXattrKey`: no `$ . [ ]`. -/
def validXattrKey (k : String) : Bool := ¬ k.toList.any (fun c => c = '$' || c = '.' || c = '[' || c = ']')

/-- `parseSubdocPath`. -/
def parseSubdocPath (p : String) : Err ⊕ List String :=
  if p = "" then .inl .badPath
  else if p.toList.any (fun c => c = '[' || c = ']') then .inl .unimplemented
  else if p.toList.any (fun c => c = '\\' || c = '`') then .inl .unimplemented
  else .inr (p.splitOn ".")

/-- JSON `null` is what Go's `map[string]any` lookup cannot tell from an absent key. -/
def J.isNullAtom : J → Bool
  | .atom s => s = "null"
  | .obj _ => false

/-- `evalSubdocPath`. -/
def evalSubdocPath : J → List String → Err ⊕ J
  | j, [] => .inr j
  | .obj fs, p :: rest =>
    match fs.get? p with
    | none => .inl .pathNotFound
    | some v => if v.isNullAtom then .inl .pathNotFound else evalSubdocPath v rest
  | .atom _, _ :: _ => .inl .pathMismatch

/-- Set (`some`) or remove (`none`) the value at a non-empty path whose parent must exist and be an object
    (`upsertSubdocValue`, and the core of `subdocWrite`). -/
def upsertAt : J → List String → Option J → Err ⊕ J
  | _, [], _ => .inl .badPath
  | .obj fs, [last], v =>
    match v with
    | some x => .inr (.obj (fs.set last x))
    | none => .inr (.obj (fs.erase last))
  | .atom _, [_], _ => .inl .pathMismatch
  | .obj fs, p :: q :: rest, v =>
    match fs.get? p with
    | none => .inl .pathNotFound
    | some child =>
      if child.isNullAtom then .inl .pathNotFound
      else match upsertAt child (q :: rest) v with
        | .inl e => .inl e
        | .inr child' => .inr (.obj (fs.set p child'))
  | .atom _, _ :: _ :: _, _ => .inl .pathMismatch

/-- `expandXattrMacros` on one xattr being set. `val` is its parsed value. -/
def expandMacros (xattrKey : String) (val : J) (macros : List (String × MacroKind)) (newCas : Nat) (body : Option String) : Err ⊕ J :=
  if macros.isEmpty then .inr val
  else
    match val with
    | .atom _ => .inl .macroNotMap
    | .obj _ =>
      macros.foldl (fun acc m =>
        match acc with
        | .inl e => .inl e
        | .inr j =>
          match parseSubdocPath m.1 with
          | .inl e => .inl e
          | .inr path =>
            if path.head? ≠ some xattrKey then .inr j
            else
              let expanded := match m.2 with
                | .cas => casString newCas
                | .crc => crcString body
              match upsertAt j path.tail (some (.atom ("\"" ++ expanded ++ "\""))) with
              | .inl e => .inl e      -- (wrapped in "Unable to set macro expansion value", the class is the cause's)
              | .inr j' => .inr j') (.inr val)

/-- One xattr edit: set to a JSON text, or delete. -/
abbrev XEdit := String × Option String

/-- Apply the edits in order to the xattr map (values re-encoded canonically, macros expanded). -/
def applyEdits (xs : Xattrs) (edits : List XEdit) (macros : List (String × MacroKind)) (newCas : Nat) (body : Option String) : Err ⊕ Xattrs :=
  edits.foldl (fun acc e =>
    match acc with
    | .inl err => .inl err
    | .inr xs =>
      match e.2 with
      | some txt =>
        match J.parse txt with
        | none => .inl .badXattrJson
        | some j =>
          match expandMacros e.1 j macros newCas body with
          | .inl err => .inl err
          | .inr j' => .inr (Xattrs.set xs e.1 j'.canon.print)
      | none =>
        match Xattrs.get? xs e.1 with
        | some _ => .inr (Xattrs.erase xs e.1)
        | none => .inl .pathNotFound) (.inr xs)

def ValArg.isBody : ValArg → Bool
  | .body _ => true
  | _ => false

/-- A CAS was supplied and is not 0. -/
def ifCasNonzero : Option Nat → Bool
  | some c => c != 0
  | none => false

/-- `checkCasXattr`: a supplied CAS that differs from the current one. -/
def ifCasMismatch : Option Nat → Nat → Bool
  | some c, prev => c != prev
  | none, _ => false

def wwxRow (k : String) (val : ValArg) (edits : List XEdit) (ifCas : Option Nat) (exp : Option Nat) (o : XOpts)
    (macros : List (String × MacroKind)) : RowFn := fun newCas now old =>
  -- first read the existing doc, if any
  let pre : Out ⊕ (Option String × Bool × Nat × Nat × Xattrs × Nat) :=   -- value, isJSON, prevCas, exp, xattrs, rev
    match old with
    | some r =>
      if r.tomb ∧ val.isBody then
        if ifCasNonzero ifCas then .inl { err := .keyExists }
        else .inr (r.value, r.isJSON, r.cas, r.exp, [], r.rev)   -- xattrs are cleared whenever resurrecting a tombstone
      else if o.insertDoc then .inl { err := .keyExists }
      else .inr (r.value, r.isJSON, r.cas, r.exp, r.xattrs, r.rev)
    | none =>
      if o.requireExistingDoc then .inl { err := .missing }
      else if ifCasNonzero ifCas then .inl { err := .casMismatch, actual := some 0 }
      else .inr (none, false, 0, 0, [], 0)
  match pre with
  | .inl out => .inl out
  | .inr (value0, isJSON0, prevCas, exp0, xattrs0, rev0) =>
    let rev := rev0 + 1
    if value0.isNone ∧ o.deleteBody ∧ o.requireExistingDoc then .inl { err := .missing }
    else if ifCasMismatch ifCas prevCas then .inl { err := .casMismatch, actual := some prevCas }
    else
      let (value, isJSON, xattrs1) : Option String × Bool × Xattrs :=
        match val with
        | .keep => (value0, isJSON0, xattrs0)
        | .delete => (none, false, Xattrs.systemOnly xattrs0)
        | .body b => (some b, true, xattrs0)
      match applyEdits xattrs1 edits macros newCas value with
      | .inl err => .inl { err := err }
      | .inr xattrs =>
        let expStored := match exp with | some e => absExp now e | none => exp0
        let tomb := value.isNone
        .inr (some { rowid := 0, value := value, cas := newCas, exp := expStored, isJSON := isJSON, xattrs := xattrs, tomb := tomb, rev := rev },
          some { key := k, value := value, isDeletion := tomb, isJSON := isJSON, xattrs := xattrs, cas := newCas, exp := expStored, rev := rev },
          { cas := newCas })

def wwxFn (k : String) (val : ValArg) (edits : List XEdit) (ifCas : Option Nat) (exp : Option Nat) (o : XOpts)
    (macros : List (String × MacroKind)) : TxnFn := liftRow k (wwxRow k val edits ifCas exp o macros)

/-- Pre-transaction validation of `writeWithXattrs`: keys, then parseability of the values to set. -/
def validateEdits (edits : List XEdit) : Option Err :=
  edits.foldl (fun acc e =>
    match acc with
    | some err => some err
    | none =>
      if ¬ validXattrKey e.1 then some .badXattrKey
      else match e.2 with
        | some txt => if (J.parse txt).isNone then some .badXattrJson else none
        | none => none) none

/-- The shape of an API call once its arguments are checked: rejected with an error, or exactly one
    single-row transaction on `(c, k)` with row function `f`. -/
inductive OpShape where
  | rejected (e : Err)
  | row (c k : String) (f : RowFn)

def runShape (s : State) : OpShape → State × Out
  | .rejected e => (s, { err := e })
  | .row c k f => withNewCas s c (liftRow k f)

def wwxShape (c k : String) (val : ValArg) (edits : List XEdit) (ifCas : Option Nat) (exp : Option Nat)
    (o : XOpts) (macros : List (String × MacroKind)) : OpShape :=
  match validateEdits edits with
  | some err => .rejected err
  | none => .row c k (wwxRow k val edits ifCas exp o macros)

def writeWithXattrs (s : State) (c k : String) (val : ValArg) (edits : List XEdit) (ifCas : Option Nat) (exp : Option Nat)
    (o : XOpts) (macros : List (String × MacroKind)) : State × Out :=
  runShape s (wwxShape c k val edits ifCas exp o macros)

/-! ### Public wrappers. `sets` are (name, value) with `none` for a nil value; `dels` is `none` for a nil slice. -/

def shapeSetXattrs (c k : String) (sets : List (String × Option String)) : OpShape :=
  wwxShape c k .keep sets none none {} []

def opSetXattrs (s : State) (c k : String) (sets : List (String × Option String)) : State × Out :=
  runShape s (shapeSetXattrs c k sets)

def shapeRemoveXattrs (c k : String) (names : List String) (cas : Nat) : OpShape :=
  wwxShape c k .keep (names.map (·, none)) (some cas) none {} []

def opRemoveXattrs (s : State) (c k : String) (names : List String) (cas : Nat) : State × Out :=
  runShape s (shapeRemoveXattrs c k names cas)

def shapeUpdateXattrs (c k : String) (exp cas : Nat) (sets : List (String × Option String))
    (macros : List (String × MacroKind)) : OpShape :=
  if sets.any (fun p => p.2.isNone) then .rejected .badXattrJson
  else wwxShape c k .keep sets (some cas) (some exp) {} macros

def opUpdateXattrs (s : State) (c k : String) (exp cas : Nat) (sets : List (String × Option String))
    (macros : List (String × MacroKind)) : State × Out :=
  runShape s (shapeUpdateXattrs c k exp cas sets macros)

/-- The argument checks shared by `WriteWithXattrs` and `WriteTombstoneWithXattrs`. -/
def mergeDeletes (sets : List (String × Option String)) (dels : List String) : Err ⊕ List XEdit :=
  dels.foldl (fun acc d =>
    match acc with
    | .inl e => .inl e
    | .inr edits => if edits.any (fun p => p.1 = d) then .inl .upsertAndDelete else .inr (edits ++ [(d, none)])) (.inr sets)

def shapeWriteWithXattrs (c k : String) (exp cas : Nat) (value : Option String) (sets : List (String × Option String))
    (dels : Option (List String)) (preserveExp : Bool) (macros : List (String × MacroKind)) : OpShape :=
  if sets.any (fun p => p.2.isNone) then .rejected .nilXattr
  else if cas = 0 ∧ dels.isSome then .rejected .delXattrOnInsert
  else if (value.getD "").isEmpty ∧ sets.isEmpty then .rejected .needXattrs
  else
    match mergeDeletes sets (dels.getD []) with
    | .inl e => .rejected e
    | .inr edits =>
      wwxShape c k (match value with | some b => .body b | none => .keep) edits (some cas)
        (if preserveExp then none else some exp) {} macros

def opWriteWithXattrs (s : State) (c k : String) (exp cas : Nat) (value : Option String) (sets : List (String × Option String))
    (dels : Option (List String)) (preserveExp : Bool) (macros : List (String × MacroKind)) : State × Out :=
  runShape s (shapeWriteWithXattrs c k exp cas value sets dels preserveExp macros)

def shapeWriteTombstoneWithXattrs (c k : String) (exp cas : Nat) (sets : List (String × Option String))
    (dels : Option (List String)) (deleteBody : Bool) (macros : List (String × MacroKind)) : OpShape :=
  if sets.isEmpty then .rejected .needXattrs
  else if cas = 0 ∧ dels.isSome then .rejected .delXattrOnInsert
  else if sets.any (fun p => p.2.isNone) then .rejected .nilXattr
  else
    match mergeDeletes sets (dels.getD []) with
    | .inl e => .rejected e
    | .inr edits =>
      wwxShape c k .delete edits (some cas) (some exp)
        { requireExistingDoc := deleteBody || cas != 0, deleteBody := deleteBody } macros

def opWriteTombstoneWithXattrs (s : State) (c k : String) (exp cas : Nat) (sets : List (String × Option String))
    (dels : Option (List String)) (deleteBody : Bool) (macros : List (String × MacroKind)) : State × Out :=
  runShape s (shapeWriteTombstoneWithXattrs c k exp cas sets dels deleteBody macros)

def shapeWriteResurrectionWithXattrs (c k : String) (exp : Nat) (value : Option String)
    (sets : List (String × Option String)) (preserveExp : Bool) (macros : List (String × MacroKind)) : OpShape :=
  match value with
  | none => .rejected .needBody
  | some b =>
    if sets.any (fun p => p.2.isNone) then .rejected .nilXattr
    else wwxShape c k (.body b) sets none (if preserveExp then none else some exp) { insertDoc := true } macros

def opWriteResurrectionWithXattrs (s : State) (c k : String) (exp : Nat) (value : Option String)
    (sets : List (String × Option String)) (preserveExp : Bool) (macros : List (String × MacroKind)) : State × Out :=
  runShape s (shapeWriteResurrectionWithXattrs c k exp value sets preserveExp macros)

def shapeUpdateXattrDeleteBody (c k xk : String) (exp cas : Nat) (xv : Option String)
    (macros : List (String × MacroKind)) : OpShape :=
  wwxShape c k .delete [(xk, xv)] (some cas) (some exp) {} macros

def opUpdateXattrDeleteBody (s : State) (c k xk : String) (exp cas : Nat) (xv : Option String)
    (macros : List (String × MacroKind)) : State × Out :=
  runShape s (shapeUpdateXattrDeleteBody c k xk exp cas xv macros)

/-! ### DeleteWithXattrs / DeleteSubDocPaths -/

/-- `removeXattrs`: names are only validated when the document has xattrs at all. -/
def removeXattrs (xs : Xattrs) (names : List String) : Err ⊕ Xattrs :=
  if xs.isEmpty then .inr xs
  else if names.any (fun n => ¬ validXattrKey n) then .inl .badXattrKey
  else .inr (names.foldl Xattrs.erase xs)

def delxRow (k : String) (names : List String) : RowFn := fun newCas _ old =>
  match old with
  | none => .inl { err := .missing }
  | some r =>
    match removeXattrs r.xattrs names with
    | .inl e => .inl { err := e }
    | .inr xattrs =>
      .inr (some { r with value := none, isJSON := false, exp := 0, tomb := true, xattrs := xattrs, cas := newCas, rev := r.rev + 1 },
        some { key := k, value := none, isDeletion := true, isJSON := false, xattrs := xattrs, cas := newCas, exp := 0, rev := r.rev + 1 },
        {})

def delxFn (k : String) (names : List String) : TxnFn := liftRow k (delxRow k names)

def opDeleteWithXattrs (s : State) (c k : String) (names : List String) : State × Out := runShape s (.row c k (delxRow k names))

def dspRow (k : String) (names : List String) : RowFn := fun newCas _ old =>
  match old with
  | none => .inl { err := .missing }
  | some r =>
    match removeXattrs r.xattrs names with
    | .inl e => .inl { err := e }
    | .inr xattrs =>
      .inr (some { r with xattrs := xattrs, cas := newCas, rev := r.rev + 1 },
        some { key := k, value := r.value, isDeletion := r.value.isNone, isJSON := r.isJSON, xattrs := xattrs, cas := newCas, exp := r.exp, rev := r.rev + 1 },
        {})

def dspFn (k : String) (names : List String) : TxnFn := liftRow k (dspRow k names)

def opDeleteSubDocPaths (s : State) (c k : String) (names : List String) : State × Out := runShape s (.row c k (dspRow k names))

/-! ### SetWithMeta / DeleteWithMeta: one transaction, caller-supplied CAS, no clock, no `lastCas` -/

def wmetaRow (k : String) (oldCas newCas exp : Nat) (xattrs : Xattrs) (body : Option String) (isJSON isDeletion : Bool) : RowFn :=
  fun _ _ old =>
    let prevCas := match old with | some r => r.cas | none => 0
    if oldCas ≠ prevCas then .inl { err := .casMismatch, actual := some prevCas }
    else
      let rev := (match old with | some r => r.rev | none => 0) + 1
      .inr (some { rowid := 0, value := body, cas := newCas, exp := exp, isJSON := isJSON, xattrs := xattrs, tomb := isDeletion, rev := rev },
        some { key := k, value := body, isDeletion := isDeletion, isJSON := isJSON, xattrs := xattrs, cas := newCas, exp := exp, rev := rev },
        {})

def opWriteWithMeta (s : State) (c k : String) (oldCas newCas exp : Nat) (xattrs : Xattrs) (body : Option String)
    (isJSON isDeletion : Bool) : State × Out :=
  match s.coll? c with
  | none => (s, { err := .closed })
  | some x =>
    match liftRow k (wmetaRow k oldCas newCas exp xattrs body isJSON isDeletion) newCas s.now s.nextRowId x.docs with
    | .inl out => (s, out)
    | .inr (docs', nid, ev, out) =>
      let s1 := ({ s with nextRowId := nid }).setColl c { x with docs := docs' }
      match ev with
      | some e => (postEvent s1 c x.id e, out)
      | none => (s1, out)

/-! ### Reads -/

/-- `getRawWithXattrs`: the requested xattrs that exist, including the two virtual ones. -/
def requestedXattrs (r : Row) (names : List String) : Xattrs :=
  names.foldl (fun acc n =>
    if n = "$document" then
      Xattrs.set acc n ("{\"value_crc32c\":\"" ++ crcString r.value ++ "\",\"revid\":\"" ++ toString r.rev ++ "\"}")
    else if n = "$document.revid" then Xattrs.set acc n ("\"" ++ toString r.rev ++ "\"")
    else match Xattrs.get? r.xattrs n with
      | some v => Xattrs.set acc n v
      | none => acc) []

/-- `GetWithXattrs`: error, body, cas, xattrs (`none` = nil map). -/
def getWithXattrs (s : State) (c k : String) (names : List String) : Err × Option String × Nat × Option Xattrs :=
  match s.row? c k with
  | none => (.missing, none, 0, none)
  | some r =>
    let xs := requestedXattrs r names
    if r.value.isNone ∧ xs.isEmpty then (.missing, none, r.cas, none)
    else (.ok, r.value, r.cas, some xs)

/-- `GetXattrs`. -/
def getXattrs (s : State) (c k : String) (names : List String) : Err × Nat × Option Xattrs :=
  match s.row? c k with
  | none => (.missing, 0, none)
  | some r =>
    let xs := requestedXattrs r names
    if xs.isEmpty then (.xattrMissing, 0, none) else (.ok, r.cas, some xs)

end Rosmar
