/-
  The operation alphabet of the model and its one-step semantics.
  `step : State → Op → State × Resp` is what the theorems quantify over (`run` folds it over any list)
  and what the driver executes line by line. Core-only.
-/
import Rosmar.Subdoc
namespace Rosmar

abbrev Sets := List (String × Option String)
abbrev Macros := List (String × MacroKind)

inductive Op where
  | clock (t : Nat)
  | now (secs : Nat)
  | add (c k : String) (exp : Nat) (v : String) (json : Bool)
  | set (c k : String) (exp : Nat) (pe : Bool) (v : String) (raw : Bool)
  | wcas (c k : String) (exp cas : Nat) (v : Option String) (o : WOpts)
  | remove (c k : String) (cas : Nat)
  | delete (c k : String)
  | touch (c k : String) (exp : Nat)
  | incr (c k : String) (amt deflt exp : Nat)
  | setx (c k : String) (sets : Sets)
  | rmx (c k : String) (names : List String) (cas : Nat)
  | updx (c k : String) (exp cas : Nat) (sets : Sets) (macros : Macros)
  | wwx (c k : String) (exp cas : Nat) (v : Option String) (sets : Sets) (dels : Option (List String)) (pe : Bool) (macros : Macros)
  | wtx (c k : String) (exp cas : Nat) (sets : Sets) (dels : Option (List String)) (delBody : Bool) (macros : Macros)
  | wrx (c k : String) (exp : Nat) (v : Option String) (sets : Sets) (pe : Bool) (macros : Macros)
  | uxdb (c k xk : String) (exp cas : Nat) (xv : Option String) (macros : Macros)
  | delx (c k : String) (names : List String)
  | dsp (c k : String) (names : List String)
  | wmeta (c k : String) (old new exp : Nat) (xattrs : Xattrs) (body : Option String) (isJSON isDel : Bool)
  | purge
  | update (c k : String) (exp : Nat) (steps : List UpdStep)
  | wuwx (c k : String) (names : List String) (steps : List WuStep) (sets : Sets) (dels : Option (List String))
      (macros : Macros) (cbExp : Option Nat) (pe : Bool)
  | startFeed (id c : String) (bf : Backfill) (dump keysOnly : Bool) (pfx : String := "")
  | stopFeed (id : String)
  | drain (id : String)
  | fire
  | rb (c k : String) (names : List String)
  | lastCas (c : String)
  | keys (c : String)
  | expState
  | wsd (c k path : String) (cas : Nat) (v : Option String)
  | sdi (c k path : String) (cas : Nat) (v : Option String)
  | gsd (c k path : String)
  | draw      -- another bucket of the process draws a timestamp from the shared clock
  | restart (processHlc : Nat)   -- close every handle, new process (clock starts at `processHlc`), reopen
  deriving Repr, Inhabited

/-- Everything the readback line shows for one key. -/
structure ReadBack where
  row : Option Row
  getRaw : Err × Option String × Nat
  exists_ : Bool
  getExpiry : Err × Nat
  gwx : Err × Option String × Nat × Option Xattrs
  gx : Err × Nat × Option Xattrs
  deriving Repr, Inhabited

inductive Resp where
  | out (o : Out)
  | items (l : List FeedItem)
  | read (r : ReadBack)
  | lastCas (bucket coll hlc : Nat)
  | keys (l : List String)
  | next (n : Nat)
  | reopened (hlc next : Nat)
  deriving Repr, Inhabited

/-- The shape of the single-row entry points (`none`: compound, bucket-level, feed or read operations). -/
def Op.shape : Op → Option OpShape
  | .add c k exp v json => some (.row c k (addRow k exp v (if json then true else looksLikeJSON v)))
  | .set c k exp pe v raw => some (.row c k (setRow k exp pe v (!raw)))
  | .wcas c k exp cas v o => some (.row c k (wcasRow k exp cas v o))
  | .remove c k cas => some (.row c k (removeRow k (some cas)))
  | .delete c k => some (.row c k (removeRow k none))
  | .touch c k exp => some (.row c k (touchRow exp))
  | .incr c k amt d exp => some (.row c k (incrRow k amt d exp))
  | .setx c k sets => some (shapeSetXattrs c k sets)
  | .rmx c k names cas => some (shapeRemoveXattrs c k names cas)
  | .updx c k exp cas sets m => some (shapeUpdateXattrs c k exp cas sets m)
  | .wwx c k exp cas v sets dels pe m => some (shapeWriteWithXattrs c k exp cas v sets dels pe m)
  | .wtx c k exp cas sets dels db m => some (shapeWriteTombstoneWithXattrs c k exp cas sets dels db m)
  | .wrx c k exp v sets pe m => some (shapeWriteResurrectionWithXattrs c k exp v sets pe m)
  | .uxdb c k xk exp cas xv m => some (shapeUpdateXattrDeleteBody c k xk exp cas xv m)
  | .delx c k names => some (.row c k (delxRow k names))
  | .dsp c k names => some (.row c k (dspRow k names))
  | _ => none

/-- Reopening (in a new process or the same one): the clock is re-seeded with the persisted high-water mark,
    feeds are gone, the expiry timer is re-armed from the earliest stored expiry. -/
def reopen (s : State) (processHlc : Nat) : State :=
  { s with hlc := hlcUpdate processHlc s.lastCas, feeds := [], expNext := minExp s }

def readBack (s : State) (c k : String) (names : List String) : ReadBack :=
  { row := s.row? c k, getRaw := getRaw s c k, exists_ := exists_ s c k, getExpiry := getExpiry s c k,
    gwx := getWithXattrs s c k names, gx := getXattrs s c k names }

def insertSortedStr (x : String) : List String → List String
  | [] => [x]
  | y :: ys => if x < y then x :: y :: ys else y :: insertSortedStr x ys

def step (s : State) : Op → State × Resp
  | .clock t => ({ s with phys := t }, .out {})
  | .now n => ({ s with now := n }, .out {})
  | .add c k exp v json => let r := opAdd s c k exp v json; (r.1, .out r.2)
  | .set c k exp pe v raw => let r := opSet s c k exp pe v raw; (r.1, .out r.2)
  | .wcas c k exp cas v o => let r := opWriteCas s c k exp cas v o; (r.1, .out r.2)
  | .remove c k cas => let r := opRemove s c k cas; (r.1, .out r.2)
  | .delete c k => let r := opDelete s c k; (r.1, .out r.2)
  | .touch c k exp => let r := opTouch s c k exp; (r.1, .out r.2)
  | .incr c k amt d exp => let r := opIncr s c k amt d exp; (r.1, .out r.2)
  | .setx c k sets => let r := opSetXattrs s c k sets; (r.1, .out r.2)
  | .rmx c k names cas => let r := opRemoveXattrs s c k names cas; (r.1, .out r.2)
  | .updx c k exp cas sets m => let r := opUpdateXattrs s c k exp cas sets m; (r.1, .out r.2)
  | .wwx c k exp cas v sets dels pe m => let r := opWriteWithXattrs s c k exp cas v sets dels pe m; (r.1, .out r.2)
  | .wtx c k exp cas sets dels db m => let r := opWriteTombstoneWithXattrs s c k exp cas sets dels db m; (r.1, .out r.2)
  | .wrx c k exp v sets pe m => let r := opWriteResurrectionWithXattrs s c k exp v sets pe m; (r.1, .out r.2)
  | .uxdb c k xk exp cas xv m => let r := opUpdateXattrDeleteBody s c k xk exp cas xv m; (r.1, .out r.2)
  | .delx c k names => let r := opDeleteWithXattrs s c k names; (r.1, .out r.2)
  | .dsp c k names => let r := opDeleteSubDocPaths s c k names; (r.1, .out r.2)
  | .wmeta c k old new exp xs body j d => let r := opWriteWithMeta s c k old new exp xs body j d; (r.1, .out r.2)
  | .purge => let r := opPurge s; (r.1, .out r.2)
  | .update c k exp steps => let r := opUpdate 25 s c k exp steps 0 []; (r.1, .out r.2)
  | .wuwx c k names steps sets dels m cbExp pe =>
    let r := opWuwx 25 s c k names steps sets dels m cbExp pe [] 0 []; (r.1, .out r.2)
  | .startFeed id c bf dump ko pfx => let r := opStartFeed s id c bf dump ko pfx; (r.1, .out r.2)
  | .stopFeed id => let r := opStopFeed s id; (r.1, .out r.2)
  | .drain id => let r := opDrain s id; (r.1, .items r.2)
  | .fire => let s' := opFireExpiry s; (s', .next s'.expNext)
  | .rb c k names => (s, .read (readBack s c k names))
  | .lastCas c => (s, .lastCas s.lastCas ((s.coll? c).map (·.lastCas) |>.getD 0) s.hlc)
  | .keys c => (s, .keys (((s.coll? c).map (·.docs.map (·.1)) |>.getD []).foldr insertSortedStr []))
  | .expState => (s, .next s.expNext)
  | .wsd c k path cas v => let r := opSubdocWrite s c k path cas (if v = some "" then none else v) false; (r.1, .out r.2)
  | .sdi c k path cas v => let r := opSubdocWrite s c k path cas v true; (r.1, .out r.2)
  | .gsd c k path => (s, .out (opGetSubDocRaw s c k path))
  | .draw => let nc := hlcNow s.hlc s.phys; ({ s with hlc := nc }, .out { cas := nc })
  | .restart p => let s' := reopen s p; (s', .reopened s'.hlc s'.expNext)

/-- Run a list of operations, collecting the responses. -/
def run (s : State) : List Op → State × List Resp
  | [] => (s, [])
  | op :: ops =>
    let (s1, r) := step s op
    let (s2, rs) := run s1 ops
    (s2, r :: rs)

/-- The state a fresh bucket starts in: the default collection and the two named ones the protocol uses. -/
def initState : State :=
  { colls := [("c0", { id := 1, lastCas := 0, docs := [] }), ("c1", { id := 2, lastCas := 0, docs := [] }),
              ("c2", { id := 3, lastCas := 0, docs := [] })],
    nextCollId := 4, phys := 1048576, now := 1700000000 }

end Rosmar
