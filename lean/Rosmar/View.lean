/-
  `views.go` / `designdoc.go`: design documents, the materialised view index and its incremental maintenance keyed on
  "cas > last indexed cas", the SQL stage of a view query (range, order, limit) and sg-bucket's `ProcessParsed` stage
  (`keys`, reduce / group). Core-only.

  Outside the model: the JavaScript engine. Each map function of the family the harness installs has a hand-written twin here
  (`mapTwin`); the correspondence check runs the real JavaScript through the real `updateView` and compares.
-/
import Rosmar.Step
namespace Rosmar.View

/-! ## Full JSON values (emitted keys and values) -/

mutual
  inductive VJ where
    | null : VJ
    | bool (b : Bool) : VJ
    | num (n : Int) : VJ
    | str (s : String) : VJ
    | arr (xs : VJList) : VJ
    | obj (fs : VJFields) : VJ
  inductive VJList where
    | nil : VJList
    | cons (x : VJ) (rest : VJList) : VJList
  inductive VJFields where
    | nil : VJFields
    | cons (k : String) (v : VJ) (rest : VJFields) : VJFields
end

instance : Inhabited VJ := ⟨.null⟩

namespace VJList
def toList : VJList → List VJ
  | .nil => []
  | .cons x r => x :: r.toList
def ofList : List VJ → VJList
  | [] => .nil
  | x :: r => .cons x (ofList r)
end VJList

namespace VJFields
def get? : VJFields → String → Option VJ
  | .nil, _ => none
  | .cons k v rest, q => if k = q then some v else rest.get? q
/-- Insert keeping keys ascending (Go's `json.Marshal` of a map sorts keys). -/
def insertSorted : VJFields → String → VJ → VJFields
  | .nil, q, x => .cons q x .nil
  | .cons k v rest, q, x =>
    if q < k then .cons q x (.cons k v rest)
    else if q = k then .cons k x rest
    else .cons k v (rest.insertSorted q x)
end VJFields

mutual
  def VJ.print : VJ → String
    | .null => "null"
    | .bool true => "true"
    | .bool false => "false"
    | .num n => toString n
    | .str s => "\"" ++ s ++ "\""
    | .arr xs => "[" ++ VJList.print xs true ++ "]"
    | .obj fs => "{" ++ VJFields.print fs true ++ "}"
  def VJList.print : VJList → Bool → String
    | .nil, _ => ""
    | .cons x rest, first => (if first then "" else ",") ++ VJ.print x ++ VJList.print rest false
  def VJFields.print : VJFields → Bool → String
    | .nil, _ => ""
    | .cons k v rest, first => (if first then "" else ",") ++ "\"" ++ k ++ "\":" ++ VJ.print v ++ VJFields.print rest false
end

mutual
  /-- Object keys sorted at every level: what re-marshalling a value exported from the JavaScript engine prints. -/
  def VJ.canon : VJ → VJ
    | .arr xs => .arr (VJList.canon xs)
    | .obj fs => .obj (VJFields.canon fs)
    | v => v
  def VJList.canon : VJList → VJList
    | .nil => .nil
    | .cons x rest => .cons (VJ.canon x) (VJList.canon rest)
  def VJFields.canon : VJFields → VJFields
    | .nil => .nil
    | .cons k v rest => (VJFields.canon rest).insertSorted k (VJ.canon v)
end

/-! ### Parser (fuel = input length; strings without escapes, integers) -/

namespace Parse

def skipWs : List Char → List Char
  | c :: rest => if c = ' ' || c = '\n' || c = '\t' || c = '\r' then skipWs rest else c :: rest
  | [] => []

def takeStr : List Char → List Char → Option (String × List Char)
  | acc, '"' :: rest => some (String.ofList acc.reverse, rest)
  | _, '\\' :: _ => none
  | acc, c :: rest => takeStr (c :: acc) rest
  | _, [] => none

def takeDigits : List Char → List Char → (List Char × List Char)
  | acc, c :: rest => if c.isDigit then takeDigits (c :: acc) rest else (acc.reverse, c :: rest)
  | acc, [] => (acc.reverse, [])

def natOf (ds : List Char) : Nat := ds.foldl (fun n c => n * 10 + (c.toNat - '0'.toNat)) 0

mutual
  def value : Nat → List Char → Option (VJ × List Char)
    | 0, _ => none
    | fuel + 1, cs =>
      match skipWs cs with
      | 'n' :: 'u' :: 'l' :: 'l' :: rest => some (.null, rest)
      | 't' :: 'r' :: 'u' :: 'e' :: rest => some (.bool true, rest)
      | 'f' :: 'a' :: 'l' :: 's' :: 'e' :: rest => some (.bool false, rest)
      | '"' :: rest => (takeStr [] rest).map (fun p => (.str p.1, p.2))
      | '[' :: rest =>
        match skipWs rest with
        | ']' :: rest' => some (.arr .nil, rest')
        | _ => (elems fuel rest).map (fun p => (.arr p.1, p.2))
      | '{' :: rest =>
        match skipWs rest with
        | '}' :: rest' => some (.obj .nil, rest')
        | _ => (fields fuel rest).map (fun p => (.obj p.1, p.2))
      | '-' :: rest =>
        match takeDigits [] rest with
        | ([], _) => none
        | (ds, rest') => some (.num (- (natOf ds : Int)), rest')
      | c :: rest =>
        if c.isDigit then
          let (ds, rest') := takeDigits [] (c :: rest)
          some (.num (natOf ds : Int), rest')
        else none
      | [] => none
  def elems : Nat → List Char → Option (VJList × List Char)
    | 0, _ => none
    | fuel + 1, cs =>
      match value fuel cs with
      | none => none
      | some (v, rest) =>
        match skipWs rest with
        | ',' :: rest' => (elems fuel rest').map (fun p => (.cons v p.1, p.2))
        | ']' :: rest' => some (.cons v .nil, rest')
        | _ => none
  def fields : Nat → List Char → Option (VJFields × List Char)
    | 0, _ => none
    | fuel + 1, cs =>
      match skipWs cs with
      | '"' :: rest =>
        match takeStr [] rest with
        | none => none
        | some (k, rest1) =>
          match skipWs rest1 with
          | ':' :: rest2 =>
            match value fuel rest2 with
            | none => none
            | some (v, rest3) =>
              match skipWs rest3 with
              | ',' :: rest4 => (fields fuel rest4).map (fun p => (.cons k v p.1, p.2))
              | '}' :: rest4 => some (.cons k v .nil, rest4)
              | _ => none
          | _ => none
      | _ => none
end

end Parse

def VJ.parse (s : String) : Option VJ :=
  let cs := s.toList
  match Parse.value (cs.length + 1) cs with
  | some (v, rest) => if (Parse.skipWs rest).isEmpty then some v else none
  | none => none

/-! ### CouchDB / sg-bucket JSON collation (`CollateRaw`): null < false < true < numbers < strings < arrays < objects;
arrays element-wise, the shorter first; objects as the token stream key, value, key, value…; strings by the locale collator, which
on the strings the harness emits (lower-case ASCII letters, digits, underscore) is code-point order. -/

def typeRank : VJ → Nat
  | .null => 0 | .bool false => 1 | .bool true => 2 | .num _ => 3 | .str _ => 4 | .arr _ => 5 | .obj _ => 6

def cmpInt (a b : Int) : Ordering := if a < b then .lt else if a = b then .eq else .gt
def cmpStr (a b : String) : Ordering := if a < b then .lt else if a = b then .eq else .gt

mutual
  def collate : VJ → VJ → Ordering
    | .num a, .num b => cmpInt a b
    | .str a, .str b => cmpStr a b
    | .arr a, .arr b => collateList a b
    | .obj a, .obj b => collateFields a b
    | a, b => compare (typeRank a) (typeRank b)
  def collateList : VJList → VJList → Ordering
    | .nil, .nil => .eq
    | .nil, .cons _ _ => .lt
    | .cons _ _, .nil => .gt
    | .cons x xs, .cons y ys =>
      match collate x y with
      | .eq => collateList xs ys
      | o => o
  def collateFields : VJFields → VJFields → Ordering
    | .nil, .nil => .eq
    | .nil, .cons _ _ _ => .lt
    | .cons _ _ _, .nil => .gt
    | .cons k v xs, .cons k' v' ys =>
      match cmpStr k k' with
      | .eq =>
        match collate v v' with
        | .eq => collateFields xs ys
        | o => o
      | o => o
end

mutual
  /-- sg-bucket's collator over unmarshalled Go values (`JSONCollator.Collate`), used by `FilterKeys` and by grouping: like
  `collate`, except that any two objects are equal ("ignore ordering for catch-all stuff"). -/
  def collateGo : VJ → VJ → Ordering
    | .num a, .num b => cmpInt a b
    | .str a, .str b => cmpStr a b
    | .arr a, .arr b => collateGoList a b
    | .obj _, .obj _ => .eq
    | a, b => compare (typeRank a) (typeRank b)
  def collateGoList : VJList → VJList → Ordering
    | .nil, .nil => .eq
    | .nil, .cons _ _ => .lt
    | .cons _ _, .nil => .gt
    | .cons x xs, .cons y ys =>
      match collateGo x y with
      | .eq => collateGoList xs ys
      | o => o
end

/-! ## The map-function family -/

/-- What `updateView` hands the map function: the body (or `{}` when the row has none or is not JSON), the id and the xattrs. -/
structure MapInput where
  id : String
  doc : VJ
  xattrs : List (String × VJ)

/-- One emitted (key, value). -/
abbrev Emit := VJ × VJ

def enumFrom : Nat → List VJ → List (Nat × VJ)
  | _, [] => []
  | n, x :: xs => (n, x) :: enumFrom (n + 1) xs

/-- Twins of the JavaScript sources in `harness/view.go` (same numbering). -/
def mapTwin (m : Nat) (i : MapInput) : List Emit :=
  match m with
  | 0 => [(.str i.id, .null)]                                             -- emit(meta.id, null)
  | 1 => match i.doc with                                                 -- if (doc.a !== undefined) emit(doc.a, doc.b === undefined ? null : doc.b)
    | .obj fs => (match fs.get? "a" with
      | some .null => []            -- the engine hands the document over as converted Go values: a JSON null property reads as `undefined`
      | some a => [(a.canon, ((fs.get? "b").getD .null).canon)]
      | none => [])
    | _ => []
  | 2 => match i.doc with                                                 -- if (Array.isArray(doc.tags)) for (i…) emit([doc.tags[i], i], 1)
    | .obj fs => (match fs.get? "tags" with
      | some (.arr xs) => (enumFrom 0 xs.toList).map (fun p => (.arr (.cons p.2.canon (.cons (.num p.1) .nil)), .num 1))
      | _ => [])
    | _ => []
  | 3 => match i.xattrs.find? (fun p => p.1 = "_sync") with              -- if (meta.xattrs && meta.xattrs._sync !== undefined) emit(meta.id, meta.xattrs._sync)
    | some p => [(.str i.id, p.2.canon)]
    | none => []
  | _ => []

/-- The map input of a stored row; `none` when `updateView`'s SELECT skips the row (neither body nor xattrs) or when the body is
flagged as JSON but does not parse (the engine's `JSON.parse` throws, the error is logged and the document contributes no rows). -/
def mapInput? (k : String) (r : Row) : Option MapInput :=
  if r.value.isNone ∧ r.xattrs = [] then none
  else
    let doc : Option VJ := match r.value with
      | some v => if r.isJSON ∧ v ≠ "" then VJ.parse v else some (.obj .nil)   -- (an empty body reaches the function as `{}` whatever its flag)
      | none => some (.obj .nil)
    doc.map (fun d => { id := k, doc := d, xattrs := r.xattrs.map (fun p => (p.1, (VJ.parse p.2).getD .null)) })

/-- The rows the map function emits for one stored row. -/
def mapRows (m : Nat) (k : String) (r : Row) : List Emit :=
  match mapInput? k r with
  | some i => mapTwin m i
  | none => []

/-! ## Design documents and the index -/

structure ViewDef where
  name : String
  mapId : Nat
  reduce : String                       -- "", "_count" or "_sum"
  lastCas : Nat := 0                    -- views.lastCas
  mapped : List (String × List Emit) := []   -- the `mapped` rows, grouped by document key

structure DDoc where
  coll : String
  name : String
  views : List ViewDef

/-- The index rows kept for a document. -/
def ViewDef.rowsOf (v : ViewDef) (k : String) : List Emit :=
  match v.mapped.find? (fun p => p.1 = k) with
  | some p => p.2
  | none => []

/-- `updateView`'s transaction: rows of documents with `cas > lastCas` are deleted and, when the document has a body or
xattrs, re-created from the map function; the rows of all other documents stay as they are; `lastCas` becomes the collection's. -/
def updateIndex (docs : Docs) (collLastCas : Nat) (v : ViewDef) : ViewDef :=
  if collLastCas = v.lastCas then v
  else
    { v with
      lastCas := collLastCas
      mapped := docs.map (fun d => (d.1, if d.2.cas > v.lastCas then mapRows v.mapId d.1 d.2 else v.rowsOf d.1)) }

/-- Evaluating the map function over the collection's current documents from scratch. -/
def freshIndex (docs : Docs) (m : Nat) : List (String × List Emit) :=
  docs.map (fun d => (d.1, mapRows m d.1 d.2))

/-- `ON DELETE CASCADE` from `documents` to `mapped`: rows of purged documents go with them. -/
def ViewDef.gc (docs : Docs) (v : ViewDef) : ViewDef :=
  { v with mapped := v.mapped.filter (fun p => (docs.get? p.1).isSome) }

/-! ## Query -/

/-- A result row. -/
structure VRow where
  id : String
  key : VJ
  value : VJ

def flatten (m : List (String × List Emit)) : List VRow :=
  m.flatMap (fun p => p.2.map (fun e => { id := p.1, key := e.1, value := e.2 }))

/-- `ORDER BY mapped.key, documents.key` (key by JSON collation, then document id). -/
def rowLe (a b : VRow) : Bool :=
  match collate a.key b.key with
  | .lt => true
  | .gt => false
  | .eq => a.id ≤ b.id

def insertRow (x : VRow) : List VRow → List VRow
  | [] => [x]
  | y :: ys => if rowLe x y then x :: y :: ys else y :: insertRow x ys

def sortRows (l : List VRow) : List VRow := l.foldr insertRow []

structure Params where
  key : Option VJ := none
  startkey : Option VJ := none
  endkey : Option VJ := none
  inclusiveEnd : Bool := true
  keys : Option (List VJ) := none
  descending : Bool := false
  limit : Option Nat := none
  reduce : Bool := true
  group : Bool := false
  groupLevel : Option Nat := none
  staleOk : Bool := false

/-- `ParseViewParams`: (min, includeMin, max, includeMax) – `keys` wins over `key` wins over the range; a descending query swaps
the ends. -/
def nonNull : Option VJ → Option VJ
  | some .null => none      -- a JSON `null` parameter is a Go `nil` in the parameter map: indistinguishable from an absent one
  | o => o

def bounds (p : Params) : Option VJ × Bool × Option VJ × Bool :=
  if p.keys.isSome then (none, true, none, true)
  else
    let (mn, mx, imx) := match nonNull p.key with
      | some k => (some k, some k, true)
      | none => (nonNull p.startkey, nonNull p.endkey, p.inclusiveEnd)
    if p.descending then (mx, imx, mn, true) else (mn, true, mx, imx)

def geMin (mn : Option VJ) (incl : Bool) (k : VJ) : Bool :=
  match mn with
  | none => true
  | some m => match collate k m with
    | .gt => true
    | .eq => incl
    | .lt => false

def leMax (mx : Option VJ) (incl : Bool) (k : VJ) : Bool :=
  match mx with
  | none => true
  | some m => match collate k m with
    | .lt => true
    | .eq => incl
    | .gt => false

def takeLimit (l : Option Nat) (rows : List VRow) : List VRow :=
  match l with
  | some n => rows.take n
  | none => rows

/-- `getViewRows`: the SQL stage. -/
def sqlStage (p : Params) (rows : List VRow) : List VRow :=
  let (mn, imn, mx, imx) := bounds p
  let sel := (sortRows rows).filter (fun r => geMin mn imn r.key && leMax mx imx r.key)
  takeLimit p.limit (if p.descending then sel.reverse else sel)

/-- The `keys` selection (done in rosmar's `view()` since fix e833c7c: every row whose key collates equal to a requested key, in
the order of the requested keys; before the fix sg-bucket's `FilterKeys` kept one row per key). -/
def filterKeys (cmpK : VJ → VJ → Ordering) (keys : List VJ) (rows : List VRow) : List VRow :=
  keys.flatMap (fun t => rows.filter (fun r => cmpK r.key t = .eq))

def keyPrefix (n : Nat) (k : VJ) : VJ :=
  match k with
  | .arr xs => .arr (VJList.ofList (xs.toList.take n))
  | v => v

def sumValues (rows : List VRow) : Int :=
  rows.foldl (fun t r => match r.value with | .num n => t + n | _ => t) 0

def reduceRows (fn : String) (rows : List VRow) : VJ :=
  if fn = "_count" then .num rows.length else .num (sumValues rows)

/-- `ReduceAndGroup` with a group level: consecutive rows with equal (prefix) keys. -/
def groupRows (cmpK : VJ → VJ → Ordering) (fn : String) (lvl : Nat) : Option (VJ × List VRow) → List VRow → List VRow
  | none, [] => []
  | some (k, acc), [] => [{ id := "", key := k, value := reduceRows fn acc.reverse }]
  | none, r :: rest => groupRows cmpK fn lvl (some (if lvl > 0 then keyPrefix lvl r.key else r.key, [r])) rest
  | some (k, acc), r :: rest =>
    let k' := if lvl > 0 then keyPrefix lvl r.key else r.key
    if cmpK k' k = .eq then groupRows cmpK fn lvl (some (k, r :: acc)) rest
    else { id := "", key := k, value := reduceRows fn acc.reverse } :: groupRows cmpK fn lvl (some (k', [r])) rest

/-- `ProcessParsed` after the SQL stage cleared the range, the order and the limit: `keys`, then reduce / group. -/
def processStage (cmpK : VJ → VJ → Ordering) (p : Params) (reduceFn : String) (rows : List VRow) : List VRow :=
  let rows := match p.keys with
    | some ks => filterKeys cmpK ks rows
    | none => rows
  if p.reduce ∧ reduceFn ≠ "" then
    if rows.isEmpty then []
    else
      let lvl : Option Nat := if p.group then some 0 else p.groupLevel
      match lvl with
      | some n => groupRows cmpK reduceFn n none rows
      | none => [{ id := "", key := .null, value := reduceRows reduceFn rows }]
  else rows

/-- The whole query over a set of index rows, with the comparison the `keys` selection and the grouping use as a parameter. -/
def queryRowsWith (cmpK : VJ → VJ → Ordering) (p : Params) (reduceFn : String) (mapped : List (String × List Emit)) : List VRow :=
  processStage cmpK p reduceFn (sqlStage p (flatten mapped))

/-- The query as rosmar runs it: sg-bucket's Go-value collator in the `keys` selection and the grouping. -/
def queryRows (p : Params) (reduceFn : String) (mapped : List (String × List Emit)) : List VRow :=
  queryRowsWith collateGo p reduceFn mapped

/-- The rows a query ranges over: `mapped INNER JOIN documents` – the index rows of the documents that exist. -/
def joined (docs : Docs) (v : ViewDef) : List (String × List Emit) := docs.map (fun d => (d.1, v.rowsOf d.1))

/-! ## Operations (the driver keeps the design documents next to the `State`) -/

structure VState where
  s : State := initState
  ddocs : List DDoc := []

def findDDoc (ds : List DDoc) (c name : String) : Option DDoc :=
  ds.find? (fun d => d.coll = c ∧ d.name = name)

def sameViews (a : List ViewDef) (b : List (String × Nat × String)) : Bool :=
  a.length = b.length && b.all (fun q => a.any (fun v => v.name = q.1 && v.mapId = q.2.1 && v.reduce = q.2.2))

/-- `PutDDoc`: unchanged → nothing; else the design document's views are replaced by new, empty, never-indexed ones. -/
def opPutDDoc (vs : VState) (c name : String) (views : List (String × Nat × String)) : VState × Err :=
  match vs.s.coll? c with
  | none => (vs, .closed)
  | some _ =>
    match findDDoc vs.ddocs c name with
    | some d =>
      if sameViews d.views views then (vs, .ok)
      else
        ({ vs with ddocs := vs.ddocs.map (fun d' => if d'.coll = c ∧ d'.name = name then
            { d' with views := views.map (fun q => { name := q.1, mapId := q.2.1, reduce := q.2.2 }) } else d') }, .ok)
    | none =>
      ({ vs with ddocs := vs.ddocs ++ [{ coll := c, name := name, views := views.map (fun q => { name := q.1, mapId := q.2.1, reduce := q.2.2 }) }] }, .ok)

def opDelDDoc (vs : VState) (c name : String) : VState × Err :=
  match findDDoc vs.ddocs c name with
  | some _ => ({ vs with ddocs := vs.ddocs.filter (fun d => ¬ (d.coll = c ∧ d.name = name)) }, .ok)
  | none => (vs, .missing)

/-- `View` / `ViewQuery`. -/
def opView (vs : VState) (c dd vn : String) (p : Params) : VState × Err × List VRow :=
  match vs.s.coll? c, findDDoc vs.ddocs c dd with
  | some x, some d =>
    match d.views.find? (fun v => v.name = vn) with
    | none => (vs, .missing, [])
    | some v =>
      let v' := if p.staleOk then v else updateIndex x.docs x.lastCas v
      let vs' := { vs with ddocs := vs.ddocs.map (fun d' => if d'.coll = c ∧ d'.name = dd then
          { d' with views := d'.views.map (fun w => if w.name = vn then v' else w) } else d') }
      (vs', .ok, queryRows p v'.reduce (joined x.docs v'))
  | _, _ => (vs, .missing, [])

/-- After any step of the KV model: the cascade from `documents` to `mapped`. -/
def VState.gc (vs : VState) : VState :=
  { vs with ddocs := vs.ddocs.map (fun d => match vs.s.coll? d.coll with
      | some x => { d with views := d.views.map (ViewDef.gc x.docs) }
      | none => d) }

/-! ## The specification: CouchDB semantics over a from-scratch evaluation -/

/-- What a non-stale query must return: the map function over the current documents, ordered by key collation then id,
restricted to the requested keys / range, reversed when descending, cut at the limit, reduced / grouped when asked. -/
def specRows (p : Params) (reduceFn : String) (docs : Docs) (m : Nat) : List VRow :=
  let all := sortRows (flatten (freshIndex docs m))
  let sel := match p.keys with
    | some ks => ks.flatMap (fun t => all.filter (fun r => collate r.key t = .eq))
    | none =>
      let (mn, imn, mx, imx) := bounds p
      all.filter (fun r => geMin mn imn r.key && leMax mx imx r.key)
  let ordered := takeLimit p.limit (if p.descending then sel.reverse else sel)
  if p.reduce ∧ reduceFn ≠ "" then
    if ordered.isEmpty then []
    else
      let lvl : Option Nat := if p.group then some 0 else p.groupLevel
      match lvl with
      | some n => groupRows collate reduceFn n none ordered
      | none => [{ id := "", key := .null, value := reduceRows reduceFn ordered }]
  else ordered

def printRows (rows : List VRow) : String :=
  ";".intercalate (rows.map (fun r => r.id ++ "|" ++ r.key.print ++ "|" ++ r.value.print))

end Rosmar.View
