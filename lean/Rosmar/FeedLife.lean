/-
  Feed lifecycle bookkeeping (`feeds.go`, `bucket_api.go`): which events end which feeds. The feed list is shared by all
  handles of a bucket; a feed ends when its terminator is closed, its dump finishes, its collection is dropped, the bucket is
  deleted, or the last handle of an on-disk bucket is closed (the store is shut down). Core-only.
-/
namespace Rosmar.FeedLife

structure LFeed where
  id : String
  coll : String
  dump : Bool
  ended : Bool
  deriving Repr, Inhabited, DecidableEq

structure Life where
  onDisk : Bool
  openHandles : List String      -- handles not yet closed
  storeOpen : Bool := true
  feeds : List LFeed := []
  deriving Repr, Inhabited

inductive LEvent where
  | start (id coll : String) (dump : Bool)      -- through whichever handle
  | term (id : String)                          -- the feed's terminator is closed
  | drop (coll : String)                        -- DropDataStore, through whichever handle
  | closeHandle (h : String)
  | deleteBucket                                -- CloseAndDelete, through whichever handle
  | openHandle (h : String)
  deriving Repr, Inhabited

def endWhere (p : LFeed → Bool) (l : Life) : Life :=
  { l with feeds := l.feeds.map (fun f => if p f then { f with ended := true } else f) }

def lstep (l : Life) : LEvent → Life
  | .start id coll dump => { l with feeds := l.feeds ++ [{ id := id, coll := coll, dump := dump, ended := dump }] }
  | .term id => endWhere (fun f => f.id == id) l
  | .drop coll => endWhere (fun f => f.coll == coll) l
  | .closeHandle h =>
    let rest := l.openHandles.filter (· ≠ h)
    if l.onDisk ∧ rest.isEmpty ∧ l.openHandles.contains h then
      endWhere (fun _ => true) { l with openHandles := rest, storeOpen := false }
    else { l with openHandles := rest }
  | .deleteBucket => endWhere (fun _ => true) { l with storeOpen := false }
  | .openHandle h => { l with openHandles := l.openHandles ++ [h] }

def lrun (l : Life) : List LEvent → Life
  | [] => l
  | e :: es => lrun (lstep l e) es

def endedOf (l : Life) (id : String) : Option Bool := (l.feeds.find? (fun f => f.id == id)).map (·.ended)

end Rosmar.FeedLife
