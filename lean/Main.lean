import Rosmar.Driver
import Rosmar.Shutdown
import Rosmar.ViewDriver
import Rosmar.Colls
open Rosmar Rosmar.Driver

/-- `sd acts=a,b,c` → the shutdown model's verdict; `sd locks=h1+h2>w;h>w` → whether those threads are deadlocked. -/
def shutdownLine (l : Line) : String :=
  if l.str "acts" ≠ "" then
    match ((l.str "acts").splitOn ",").mapM Rosmar.Shutdown.parseAct with
    | none => "r=model-unknown-act"
    | some as => "r=ok verdict=" ++ Rosmar.Shutdown.verdict (Rosmar.Shutdown.run {} as)
  else
    let ts : List (Rosmar.Shutdown.Thread String) := ((l.str "locks").splitOn ";").map (fun t =>
      match t.splitOn ">" with
      | [h, w] => { held := (h.splitOn "+").filter (· ≠ ""), waits := some w }
      | _ => { held := (t.splitOn "+").filter (· ≠ ""), waits := none })
    s!"r=ok deadlock={Rosmar.Shutdown.deadlockedB ts}"

inductive Mode where
  | kv (s : State) (dd : List Rosmar.View.DDoc) (dropped : List String := [])
  | reg (r : Rosmar.Registry.Reg)
  | life (l : Rosmar.FeedLife.Life)

partial def loop (h : IO.FS.Stream) (out : IO.FS.Stream) (m : Mode) : IO Unit := do
  let line ← h.getLine
  if line.isEmpty then return ()
  let line := (line.dropEndWhile (fun c => c = '\n' || c = '\r')).toString
  if line.isEmpty || line.startsWith "#" then
    loop h out m
  else
    let l := parseLine line
    if l.op = "begin" then
      out.putStrLn "begin"
      if l.str "kind" = "reg" then loop h out (.reg {})
      else if l.str "kind" = "life" then loop h out (.life { onDisk := l.flag "disk", openHandles := ["h0"] })
      else loop h out (.kv initState [])
    else if l.op = "end" then
      out.putStrLn "end"
      loop h out (.kv initState [])
    else if l.op = "sd" then
      out.putStrLn (shutdownLine l)
      loop h out m
    else
      match m with
      | .life st =>
        let (st', s) := lifeLine st l
        out.putStrLn s
        loop h out (.life st')
      | .reg r =>
        let (r', s) := regLine r l
        out.putStrLn s
        loop h out (.reg r')
      | .kv s dd dropped =>
        if l.op = "hopen" then
          out.putStrLn "r=ok"      -- a further handle on the same bucket: nothing the KV model distinguishes
          loop h out m
        else if l.op = "dropcoll" then
          out.putStrLn "r=ok"
          loop h out (.kv (opDropColl s l.p0) (dd.filter (fun d => d.coll ≠ l.p0)) (if dropped.contains l.p0 then dropped else l.p0 :: dropped))
        else if l.op = "mkcoll" then
          let (s', id) := opMkColl s l.p0
          out.putStrLn s!"r=ok id={id}"
          loop h out (.kv s' dd (dropped.filter (· ≠ l.p0)))
        else
        match Rosmar.View.viewLine { s := s, ddocs := dd } l with
        | some (vs', str) =>
          out.putStrLn str
          loop h out (.kv vs'.s vs'.ddocs dropped)
        | none =>
        if l.op = "query" then
          let rows := opQuery s l.p0 (l.nat "q")
          out.putStrLn (s!"r=ok n={rows.length} again=false rows=" ++ ";".intercalate rows)
          loop h out m
        else
        match toOp l with
        | none =>
          out.putStrLn "r=model-unknown-op"
          loop h out m
        | some op =>
          if dropped.contains l.p0 && l.pos.length ≥ 1 && l.op ≠ "restart" then
            -- a call through the object of a dropped collection
            let (s', r) := stepDropped s l.p0 op
            out.putStrLn (match r with | some resp => fmtResp l resp | none => "r=dropped")
            loop h out (.kv s' dd dropped)
          else
          let (s', resp) := step s op
          out.putStrLn (fmtResp l resp)
          -- reopening the bucket in the harness re-creates the collections its programs always use
          let (s'', dropped') :=
            if l.op = "restart" then
              (["c1", "c2"].foldl (fun st c => (opMkColl st c).1) s', dropped.filter (fun c => c ≠ "c1" && c ≠ "c2"))
            else (s', dropped)
          let vs' := if dd.isEmpty then { s := s'', ddocs := dd } else (Rosmar.View.VState.gc { s := s'', ddocs := dd })
          loop h out (.kv vs'.s vs'.ddocs dropped')

def main : IO Unit := do
  let stdin ← IO.getStdin
  let stdout ← IO.getStdout
  loop stdin stdout (.kv initState [])
