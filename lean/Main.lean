import Rosmar.Driver
open Rosmar Rosmar.Driver

partial def loop (h : IO.FS.Stream) (out : IO.FS.Stream) (s : State) : IO Unit := do
  let line ← h.getLine
  if line.isEmpty then return ()
  let line := (line.dropEndWhile (fun c => c = '\n' || c = '\r')).toString
  if line.isEmpty || line.startsWith "#" then
    loop h out s
  else
    let l := parseLine line
    if l.op = "begin" then
      out.putStrLn "begin"
      loop h out initState
    else if l.op = "end" then
      out.putStrLn "end"
      loop h out initState
    else
      match toOp l with
      | none =>
        out.putStrLn "r=model-unknown-op"
        loop h out s
      | some op =>
        let (s', resp) := step s op
        out.putStrLn (fmtResp l resp)
        loop h out s'

def main : IO Unit := do
  let stdin ← IO.getStdin
  let stdout ← IO.getStdout
  loop stdin stdout initState
