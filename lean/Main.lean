import Rosmar.Driver
import Rosmar.Shutdown
import Rosmar.ViewDriver
open Rosmar Rosmar.Driver

/-- `sd acts=a,b,c` → the shutdown model's verdict; `sd locks=h1+h2>w;h>w` → whether those threads are deadlocked. -/
def shutdownLine (l : Line) : String :=
  if l.str "acts" ≠ "" then
    match ((l.str "acts").splitOn ",").mapM Rosmar.Shutdown.parseAct with
    | none => "r=model-unknown-act"
    | some as => "r=ok verdict=" ++ Rosmar.Shutdown.verdict (Rosmar.Shutdown.run {} as)
  else
    let ts : List (Rosmar.Shutdown.Thread String) := ((l.str "locks").splitOn ";").map (fun t =>
      match t.splitOn ">" with
      | [h, w] => { held := (h.splitOn "+").filter (· ≠ ""), waits := some w }
      | _ => { held := (t.splitOn "+").filter (· ≠ ""), waits := none })
    s!"r=ok deadlock={Rosmar.Shutdown.deadlockedB ts}"

inductive Mode where
  | kv (s : State) (dd : List Rosmar.View.DDoc)
  | reg (r : Rosmar.Registry.Reg)
  | life (l : Rosmar.FeedLife.Life)

partial def loop (h : IO.FS.Stream) (out : IO.FS.Stream) (m : Mode) : IO Unit := do
  let line ← h.getLine
  if line.isEmpty then return ()
  let line := (line.dropEndWhile (fun c => c = '\n' || c = '\r')).toString
  if line.isEmpty || line.startsWith "#" then
    loop h out m
  else
    let l := parseLine line
    if l.op = "begin" then
      out.putStrLn "begin"
      if l.str "kind" = "reg" then loop h out (.reg {})
      else if l.str "kind" = "life" then loop h out (.life { onDisk := l.flag "disk", openHandles := ["h0"] })
      else loop h out (.kv initState [])
    else if l.op = "end" then
      out.putStrLn "end"
      loop h out (.kv initState [])
    else if l.op = "sd" then
      out.putStrLn (shutdownLine l)
      loop h out m
    else
      match m with
      | .life st =>
        let (st', s) := lifeLine st l
        out.putStrLn s
        loop h out (.life st')
      | .reg r =>
        let (r', s) := regLine r l
        out.putStrLn s
        loop h out (.reg r')
      | .kv s dd =>
        match Rosmar.View.viewLine { s := s, ddocs := dd } l with
        | some (vs', str) =>
          out.putStrLn str
          loop h out (.kv vs'.s vs'.ddocs)
        | none =>
        if l.op = "query" then
          let rows := opQuery s l.p0 (l.nat "q")
          out.putStrLn (s!"r=ok n={rows.length} again=false rows=" ++ ";".intercalate rows)
          loop h out m
        else
        match toOp l with
        | none =>
          out.putStrLn "r=model-unknown-op"
          loop h out m
        | some op =>
          let (s', resp) := step s op
          out.putStrLn (fmtResp l resp)
          let vs' := if dd.isEmpty then { s := s', ddocs := dd } else (Rosmar.View.VState.gc { s := s', ddocs := dd })
          loop h out (.kv vs'.s vs'.ddocs)

def main : IO Unit := do
  let stdin ← IO.getStdin
  let stdout ← IO.getStdout
  loop stdin stdout (.kv initState [])
