import Rosmar.Json
import Rosmar.Basic
import Rosmar.Pure
import Rosmar.Kv
import Rosmar.Xattr
import Rosmar.Feed
import Rosmar.Step
import Rosmar.Driver
