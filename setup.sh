#!/bin/bash
# Build everything the checks need, offline, from files on disk: harness against /repo, Lean model, driver, all property modules.
set -e
cd "$(dirname "$0")"
export GOFLAGS=-mod=mod GOPROXY=off GOSUMDB=off GOTOOLCHAIN=local
mkdir -p .work evidence replays
python3 - <<'PY'
import sys; sys.path.insert(0, "lib")
import vcheck as V
V.prepare({})
PY
cd lean
MODS=$(ls Rosmar/Properties/*.lean Rosmar/Gen/Tie*.lean | sed 's/\.lean$//; s#/#.#g')
lake build drv $MODS
echo "setup ok"
